#!/bin/bash
# usage: run.sh <property id> <quick|thorough>
# Rebuilds the harness (and with it the qmluic library from /repo's working tree), the qmluic
# command-line tool when the check needs it, then runs the check.
# exit 0 = held, 1 = VIOLATION printed, 2 = infrastructure trouble / inconclusive.
set -u
id="$1"; tier="${2:-quick}"
export CARGO_NET_OFFLINE=true
cd /verif/qv || exit 2
if ! cargo build --offline -q 2>/verif/target/build.$id.log; then
  cat /verif/target/build.$id.log >&2
  echo "[run.sh] harness build failed (infrastructure, not a verdict)" >&2
  exit 2
fi
case "$id" in
  C04|C07|C08|C15|C18)
    if ! cargo build --offline -q --manifest-path /repo/Cargo.toml --bin qmluic --target-dir /verif/target/cli 2>/verif/target/build.cli.$id.log; then
      cat /verif/target/build.cli.$id.log >&2
      echo "[run.sh] qmluic CLI build failed (infrastructure, not a verdict)" >&2
      exit 2
    fi ;;
esac
exec /verif/target/debug/qv check "$id" "$tier"
