//! Scanner for the very regular text of uisupport_*.h (DESIGN.md section 2.8). It looks at the
//! artifact only.

#[derive(Clone, Debug, Default)]
pub struct Func {
    pub name: String,
    pub ret: String,
    pub params: String,
    pub body: Vec<String>,
    /// 1-based line of the signature
    pub line: usize,
}

#[derive(Clone, Debug, Default)]
pub struct Header {
    pub includes: Vec<String>,
    pub class_name: String,
    pub root_class: String,
    pub binding_indices: Vec<String>,
    pub funcs: Vec<Func>,
    /// fields after the functions, verbatim (trimmed)
    pub fields: Vec<String>,
    pub setup_calls: Vec<String>,
}

fn is_ident_char(c: char) -> bool {
    c.is_ascii_alphanumeric() || c == '_'
}

pub fn scan(text: &str) -> Result<Header, String> {
    let mut h = Header::default();
    let lines: Vec<&str> = text.lines().collect();
    let mut i = 0;
    let mut in_enum = false;
    let mut in_struct = false;
    let mut seen_private = false;
    while i < lines.len() {
        let l = lines[i];
        let t = l.trim();
        if let Some(rest) = t.strip_prefix("#include ") {
            h.includes.push(rest.trim().to_owned());
        } else if let Some(rest) = l.strip_prefix("class ") {
            h.class_name = rest.trim().to_owned();
        } else if t == "private:" {
            seen_private = true;
        } else if t.starts_with("enum class BindingIndex") {
            in_enum = true;
        } else if in_enum {
            if t == "};" {
                in_enum = false;
            } else if !t.is_empty() {
                h.binding_indices.push(t.trim_end_matches(',').to_owned());
            }
        } else if t.starts_with("struct PropertyObserver") {
            in_struct = true;
        } else if in_struct {
            if t == "};" {
                in_struct = false;
            }
        } else if l.starts_with("    ") && !l.starts_with("     ") && i + 1 < lines.len() && lines[i + 1] == "    {" {
            // function
            let sig = t;
            let open = sig.find('(').ok_or_else(|| format!("line {}: function without '('", i + 1))?;
            let before = &sig[..open];
            let name_start = before.rfind(|c: char| !is_ident_char(c)).map(|p| p + 1).unwrap_or(0);
            let name = before[name_start..].to_owned();
            let ret = before[..name_start].trim().to_owned();
            let close = sig.rfind(')').ok_or_else(|| format!("line {}: function without ')'", i + 1))?;
            let params = sig[open + 1..close].to_owned();
            let mut body = vec![];
            let mut j = i + 2;
            while j < lines.len() && lines[j] != "    }" {
                body.push(lines[j].to_owned());
                j += 1;
            }
            if j >= lines.len() {
                return Err(format!("line {}: unterminated function {name}", i + 1));
            }
            if name == "setup" {
                for b in &body {
                    let bt = b.trim();
                    if let Some(r) = bt.strip_prefix("this->") {
                        if let Some(n) = r.strip_suffix("();") {
                            h.setup_calls.push(n.to_owned());
                        }
                    }
                }
            }
            h.funcs.push(Func { name, ret, params, body, line: i + 1 });
            i = j;
        } else if l.starts_with("    ") && t.ends_with("{}") && t.contains("root_(root)") {
            // constructor: T(QDialog *root, Ui::T *ui): ...
            if let Some(p) = t.find('(') {
                let args = &t[p + 1..];
                if let Some(star) = args.find('*') {
                    h.root_class = args[..star].trim().to_owned();
                }
            }
        } else if seen_private && l.starts_with("    ") && t.ends_with(';') && !t.starts_with('}') {
            h.fields.push(t.to_owned());
        }
        i += 1;
    }
    if h.class_name.is_empty() {
        return Err("no class found".into());
    }
    Ok(h)
}

/// All `ui_->NAME` tokens in a piece of text.
pub fn ui_refs(text: &str) -> Vec<String> {
    let mut out = vec![];
    let mut rest = text;
    while let Some(p) = rest.find("ui_->") {
        let after = &rest[p + 5..];
        let end = after.find(|c: char| !is_ident_char(c)).unwrap_or(after.len());
        out.push(after[..end].to_owned());
        rest = &after[end..];
    }
    out
}

impl Header {
    pub fn func(&self, name: &str) -> Option<&Func> {
        self.funcs.iter().find(|f| f.name == name)
    }
    pub fn funcs_with_prefix<'a>(&'a self, prefix: &'a str) -> impl Iterator<Item = &'a Func> {
        self.funcs.iter().filter(move |f| {
            f.name.starts_with(prefix) && f.name[prefix.len()..].starts_with(|c: char| c.is_ascii_uppercase() || c.is_ascii_digit() || c == '_')
        })
    }
    /// all QObject::connect(...) lines of a function
    pub fn connects(f: &Func) -> Vec<Connect> {
        f.body.iter().filter_map(|l| parse_connect(l.trim())).collect()
    }
}

#[derive(Clone, Debug, PartialEq, Eq)]
pub struct Connect {
    pub sender: String,
    /// argument types inside QOverload<...>
    pub overload: String,
    /// Class::signal
    pub signal: String,
    pub context: String,
    pub lambda: String,
}

/// splits on top-level commas (ignoring (), <>, [], {})
pub fn split_top(s: &str) -> Vec<String> {
    let mut out = vec![];
    let mut depth = 0i32;
    let mut cur = String::new();
    let mut prev = ' ';
    for c in s.chars() {
        match c {
            '(' | '[' | '{' => depth += 1,
            ')' | ']' | '}' => depth -= 1,
            '<' => depth += 1,
            '>' if prev != '-' => depth -= 1,
            _ => {}
        }
        if c == ',' && depth == 0 {
            out.push(cur.trim().to_owned());
            cur.clear();
        } else {
            cur.push(c);
        }
        prev = c;
    }
    if !cur.trim().is_empty() {
        out.push(cur.trim().to_owned());
    }
    out
}

pub fn parse_connect(line: &str) -> Option<Connect> {
    let p = line.find("QObject::connect(")?;
    let inner = &line[p + "QObject::connect(".len()..];
    let inner = inner.strip_suffix(");").unwrap_or(inner);
    let parts = split_top(inner);
    if parts.len() < 4 {
        return None;
    }
    let sig = &parts[1];
    let (overload, signal) = if let Some(r) = sig.strip_prefix("QOverload<") {
        let gt = r.find(">::of(&")?;
        (r[..gt].to_owned(), r[gt + 7..].trim_end_matches(')').to_owned())
    } else {
        (String::new(), sig.trim_start_matches('&').to_owned())
    };
    Some(Connect {
        sender: parts[0].clone(),
        overload,
        signal,
        context: parts[2].clone(),
        lambda: parts[3..].join(", "),
    })
}
