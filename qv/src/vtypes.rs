//! Synthetic classes added to the Qt metatypes (DESIGN.md section 2.2).

use qmluic::metatype::Class;

pub fn verif_classes() -> Vec<Class> {
    vec![]
}
