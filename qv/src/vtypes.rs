//! Synthetic classes added to the Qt metatypes (DESIGN.md section 2.2). They are *type
//! information*, exactly like a user's own metatypes file passed with --foreign-types, built so
//! that every typing and notification situation has a name the harness controls.

use qmluic::metatype::{Class, ClassInfo, CompilationUnit, Enum, Method, Property};

fn prop(name: &str, ty: &str, read: bool, write: bool, notify: Option<&str>, constant: bool) -> Property {
    let cap = {
        let mut c = name.chars();
        let f = c.next().unwrap().to_ascii_uppercase();
        format!("{f}{}", c.as_str())
    };
    Property {
        name: name.to_owned(),
        r#type: ty.to_owned(),
        read: read.then(|| name.to_owned()),
        write: write.then(|| format!("set{cap}")),
        notify: notify.map(|s| s.to_owned()),
        constant,
        ..Default::default()
    }
}

/// read/write property with notify signal `<name>Changed`
fn rw(name: &str, ty: &str) -> Property {
    prop(name, ty, true, true, Some(&format!("{name}Changed")), false)
}

fn sig(name: &str, args: &[&str]) -> Method {
    Method::with_argument_types(name, "void", args.iter().copied())
}

fn slot(name: &str, ret: &str, args: &[&str]) -> Method {
    Method::with_argument_types(name, ret, args.iter().copied())
}

pub const SRC_SCALARS: &[(&str, &str)] = &[
    ("i0", "int"), ("i1", "int"), ("u0", "uint"), ("d0", "double"), ("d1", "double"), ("r0", "qreal"),
    ("b0", "bool"), ("b1", "bool"), ("s0", "QString"), ("s1", "QString"), ("sl0", "QStringList"), ("il0", "QList<int>"),
    ("e0", "VSrc::Mode"), ("f0", "VSrc::Opts"), ("v0", "QVariant"), ("p0", "VSrc*"), ("p1", "VSrc*"), ("w0", "QWidget*"),
];

/// notify signals that carry the new value as argument (the others carry nothing)
pub const SRC_NOTIFY_WITH_ARG: &[&str] = &["i1", "d1", "b1", "s1", "p1", "e0", "f0"];

pub const DST_TARGETS: &[(&str, &str)] = &[
    ("ti", "int"), ("tu", "uint"), ("td", "double"), ("tb", "bool"), ("ts", "QString"), ("tsl", "QStringList"), ("til", "QList<int>"),
    ("te", "VSrc::Mode"), ("tf", "VSrc::Opts"), ("tp", "VSrc*"), ("tw", "QWidget*"), ("tv", "QVariant"),
    ("ti2", "int"), ("ts2", "QString"), ("tb2", "bool"), ("td2", "double"),
];

pub fn verif_classes() -> Vec<Class> {
    let mut out = vec![];

    // ---- VSrc -------------------------------------------------------------------------------
    let mut src = Class::with_supers("VSrc", ["QWidget"]);
    src.class_infos.push(ClassInfo::new("QML.Element", "auto"));
    src.enums.push(Enum::with_values("Mode", ["ModeA", "ModeB", "ModeC"]));
    let mut opts = Enum::new_flag("Opts", "Opt");
    opts.values = vec!["OptA".into(), "OptB".into(), "OptC".into()];
    src.enums.push(opts);
    for (n, t) in SRC_SCALARS {
        src.properties.push(rw(n, t));
        let args: Vec<&str> = if SRC_NOTIFY_WITH_ARG.contains(n) { vec![t] } else { vec![] };
        src.signals.push(sig(&format!("{n}Changed"), &args));
    }
    src.properties.push(prop("ci", "int", true, false, None, true)); // CONSTANT
    src.properties.push(prop("nn", "int", true, true, None, false)); // no NOTIFY, not constant
    src.properties.push(prop("pn", "VSrc*", true, true, None, false)); // object pointer without NOTIFY, not constant
    // read-only, notifying, FINAL (its value changes from inside the object; the model offers qvSetRo)
    let mut ro = prop("ro", "int", true, false, Some("roChanged"), false);
    ro.r#final = true;
    src.properties.push(ro);
    src.signals.push(sig("roChanged", &[]));
    src.properties.push(prop("wo", "int", false, true, None, false)); // write-only
    src.properties.push(prop("ov", "int", true, true, Some("ovChanged"), false)); // overloaded notify name
    src.signals.push(sig("ovChanged", &[]));
    src.signals.push(sig("ovChanged", &["int"]));
    out.push(src);

    out.push(Class::with_supers("VSub", ["VSrc"]));
    out.push(Class::with_supers("VSub2", ["VSub"]));

    // ---- VDst -------------------------------------------------------------------------------
    let mut dst = Class::with_supers("VDst", ["QWidget"]);
    for (n, t) in DST_TARGETS {
        dst.properties.push(rw(n, t));
        dst.signals.push(sig(&format!("{n}Changed"), &[]));
    }
    dst.properties.push(prop("tfont", "QFont", true, true, None, false));
    dst.properties.push(prop("tpol", "QSizePolicy", true, true, None, false));
    // names that collide by concatenation with object names (C16/C10); `xTi` of object `d` and
    // `ti` of object `dX` both capitalise to `DXTi`
    for n in ["ab", "b", "b1", "x1", "xTi"] {
        dst.properties.push(rw(n, "int"));
        dst.signals.push(sig(&format!("{n}Changed"), &[]));
    }
    out.push(dst);

    // ---- VSig -------------------------------------------------------------------------------
    let mut vsig = Class::with_supers("VSig", ["QWidget"]);
    vsig.signals.extend([
        sig("fired", &[]),
        sig("firedI", &["int"]),
        sig("firedIS", &["int", "QString"]),
        sig("firedB", &["bool"]),
        sig("firedD", &["double"]),
        sig("firedP", &["VSrc*"]),
        // a gadget-valued argument (handlers may read it, write its members, re-assign it)
        sig("firedF", &["QFont"]),
        // default-argument pair, as moc emits for `void trig(bool = false)`
        sig("trig", &[]),
        sig("trig", &["bool"]),
        // true overload
        sig("ov", &["int"]),
        sig("ov", &["QString"]),
        // two default arguments: three entries, as moc emits for `void rng(int = 0, int = 99)`
        sig("rng", &[]),
        sig("rng", &["int"]),
        sig("rng", &["int", "int"]),
        // a default-argument pair plus a true overload: ambiguous, handlers must be rejected
        sig("mix", &[]),
        sig("mix", &["int"]),
        sig("mix", &["QString"]),
        // `xFired` of object `s` and `fired` of object `sX` both capitalise to `SXFired`
        sig("xFired", &[]),
    ]);
    vsig.slots.extend([
        slot("doIt", "void", &[]),
        slot("take", "void", &["int"]),
        slot("take2", "void", &["int", "QString"]),
        slot("takeS", "void", &["QString"]),
        slot("takeB", "void", &["bool"]),
        slot("takeD", "void", &["double"]),
        slot("takeP", "void", &["QWidget*"]),
        slot("onlySlot", "void", &[]),
    ]);
    vsig.methods.push(slot("twice", "int", &["int"]));
    out.push(vsig);

    // ---- classes whose names look like generated object names (C10) ---------------------------
    out.push(Class::with_supers("Label1", ["QLabel"]));
    out.push(Class::with_supers("QLabel1", ["QLabel"]));
    out.push(Class::with_supers("KLabel", ["QLabel"]));
    out.push(Class::with_supers("Widget2", ["QWidget"]));
    out.push(Class::with_supers("Q3D", ["QWidget"]));
    out.push(Class::with_supers("Label", ["QLabel"]));
    out.push(Class::with_supers("QAction1", ["QAction"]));
    out
}

/// The synthetic classes as a metatypes.json document (for `--foreign-types`).
pub fn verif_metatypes_json() -> String {
    let unit = CompilationUnit {
        classes: verif_classes(),
        ..Default::default()
    };
    serde_json::to_string_pretty(&vec![unit]).unwrap()
}
