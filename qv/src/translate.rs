//! Wrappers around the real translator: in-process (library API, used exactly as src/main.rs and
//! tests/common/mod.rs use it) and through the command-line binary.

use crate::common::{catch, REPO_DIR};
use codespan_reporting::files::SimpleFile;
use codespan_reporting::term;
use qmluic::diagnostic::{DiagnosticKind, Diagnostics};
use qmluic::metatype;
use qmluic::metatype_tweak;
use qmluic::qmldoc::UiDocument;
use qmluic::qtname::FileNameRules;
use qmluic::typemap::{ModuleData, ModuleId, TypeMap};
use qmluic::uigen::{self, BuildContext, DynamicBindingHandling, XmlWriter};
use qmluic_cli::reporting;
use std::sync::OnceLock;

pub struct Universe {
    pub type_map: TypeMap,
    /// all classes after metatype_tweak::apply_all, as given to the translator
    pub classes: Vec<metatype::Class>,
}

pub fn qt_metatype_paths() -> Vec<String> {
    ["qt5core", "qt5gui", "qt5widgets"]
        .iter()
        .map(|n| format!("{REPO_DIR}/contrib/metatypes/{n}_metatypes.json"))
        .collect()
}

fn load_classes() -> Vec<metatype::Class> {
    let mut classes: Vec<metatype::Class> = qt_metatype_paths()
        .iter()
        .flat_map(|p| {
            let data = std::fs::read_to_string(p).unwrap_or_else(|e| panic!("read {p}: {e}"));
            metatype::extract_classes_from_str(&data).expect("parse metatypes")
        })
        .collect();
    classes.extend(crate::vtypes::verif_classes());
    metatype_tweak::apply_all(&mut classes);
    classes
}

pub fn make_type_map(classes: &[metatype::Class]) -> TypeMap {
    let mut type_map = TypeMap::with_primitive_types();
    let mut module_data = ModuleData::with_builtins();
    module_data.extend(classes.to_vec());
    type_map.insert_module(ModuleId::Named("qmluic.QtWidgets"), module_data);
    type_map
}

pub fn universe() -> &'static Universe {
    static U: OnceLock<Universe> = OnceLock::new();
    U.get_or_init(|| {
        let classes = load_classes();
        let type_map = make_type_map(&classes);
        Universe { type_map, classes }
    })
}

#[derive(Clone, Copy, Debug, PartialEq, Eq, Hash, PartialOrd, Ord)]
pub enum Mode {
    Generate,
    Reject,
    Omit,
}

impl Mode {
    pub const ALL: [Mode; 3] = [Mode::Generate, Mode::Reject, Mode::Omit];
    pub fn handling(self) -> DynamicBindingHandling {
        match self {
            Mode::Generate => DynamicBindingHandling::Generate,
            Mode::Reject => DynamicBindingHandling::Reject,
            Mode::Omit => DynamicBindingHandling::Omit,
        }
    }
    pub fn name(self) -> &'static str {
        match self {
            Mode::Generate => "generate",
            Mode::Reject => "reject",
            Mode::Omit => "omit",
        }
    }
}

#[derive(Clone, Debug, PartialEq, Eq, Hash, PartialOrd, Ord)]
pub struct Diag {
    pub is_error: bool,
    pub start: usize,
    pub end: usize,
    pub message: String,
    pub labels: Vec<(usize, usize, String)>,
    pub notes: Vec<String>,
}

#[derive(Clone, Debug, Default)]
pub struct Translation {
    pub syntax_errors: Vec<(usize, usize, String)>,
    /// uigen::build was called
    pub build_called: bool,
    /// uigen::build returned Some
    pub built: bool,
    pub ui: Option<Vec<u8>>,
    pub header: Option<Vec<u8>>,
    pub diags: Vec<Diag>,
    pub panic: Option<String>,
    /// rendered report (only when asked for)
    pub rendered: Option<String>,
    /// the parser library did not finish on this input within the limit (known finding of C07);
    /// nothing else was attempted and the document counts as one with a syntax error
    pub parse_hang: bool,
}

impl Translation {
    pub fn errors(&self) -> impl Iterator<Item = &Diag> {
        self.diags.iter().filter(|d| d.is_error)
    }
    pub fn has_error(&self) -> bool {
        self.diags.iter().any(|d| d.is_error)
    }
    /// what `qmluic generate-ui` would treat as success
    pub fn accepted(&self) -> bool {
        self.panic.is_none() && self.syntax_errors.is_empty() && self.built && !self.has_error()
    }
    pub fn ui_str(&self) -> Option<&str> {
        self.ui.as_deref().and_then(|b| std::str::from_utf8(b).ok())
    }
    pub fn header_str(&self) -> Option<&str> {
        self.header
            .as_deref()
            .and_then(|b| std::str::from_utf8(b).ok())
    }
    pub fn diag_summary(&self) -> Vec<String> {
        self.diags
            .iter()
            .map(|d| {
                format!(
                    "{}[{}..{}] {}",
                    if d.is_error { "error" } else { "warning" },
                    d.start,
                    d.end,
                    d.message
                )
            })
            .collect()
    }
}

#[derive(Clone, Copy, Debug)]
pub struct Opts {
    pub mode: Mode,
    /// like `preview`: run the semantic passes even if the document has syntax errors
    pub build_despite_syntax_errors: bool,
    /// render every diagnostic with codespan (as the command line does)
    pub render: bool,
    /// file-name rule (false = --no-lowercase-file-name)
    pub lowercase: bool,
}

impl Opts {
    pub fn new(mode: Mode) -> Opts {
        Opts {
            mode,
            build_despite_syntax_errors: false,
            render: false,
            lowercase: true,
        }
    }
}

pub fn translate(src: &str, type_name: &str, mode: Mode) -> Translation {
    translate_with(&universe().type_map, src, type_name, None, Opts::new(mode))
}

pub fn translate_opts(src: &str, type_name: &str, opts: Opts) -> Translation {
    translate_with(&universe().type_map, src, type_name, None, opts)
}

pub fn translate_with(
    type_map: &TypeMap,
    src: &str,
    type_name: &str,
    path: Option<camino::Utf8PathBuf>,
    opts: Opts,
) -> Translation {
    let mut t = Translation::default();
    if !parse_terminates(src, PARSE_LIMIT_MS) {
        t.parse_hang = true;
        t.syntax_errors.push((0, 0, "the parser library did not terminate within the limit".to_owned()));
        return t;
    }
    let r = catch(|| {
        let mut t = Translation::default();
        let doc = UiDocument::parse(src, type_name, path);
        let mut rendered = String::new();
        let files = SimpleFile::new("<doc>", doc.source());
        let config = term::Config::default();
        if doc.has_syntax_error() {
            let errs = doc.collect_syntax_errors();
            for e in &errs {
                let r = e.byte_range();
                t.syntax_errors.push((r.start, r.end, e.to_string()));
            }
            if opts.render {
                for d in reporting::make_reportable_syntax_errors(&errs) {
                    term::emit_to_string(&mut rendered, &config, &files, &d)
                        .expect("rendering a syntax error must not fail");
                }
            }
            if !opts.build_despite_syntax_errors {
                if opts.render {
                    t.rendered = Some(rendered);
                }
                return t;
            }
        }
        let rules = FileNameRules { lowercase: opts.lowercase, ..FileNameRules::default() };
        let ctx = BuildContext::prepare(type_map, rules, opts.mode.handling())
            .expect("build context");
        let mut diagnostics = Diagnostics::new();
        t.build_called = true;
        let built = uigen::build(&ctx, &doc, &mut diagnostics);
        for d in diagnostics.iter() {
            t.diags.push(Diag {
                is_error: d.kind() == DiagnosticKind::Error,
                start: d.start_byte(),
                end: d.end_byte(),
                message: d.message().to_owned(),
                labels: d
                    .labels()
                    .iter()
                    .map(|(r, s)| (r.start, r.end, s.clone()))
                    .collect(),
                notes: d.notes().to_vec(),
            });
        }
        if opts.render {
            for d in reporting::make_reportable_diagnostics(&diagnostics) {
                term::emit_to_string(&mut rendered, &config, &files, &d)
                    .expect("rendering a diagnostic must not fail");
            }
            t.rendered = Some(rendered);
        }
        if let Some((form, support)) = built {
            t.built = true;
            let mut buf = Vec::new();
            form.serialize_to_xml(&mut XmlWriter::new_with_indent(&mut buf, b' ', 1))
                .expect("serialize_to_xml into a Vec must not fail");
            t.ui = Some(buf);
            if let Some(s) = support {
                let mut h = Vec::new();
                s.write_header(&mut h)
                    .expect("write_header into a Vec must not fail");
                t.header = Some(h);
            }
        }
        t
    });
    match r {
        Ok(x) => x,
        Err(p) => {
            t.panic = Some(p);
            t
        }
    }
}

// ---------------------------------------------------------------------------------------------
// Command-line tool

/// `--foreign-types` arguments giving the command-line tool the same type universe as the
/// in-process translator: the repository's Qt 5 metatypes plus the synthetic classes, written
/// once per process to /verif/target/verif_types.<pid>.json.
pub fn foreign_types() -> Vec<String> {
    static F: OnceLock<Vec<String>> = OnceLock::new();
    F.get_or_init(|| {
        let dir = "/verif/target/foreign";
        std::fs::create_dir_all(dir).expect("create /verif/target/foreign");
        let p = format!("{dir}/verif_types.{}.json", std::process::id());
        std::fs::write(&p, crate::vtypes::verif_metatypes_json()).expect("write verif types");
        let mut v = qt_metatype_paths();
        v.push(p);
        v
    })
    .clone()
}

pub fn remove_foreign_types_file() {
    let _ = std::fs::remove_file(format!("/verif/target/foreign/verif_types.{}.json", std::process::id()));
}

pub fn cli_path() -> String {
    std::env::var("QV_CLI").unwrap_or_else(|_| "/verif/target/cli/debug/qmluic".to_owned())
}

#[derive(Debug, Clone)]
pub struct CliResult {
    pub status: Option<i32>,
    pub signal: Option<i32>,
    pub stdout: String,
    pub stderr: String,
    pub timed_out: bool,
}

/// Runs `qmluic generate-ui --foreign-types <dirs> args…` in `cwd` with NO_COLOR, with a watchdog.
pub const CLI_MEM_LIMIT_KIB: u64 = 4 * 1024 * 1024;

pub fn run_cli(
    cwd: &std::path::Path,
    foreign_types: &[String],
    args: &[String],
    timeout_s: u64,
) -> CliResult {
    use std::io::Read;
    use std::os::unix::process::ExitStatusExt;
    use std::process::{Command, Stdio};
    // address-space limit for the tool (normal use: tens of MB): a runaway allocation ends the
    // child with an abnormal status instead of taking the machine down
    let mut cmd = Command::new("/bin/sh");
    cmd.arg("-c").arg(format!("ulimit -v {CLI_MEM_LIMIT_KIB}; exec \"$0\" \"$@\"")).arg(cli_path());
    cmd.current_dir(cwd)
        .env("NO_COLOR", "")
        .env_remove("QMLUIC_LOG")
        .arg("generate-ui");
    for f in foreign_types {
        cmd.arg("--foreign-types").arg(f);
    }
    cmd.args(args)
        .stdin(Stdio::null())
        .stdout(Stdio::piped())
        .stderr(Stdio::piped());
    let mut child = cmd.spawn().expect("spawn qmluic (was the CLI built?)");
    let mut out = child.stdout.take().unwrap();
    let mut err = child.stderr.take().unwrap();
    let th_out = std::thread::spawn(move || {
        let mut s = Vec::new();
        let _ = out.read_to_end(&mut s);
        s
    });
    let th_err = std::thread::spawn(move || {
        let mut s = Vec::new();
        let _ = err.read_to_end(&mut s);
        s
    });
    let start = std::time::Instant::now();
    let mut timed_out = false;
    let status = loop {
        match child.try_wait().expect("wait") {
            Some(st) => break st,
            None => {
                if start.elapsed().as_secs() >= timeout_s {
                    timed_out = true;
                    let _ = child.kill();
                    break child.wait().expect("wait");
                }
                std::thread::sleep(std::time::Duration::from_millis(2));
            }
        }
    };
    CliResult {
        status: status.code(),
        signal: status.signal(),
        stdout: String::from_utf8_lossy(&th_out.join().unwrap()).into_owned(),
        stderr: String::from_utf8_lossy(&th_err.join().unwrap()).into_owned(),
        timed_out,
    }
}

pub const PARSE_LIMIT_MS: u64 = 3000;

/// Parses `src` with the same grammar and parser library as qmluic, but with a time limit.
/// False = the parser library did not finish within `limit_ms` (known finding: tree-sitter's
/// error recovery can livelock; the call in qmldoc.rs has no limit).
#[allow(deprecated)]
pub fn parse_terminates(src: &str, limit_ms: u64) -> bool {
    let language = tree_sitter::Language::new(tree_sitter_qmljs::LANGUAGE);
    let mut parser = tree_sitter::Parser::new();
    parser.set_language(&language).expect("grammar compatible with parser");
    parser.set_timeout_micros(limit_ms * 1000);
    parser.parse(src.as_bytes(), None).is_some()
}
