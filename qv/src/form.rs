//! FormModel: what a reader of the .ui file sees (objects, properties, items, actions),
//! decoded from the tree of the independent XML reader.

use crate::xml::{self, Elem};
use std::collections::BTreeMap;

#[derive(Clone, Debug, PartialEq, Eq)]
pub enum FKind {
    Widget,
    Layout,
    Spacer,
    Action,
}

#[derive(Clone, Debug, PartialEq)]
pub enum FValue {
    Bool(bool),
    /// content of <number> or <double>, verbatim
    Number(String),
    Str { text: String, notr: bool },
    Cstring(String),
    Enum(String),
    Set(String),
    CursorShape(String),
    Pixmap(String),
    StringList { items: Vec<String>, notr: bool },
    /// structured value (font, rect, size, sizepolicy, iconset, color, brush, palette, ...)
    Other(Elem),
}

#[derive(Clone, Debug, PartialEq)]
pub struct FProp {
    pub name: String,
    pub value: FValue,
    pub stdset0: bool,
}

#[derive(Clone, Debug, Default, PartialEq, Eq)]
pub struct ItemAttrs {
    pub row: Option<String>,
    pub column: Option<String>,
    pub rowspan: Option<String>,
    pub colspan: Option<String>,
    pub alignment: Option<String>,
}

#[derive(Clone, Debug, PartialEq)]
pub struct FChild {
    /// Some when the child is wrapped in an <item> (layout parent)
    pub item: Option<ItemAttrs>,
    pub obj: FObj,
}

#[derive(Clone, Debug, PartialEq)]
pub struct FObj {
    pub kind: FKind,
    pub class: Option<String>,
    pub name: String,
    pub props: Vec<FProp>,
    /// <attribute> children (tab titles, header settings)
    pub attrs: Vec<FProp>,
    /// XML attributes of <layout> other than class/name (stretch, rowstretch, ...)
    pub layout_attrs: BTreeMap<String, String>,
    pub addactions: Vec<String>,
    /// model items of combo boxes / list widgets
    pub model_items: Vec<Vec<FProp>>,
    pub children: Vec<FChild>,
}

#[derive(Clone, Debug, PartialEq)]
pub struct Form {
    pub class: String,
    pub root: FObj,
    /// (class, extends, header)
    pub custom_widgets: Vec<(String, String, String)>,
}

pub fn decode_value(e: &Elem) -> FValue {
    let text = e.text();
    match e.name.as_str() {
        "bool" => match text.as_str() {
            "true" => FValue::Bool(true),
            "false" => FValue::Bool(false),
            _ => FValue::Other(e.clone()),
        },
        "number" | "double" => FValue::Number(text),
        "string" => FValue::Str {
            text,
            notr: e.attr("notr") == Some("true"),
        },
        "cstring" => FValue::Cstring(text),
        "enum" => FValue::Enum(text),
        "set" => FValue::Set(text),
        "cursorShape" => FValue::CursorShape(text),
        "pixmap" => FValue::Pixmap(text),
        "stringlist" => FValue::StringList {
            items: e.elems_named("string").map(|s| s.text()).collect(),
            notr: e.attr("notr") == Some("true"),
        },
        _ => FValue::Other(e.clone()),
    }
}

fn decode_prop(e: &Elem) -> Result<FProp, String> {
    let name = e
        .attr("name")
        .ok_or_else(|| format!("<{}> without name", e.name))?
        .to_owned();
    let vals: Vec<&Elem> = e.elems().collect();
    if vals.len() != 1 {
        return Err(format!(
            "<{} name={:?}> has {} value elements",
            e.name,
            name,
            vals.len()
        ));
    }
    Ok(FProp {
        name,
        value: decode_value(vals[0]),
        stdset0: e.attr("stdset") == Some("0"),
    })
}

fn decode_obj(e: &Elem) -> Result<FObj, String> {
    let kind = match e.name.as_str() {
        "widget" => FKind::Widget,
        "layout" => FKind::Layout,
        "spacer" => FKind::Spacer,
        "action" => FKind::Action,
        n => return Err(format!("unexpected object element <{n}>")),
    };
    let mut o = FObj {
        kind: kind.clone(),
        class: e.attr("class").map(|s| s.to_owned()),
        name: e
            .attr("name")
            .ok_or_else(|| format!("<{}> without name", e.name))?
            .to_owned(),
        props: vec![],
        attrs: vec![],
        layout_attrs: BTreeMap::new(),
        addactions: vec![],
        model_items: vec![],
        children: vec![],
    };
    if kind == FKind::Layout {
        for (k, v) in &e.attrs {
            if k != "class" && k != "name" {
                o.layout_attrs.insert(k.clone(), v.clone());
            }
        }
    }
    for c in e.elems() {
        match c.name.as_str() {
            "property" => o.props.push(decode_prop(c)?),
            "attribute" => o.attrs.push(decode_prop(c)?),
            "addaction" => o.addactions.push(
                c.attr("name")
                    .ok_or_else(|| "<addaction> without name".to_owned())?
                    .to_owned(),
            ),
            "item" => {
                if kind == FKind::Layout {
                    let inner: Vec<&Elem> = c.elems().collect();
                    if inner.len() != 1 {
                        return Err(format!("layout <item> with {} children", inner.len()));
                    }
                    let ia = ItemAttrs {
                        row: c.attr("row").map(|s| s.to_owned()),
                        column: c.attr("column").map(|s| s.to_owned()),
                        rowspan: c.attr("rowspan").map(|s| s.to_owned()),
                        colspan: c.attr("colspan").map(|s| s.to_owned()),
                        alignment: c.attr("alignment").map(|s| s.to_owned()),
                    };
                    o.children.push(FChild {
                        item: Some(ia),
                        obj: decode_obj(inner[0])?,
                    });
                } else {
                    let mut props = vec![];
                    for p in c.elems() {
                        if p.name == "property" {
                            props.push(decode_prop(p)?);
                        } else {
                            return Err(format!("model <item> contains <{}>", p.name));
                        }
                    }
                    o.model_items.push(props);
                }
            }
            "widget" | "layout" | "action" | "spacer" => o.children.push(FChild {
                item: None,
                obj: decode_obj(c)?,
            }),
            n => return Err(format!("unexpected <{n}> under <{}>", e.name)),
        }
    }
    Ok(o)
}

pub fn decode(bytes: &[u8]) -> Result<Form, String> {
    let root = xml::parse(bytes)?;
    decode_root(&root)
}

pub fn decode_root(root: &Elem) -> Result<Form, String> {
    if root.name != "ui" {
        return Err(format!("root element is <{}>", root.name));
    }
    if root.attr("version") != Some("4.0") {
        return Err("ui version is not 4.0".into());
    }
    let classes: Vec<&Elem> = root.elems_named("class").collect();
    if classes.len() != 1 {
        return Err(format!("{} <class> elements", classes.len()));
    }
    let widgets: Vec<&Elem> = root.elems_named("widget").collect();
    if widgets.len() != 1 {
        return Err(format!("{} root <widget> elements", widgets.len()));
    }
    let mut custom_widgets = vec![];
    for cw in root.elems_named("customwidgets") {
        for w in cw.elems() {
            if w.name != "customwidget" {
                return Err(format!("<{}> under <customwidgets>", w.name));
            }
            let get = |n: &str| w.first(n).map(|e| e.text()).unwrap_or_default();
            custom_widgets.push((get("class"), get("extends"), get("header")));
        }
    }
    Ok(Form {
        class: classes[0].text(),
        root: decode_obj(widgets[0])?,
        custom_widgets,
    })
}

impl FObj {
    pub fn prop(&self, name: &str) -> Option<&FProp> {
        self.props.iter().find(|p| p.name == name)
    }
    pub fn attr(&self, name: &str) -> Option<&FProp> {
        self.attrs.iter().find(|p| p.name == name)
    }
    /// depth-first, pre-order walk over all objects
    pub fn walk<'a>(&'a self, f: &mut dyn FnMut(&'a FObj, Option<&'a FObj>)) {
        fn rec<'a>(o: &'a FObj, parent: Option<&'a FObj>, f: &mut dyn FnMut(&'a FObj, Option<&'a FObj>)) {
            f(o, parent);
            for c in &o.children {
                rec(&c.obj, Some(o), f);
            }
        }
        rec(self, None, f)
    }
    pub fn all(&self) -> Vec<&FObj> {
        let mut v = vec![];
        self.walk(&mut |o, _| v.push(o));
        v
    }
    pub fn find(&self, name: &str) -> Option<&FObj> {
        self.all().into_iter().find(|o| o.name == name)
    }
}

/// Parses "1,2,3" into numbers.
pub fn parse_int_array(s: &str) -> Result<Vec<i64>, String> {
    s.split(',')
        .map(|t| {
            if !t.is_empty() && t.trim_start_matches('-').chars().all(|c| c.is_ascii_digit()) {
                t.parse::<i64>().map_err(|e| e.to_string())
            } else {
                Err(format!("not a decimal integer: {t:?}"))
            }
        })
        .collect()
}
