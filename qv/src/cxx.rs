//! C++ execution engine (DESIGN.md section 2.7): API-model emitter from the metatypes, mini-uic,
//! value literals, batch compilation and execution with g++.

use crate::common::{scratch_dir, VERIF_DIR};
use crate::form::{FKind, FObj, Form};
use crate::lang::V;
use crate::meta::{meta, Meta};
use qmluic::metatype::{AccessSpecifier, Class, Method};
use std::collections::{BTreeMap, BTreeSet};
use std::path::{Path, PathBuf};

// ---------------------------------------------------------------------------------------------
// API model emitter

struct Emitter<'m> {
    m: &'m Meta,
    /// classes that get a full definition
    defined: Vec<String>,
    /// value types without a model: opaque comparable structs
    opaque: BTreeSet<String>,
    /// classes only used through pointers
    forward: BTreeSet<String>,
    need_qt: bool,
}

/// (C++ declaration type, pass by const reference?)
type CxxTy = (String, bool);

fn is_ident(s: &str) -> bool {
    !s.is_empty() && s.chars().all(|c| c.is_ascii_alphanumeric() || c == '_') && !s.starts_with(|c: char| c.is_ascii_digit())
}

impl<'m> Emitter<'m> {
    fn ty(&mut self, scope: &str, raw: &str) -> Option<CxxTy> {
        let t = raw.trim();
        match t {
            "int" | "bool" | "double" | "qreal" | "uint" => return Some((t.to_owned(), false)),
            "void" => return Some(("void".into(), false)),
            "QString" | "QStringList" | "QVariant" => return Some((t.to_owned(), true)),
            "QList<int>" | "QList<QString>" | "QList<double>" | "QList<bool>" => return Some((t.to_owned(), true)),
            _ => {}
        }
        if let Some(inner) = t.strip_suffix('*') {
            let inner = inner.trim();
            if is_ident(inner) && self.m.class(inner).is_some() {
                if !self.defined.iter().any(|d| d == inner) {
                    self.forward.insert(inner.to_owned());
                }
                return Some((format!("{inner} *"), false));
            }
            return None;
        }
        // enums: unqualified in the class scope, or Class::Enum
        let (cls, en) = match t.rsplit_once("::") {
            Some((c, e)) => (c.to_owned(), e.to_owned()),
            None => (scope.to_owned(), t.to_owned()),
        };
        if is_ident(&cls) && is_ident(&en) {
            if let Some((owner, _)) = self.m.find_enum(&cls, &en) {
                let o = owner.qualified_class_name.clone();
                if o == "Qt" {
                    self.need_qt = true;
                    return Some((format!("Qt::{en}"), false));
                }
                // the owner must be fully defined before it can be named here
                let pos_owner = self.defined.iter().position(|d| *d == o);
                let pos_scope = self.defined.iter().position(|d| d == scope);
                if let (Some(a), Some(b)) = (pos_owner, pos_scope) {
                    if a <= b {
                        return Some((format!("{o}::{en}"), false));
                    }
                }
                return None;
            }
        }
        // value class: modelled from the type information when it is there, else opaque
        if is_ident(t) && self.m.class(t).map(|c| !c.object).unwrap_or(t.starts_with('Q') && !t.contains('<')) {
            let pos_t = self.defined.iter().position(|d| d == t);
            let pos_scope = self.defined.iter().position(|d| d == scope);
            match (pos_t, pos_scope) {
                (Some(a), Some(b)) if a < b => {}
                (Some(_), _) if t == scope => {}
                (Some(_), _) => return None,
                _ => {
                    self.opaque.insert(t.to_owned());
                }
            }
            return Some((t.to_owned(), true));
        }
        None
    }
}

fn order_classes(m: &Meta, wanted: &BTreeSet<String>) -> Vec<String> {
    // closure over public bases, bases first; a class whose enums are named by another one
    // (VDst.te : VSrc::Mode) comes before its user
    fn enum_owners(m: &Meta, cls: &Class) -> Vec<String> {
        let mut tys: Vec<&str> = cls.properties.iter().map(|p| p.r#type.as_str()).collect();
        for ms in [&cls.signals, &cls.slots, &cls.methods] {
            for me in ms.iter() {
                tys.push(me.return_type.as_str());
                tys.extend(me.arguments.iter().map(|a| a.r#type.as_str()));
            }
        }
        let mut out = vec![];
        for t in tys {
            if let Some((c, _)) = t.rsplit_once("::") {
                if c != "Qt" && c != cls.qualified_class_name && m.class(c).is_some() && !out.iter().any(|x| x == c) {
                    out.push(c.to_owned());
                }
            }
        }
        out
    }
    let mut out: Vec<String> = vec![];
    /// value (non-QObject) classes used by value in properties and signatures come first
    fn value_classes(m: &Meta, cls: &Class) -> Vec<String> {
        let mut tys: Vec<&str> = cls.properties.iter().map(|p| p.r#type.as_str()).collect();
        for ms in [&cls.signals, &cls.slots, &cls.methods] {
            for me in ms.iter() {
                tys.push(me.return_type.as_str());
                tys.extend(me.arguments.iter().map(|a| a.r#type.as_str()));
            }
        }
        let mut out = vec![];
        for t in tys {
            let t = t.trim();
            if is_ident(t) && t != cls.qualified_class_name && m.class(t).map(|c| !c.object).unwrap_or(false) && !out.iter().any(|x| x == t) {
                out.push(t.to_owned());
            }
        }
        out
    }
    fn visit(m: &Meta, c: &str, out: &mut Vec<String>, stack: &mut Vec<String>) {
        if out.iter().any(|x| x == c) || stack.iter().any(|x| x == c) {
            return;
        }
        let Some(cls) = m.class(c) else { return };
        stack.push(c.to_owned());
        for s in &cls.super_classes {
            if s.access == AccessSpecifier::Public {
                visit(m, &s.name, out, stack);
            }
        }
        for o in enum_owners(m, cls) {
            visit(m, &o, out, stack);
        }
        for v in value_classes(m, cls) {
            visit(m, &v, out, stack);
        }
        stack.pop();
        out.push(c.to_owned());
    }
    for c in wanted {
        visit(m, c, &mut out, &mut vec![]);
    }
    out
}

fn cap(s: &str) -> String {
    let mut c = s.chars();
    match c.next() {
        Some(f) => format!("{}{}", f.to_ascii_uppercase(), c.as_str()),
        None => String::new(),
    }
}

/// groups methods by name; a default-argument chain (each shorter variant is a prefix of the
/// longest) collapses into the longest variant with `defaults` trailing default arguments
fn group_methods(ms: &[Method]) -> Vec<(Method, usize)> {
    let mut by_name: BTreeMap<String, Vec<&Method>> = BTreeMap::new();
    for m in ms.iter().filter(|m| m.access == AccessSpecifier::Public) {
        by_name.entry(m.name.clone()).or_default().push(m);
    }
    let mut out = vec![];
    for (_, mut v) in by_name {
        v.sort_by_key(|m| m.arguments.len());
        let longest = *v.last().unwrap();
        let chain = v.iter().all(|m| m.return_type == longest.return_type && m.arguments.iter().zip(&longest.arguments).all(|(a, b)| a.r#type == b.r#type))
            && v.windows(2).all(|w| w[0].arguments.len() < w[1].arguments.len());
        if chain && v.len() > 1 {
            out.push((longest.clone(), longest.arguments.len() - v[0].arguments.len()));
        } else {
            // true overloads (duplicates by signature removed)
            let mut seen = BTreeSet::new();
            for m in v {
                let sig: Vec<String> = m.arguments.iter().map(|a| a.r#type.clone()).collect();
                if seen.insert(sig) {
                    out.push((m.clone(), 0));
                }
            }
        }
    }
    out
}

/// Emits the API model for the given classes (with their public bases).
pub fn emit_api(wanted: &BTreeSet<String>) -> String {
    let m = meta();
    let mut wanted = wanted.clone();
    wanted.insert("QObject".to_owned());
    let order = order_classes(m, &wanted);
    let mut e = Emitter { m, defined: order.clone(), opaque: BTreeSet::new(), forward: BTreeSet::new(), need_qt: false };
    let mut body = String::new();
    for cname in &order {
        if cname == "QObject" {
            continue; // hand-written in qvmock.h
        }
        let cls: &Class = m.class(cname).unwrap();
        let bases: Vec<String> = cls.super_classes.iter().filter(|s| s.access == AccessSpecifier::Public && order.contains(&s.name)).map(|s| format!("public {}", s.name)).collect();
        // QPaintDevice and other non-QObject bases are plain structs without members
        let is_qobject = m.derives(cname, "QObject");
        let mut c = String::new();
        let kw = if is_qobject { "class" } else { "struct" };
        if bases.is_empty() {
            c.push_str(&format!("{kw} {cname}\n{{\npublic:\n"));
        } else {
            c.push_str(&format!("{kw} {cname} : {}\n{{\npublic:\n", bases.join(", ")));
        }
        let mut flags_decls = vec![];
        for en in &cls.enums {
            if en.is_class {
                c.push_str(&format!("    enum class {} {{ {} }};\n", en.name, en.values.join(", ")));
            } else if en.is_flag {
                let base = en.alias.clone().unwrap_or_else(|| format!("{}Flag", en.name));
                let vals: Vec<String> = en.values.iter().enumerate().map(|(i, v)| format!("{v} = {}", 1u64 << (i % 30))).collect();
                // the base enum may also be listed on its own
                if !cls.enums.iter().any(|x| x.name == base) {
                    c.push_str(&format!("    enum {base} {{ {} }};\n", vals.join(", ")));
                }
                c.push_str(&format!("    typedef QFlags<{base}> {};\n", en.name));
                flags_decls.push(format!("Q_DECLARE_OPERATORS_FOR_FLAGS({cname}::{})\n", en.name));
            } else {
                c.push_str(&format!("    enum {} {{ {} }};\n", en.name, en.values.join(", ")));
            }
        }
        if !is_qobject {
            // value class (gadget or hand-described pseudo class): accessors as the type information names them
            let mut fields = vec![];
            for p in &cls.properties {
                if p.read.is_none() && p.write.is_none() {
                    continue;
                }
                let Some((t, by_ref)) = e.ty(cname, &p.r#type) else { continue };
                let field = format!("{}_", p.name);
                if let Some(r) = &p.read {
                    c.push_str(&format!("    {t} {r}() const {{ return {field}; }}\n"));
                }
                if let Some(w) = &p.write {
                    let argt = if by_ref { format!("const {t} &") } else { t.clone() };
                    c.push_str(&format!("    void {w}({argt} v) {{ {field} = v; }}\n"));
                }
                let init = if t.ends_with('*') { " = nullptr".to_owned() } else { "{}".to_owned() };
                fields.push((t, field, init));
            }
            let cmp = if fields.is_empty() { "true".to_owned() } else { fields.iter().map(|(_, f, _)| format!("a.{f} == b.{f}")).collect::<Vec<_>>().join(" && ") };
            c.push_str(&format!("    friend bool operator==(const {cname} &a, const {cname} &b) {{ return {cmp}; }}\n    friend bool operator!=(const {cname} &a, const {cname} &b) {{ return !(a == b); }}\n"));
            for (t, f, init) in &fields {
                c.push_str(&format!("    {t} {f}{init};\n"));
            }
            c.push_str("};\n");
            for f in &flags_decls {
                c.push_str(f);
            }
            body.push_str(&c);
            body.push('\n');
            continue;
        }
        // signals
        let mut members = String::new();
        for (sig, defaults) in group_methods(&cls.signals) {
            let mut params = vec![];
            let mut tys = vec![];
            let mut ok = true;
            let n = sig.arguments.len();
            for (i, a) in sig.arguments.iter().enumerate() {
                match e.ty(cname, &a.r#type) {
                    Some((t, by_ref)) => {
                        let full = if by_ref { format!("const {t} &") } else { t.clone() };
                        let def = if i >= n - defaults { format!(" = {}()", t.trim_end_matches(" *").to_owned() + if t.ends_with('*') { "*" } else { "" }) } else { String::new() };
                        let def = if def.contains('*') { " = nullptr".to_owned() } else { def };
                        params.push(format!("{full} a{i}{def}"));
                        tys.push(full);
                    }
                    None => ok = false,
                }
            }
            if !ok {
                continue;
            }
            let args: Vec<String> = (0..n).map(|i| format!("a{i}")).collect();
            let comma = if args.is_empty() { "" } else { ", " };
            members.push_str(&format!("    void {}({}) {{ qvEmit(static_cast<void ({cname}::*)({})>(&{cname}::{}){comma}{}); }}\n", sig.name, params.join(", "), tys.join(", "), sig.name, args.join(", ")));
        }
        // slots and invokable methods: record the call
        for (meth, defaults) in group_methods(&[cls.slots.clone(), cls.methods.clone()].concat()) {
            let n_args = meth.arguments.len();
            if cls.properties.iter().any(|p| (p.write.as_deref() == Some(meth.name.as_str()) && n_args == 1) || (p.read.as_deref() == Some(meth.name.as_str()) && n_args == 0)) {
                continue;
            }
            let mut params = vec![];
            let mut ok = true;
            let n = meth.arguments.len();
            for (i, a) in meth.arguments.iter().enumerate() {
                match e.ty(cname, &a.r#type) {
                    Some((t, by_ref)) => {
                        let full = if by_ref { format!("const {t} &") } else { t.clone() };
                        let def = if i >= n - defaults { if t.ends_with('*') { " = nullptr".to_owned() } else { format!(" = {t}()") } } else { String::new() };
                        params.push(format!("{full} a{i}{def}"));
                    }
                    None => ok = false,
                }
            }
            let Some((ret, _)) = e.ty(cname, &meth.return_type) else { continue };
            if !ok {
                continue;
            }
            let encs: Vec<String> = (0..n).map(|i| format!("qv::enc(a{i})")).collect();
            let ret_stmt = if ret == "void" {
                String::new()
            } else if meth.name == "twice" {
                " return a0 * 2;".to_owned()
            } else {
                format!(" return {ret}();").replace(" *()", "(nullptr)")
            };
            let ret_stmt = if ret.ends_with('*') { " return nullptr;".to_owned() } else { ret_stmt };
            members.push_str(&format!("    {ret} {}({}) {{ qv::trace_call(this, \"{}\", {{{}}});{ret_stmt} }}\n", meth.name, params.join(", "), meth.name, encs.join(", ")));
        }
        // properties
        let mut fields = String::new();
        for p in &cls.properties {
            let Some((t, by_ref)) = e.ty(cname, &p.r#type) else { continue };
            if t == "void" {
                continue;
            }
            let field = format!("{}_", p.name);
            let init = if t.ends_with('*') { " = nullptr".to_owned() } else { "{}".to_owned() };
            fields.push_str(&format!("    {t} {field}{init};\n"));
            if let Some(r) = &p.read {
                members.push_str(&format!("    {t} {r}() const {{ return {field}; }}\n"));
            }
            // a notifying property without setter changes from inside the object: the model offers
            // qvSet<Name> for the driver (not part of the API the generated code may use)
            let model_setter = (p.write.is_none() && p.notify.is_some()).then(|| format!("qvSet{}", cap(&p.name)));
            if let Some(w) = p.write.as_ref().or(model_setter.as_ref()) {
                let argt = if by_ref { format!("const {t} &") } else { t.clone() };
                // notification: the signal(s) named by NOTIFY, with the value when they carry it
                let mut notify = String::new();
                if let Some(nm) = &p.notify {
                    for (owner, sig) in m.signals(cname, nm).into_iter().map(|(o, s)| (o.qualified_class_name.clone(), s.clone())).collect::<Vec<_>>() {
                        let _ = owner;
                        // collapse default-argument chains the same way as the declarations
                        let longest = m.signals(cname, nm).iter().map(|(_, s)| s.arguments.len()).max().unwrap_or(0);
                        let chain = group_methods(&m.signals(cname, nm).iter().map(|(_, s)| (*s).clone()).collect::<Vec<_>>()).len() == 1;
                        if chain && sig.arguments.len() != longest {
                            continue;
                        }
                        match sig.arguments.len() {
                            0 => notify.push_str(&format!(" {nm}();")),
                            1 if sig.arguments[0].r#type.trim() == p.r#type.trim() => notify.push_str(&format!(" {nm}({field});")),
                            _ => {}
                        }
                    }
                }
                members.push_str(&format!("    void {w}({argt} v) {{ qv::trace_set(this, \"{}\", qv::enc(v)); if ({field} == v) return; {field} = v;{notify} }}\n", p.name));
            }
        }
        c.push_str(&members);
        c.push_str("private:\n");
        c.push_str(&fields);
        c.push_str("};\n");
        for f in flags_decls {
            c.push_str(&f);
        }
        body.push_str(&c);
        body.push('\n');
    }
    // prologue
    let mut out = String::from("// API model generated by the qv harness from the type information (metatypes)\n#pragma once\n#include \"qvmock.h\"\n#include \"qvtrace.h\"\n\n");
    if e.need_qt {
        out.push_str(&emit_qt_namespace(m));
    }
    for o in &e.opaque {
        if !order.contains(o) {
            out.push_str(&format!("struct {o} {{ friend bool operator==(const {o} &, const {o} &) {{ return true; }} friend bool operator!=(const {o} &, const {o} &) {{ return false; }} }};\n"));
        }
    }
    for c in order.iter().chain(e.forward.iter()) {
        if c != "QObject" {
            let kw = if m.derives(c, "QObject") { "class" } else { "struct" };
            out.push_str(&format!("{kw} {c};\n"));
        }
    }
    out.push('\n');
    out.push_str(&body);
    out
}

fn emit_qt_namespace(m: &Meta) -> String {
    let Some(qt) = m.class("Qt") else { return String::new() };
    let mut s = String::from("struct Qt\n{\n");
    let mut flags = vec![];
    for en in &qt.enums {
        if en.is_flag {
            let base = en.alias.clone().unwrap_or_else(|| format!("{}Flag", en.name));
            let vals: Vec<String> = en.values.iter().enumerate().map(|(i, v)| format!("{v} = {}", 1u64 << (i % 30))).collect();
            if !qt.enums.iter().any(|x| x.name == base) {
                s.push_str(&format!("    enum {base} {{ {} }};\n", vals.join(", ")));
            }
            s.push_str(&format!("    typedef QFlags<{base}> {};\n", en.name));
            flags.push(format!("Q_DECLARE_OPERATORS_FOR_FLAGS(Qt::{})\n", en.name));
        } else if en.is_class {
            s.push_str(&format!("    enum class {} {{ {} }};\n", en.name, en.values.join(", ")));
        } else {
            s.push_str(&format!("    enum {} {{ {} }};\n", en.name, en.values.join(", ")));
        }
    }
    s.push_str("};\n");
    for f in flags {
        s.push_str(&f);
    }
    s.push('\n');
    s
}

pub const QVTRACE_H: &str = r#"// trace and value encoding of the API model
#pragma once
#include "qvmock.h"
#include <string>
#include <vector>
namespace qv {
inline bool &tracing() { static bool t = false; return t; }
inline std::string hex16(const QString &s) {
    static const char *d = "0123456789abcdef";
    std::string r;
    for (char16_t c : s.units()) { r.push_back(d[(c >> 12) & 15]); r.push_back(d[(c >> 8) & 15]); r.push_back(d[(c >> 4) & 15]); r.push_back(d[c & 15]); }
    return r;
}
inline std::string enc(int v) { return "i:" + std::to_string(v); }
inline std::string enc(uint v) { return "i:" + std::to_string(v); }
inline std::string enc(long long v) { return "i:" + std::to_string(v); }
inline std::string enc(bool v) { return v ? "b:1" : "b:0"; }
// the sign of zero is not compared: a setter that stores "only on change" keeps +0 when -0 arrives
inline std::string enc(double v) { char b[64]; std::snprintf(b, sizeof b, "%a", v == 0 ? 0.0 : v); return std::string("d:") + b; }
inline std::string enc(const QString &v) { return "s:" + hex16(v); }
inline std::string enc(const char *v) { return "s:" + hex16(QString::fromUtf8(v)); }
inline std::string enc(const QObject *p) { return p ? "p:" + p->qvName() : std::string("p:null"); }
template <typename E> typename std::enable_if<std::is_enum<E>::value, std::string>::type enc(E v) { return "e:" + std::to_string(int(v)); }
template <typename E> std::string enc(QFlags<E> v) { return "e:" + std::to_string(int(v)); }
template <typename T> std::string enc(const QList<T> &l) { std::string r = "l:["; bool first = true; for (const T &x : l) { if (!first) r += ","; first = false; r += enc(x); } return r + "]"; }
inline std::string enc(const QVariant &v) {
    switch (v.kind()) {
    case QVariant::Int: case QVariant::UInt: return "v:i:" + std::to_string(v.rawInt());
    case QVariant::Bool: return std::string("v:b:") + (v.rawInt() ? "1" : "0");
    case QVariant::Double: return "v:" + enc(v.rawDouble());
    case QVariant::String: return "v:" + enc(v.rawString());
    default: return "v:invalid";
    }
}
template <typename T> typename std::enable_if<std::is_class<T>::value && !std::is_base_of<QObject, T>::value, std::string>::type enc(const T &) { return "o"; }
inline void trace_call(const QObject *o, const char *name, std::vector<std::string> args) {
    if (!tracing()) return;
    std::fprintf(out(), "> call %s %s", o->qvName().c_str(), name);
    for (const std::string &a : args) std::fprintf(out(), " %s", a.c_str());
    std::fprintf(out(), "\n");
}
inline void trace_set(const QObject *o, const char *prop, const std::string &v) {
    if (!tracing()) return;
    std::fprintf(out(), "> set %s %s %s\n", o->qvName().c_str(), prop, v.c_str());
}
inline std::string &log_line() { static std::string l; return l; }
inline void trace_log_begin(const char *level) { log_line() = std::string("> log ") + level; }
inline void trace_log_end() { if (tracing()) std::fprintf(out(), "%s\n", log_line().c_str()); }
inline void trace_value(int v) { log_line() += " " + enc(v); }
inline void trace_value(uint v) { log_line() += " " + enc(v); }
inline void trace_value(long long v) { log_line() += " " + enc(v); }
inline void trace_value(double v) { log_line() += " " + enc(v); }
inline void trace_value(bool v) { log_line() += " " + enc(v); }
inline void trace_value(const QString &v) { log_line() += " " + enc(v); }
inline void trace_value(const char *v) { log_line() += " " + enc(v); }
}
"#;

// ---------------------------------------------------------------------------------------------
// mini-uic

fn collect_objs<'a>(o: &'a FObj, out: &mut Vec<&'a FObj>) {
    out.push(o);
    for c in &o.children {
        collect_objs(&c.obj, out);
    }
}

pub fn class_of(o: &FObj) -> String {
    match o.kind {
        FKind::Widget | FKind::Layout => o.class.clone().unwrap_or_else(|| "QWidget".into()),
        FKind::Spacer => "QSpacerItem".into(),
        FKind::Action => "QAction".into(),
    }
}

/// `ui_<name>.h` as uic exposes it: one member per named object except the root.
pub fn mini_uic(form: &Form, type_name: &str, api_header: &str) -> String {
    let mut objs = vec![];
    collect_objs(&form.root, &mut objs);
    let mut s = format!("#pragma once\n#include \"{api_header}\"\n\nnamespace Ui {{\nstruct {type_name}\n{{\n");
    for o in objs.iter().skip(1) {
        s.push_str(&format!("    {} *{} = nullptr;\n", class_of(o), o.name));
    }
    s.push_str("};\n}\n");
    s
}

/// classes a form instantiates (for the API model closure)
pub fn classes_of(form: &Form) -> BTreeSet<String> {
    let mut objs = vec![];
    collect_objs(&form.root, &mut objs);
    objs.iter().map(|o| class_of(o)).collect()
}

// ---------------------------------------------------------------------------------------------
// values

pub fn cxx_string_literal(s: &str) -> String {
    let mut out = String::from("QString(u\"");
    for u in s.encode_utf16() {
        out.push_str(&format!("\\u{u:04x}"));
    }
    // \u escapes of ASCII and surrogates are not allowed in C++: spell those by value
    let mut fixed = String::from("QString(std::u16string{");
    let mut first = true;
    for u in s.encode_utf16() {
        if !first {
            fixed.push(',');
        }
        first = false;
        fixed.push_str(&format!("char16_t({u})"));
    }
    fixed.push_str("})");
    let _ = out;
    fixed
}

/// C++ expression for a model value; `names` maps object indices to C++ variable names
pub fn cxx_value(v: &V, names: &[String]) -> String {
    match v {
        V::Int(x) => {
            if *x == i32::MIN as i64 { "(-2147483647 - 1)".to_owned() } else { x.to_string() }
        }
        V::Uint(x) => format!("{x}u"),
        V::Double(d) => {
            if d.is_finite() { format!("{}", hexfloat(*d)) } else { "0.0".to_owned() }
        }
        V::Bool(b) => b.to_string(),
        V::Str(s) => cxx_string_literal(s),
        V::Mode(i) => format!("VSrc::{}", crate::lang::MODES[*i as usize]),
        V::Opts(b) => format!("VSrc::Opts::fromInt({b})"),
        V::Ptr(None) => "nullptr".to_owned(),
        V::Ptr(Some(i)) => names[*i].clone(),
        V::ListInt(xs) => format!("QList<int>{{{}}}", xs.iter().map(|x| x.to_string()).collect::<Vec<_>>().join(", ")),
        V::ListStr(xs) => format!("QStringList{{{}}}", xs.iter().map(|x| cxx_string_literal(x)).collect::<Vec<_>>().join(", ")),
        V::Variant(inner) => format!("QVariant({})", cxx_value(inner, names)),
        V::Void => "void()".to_owned(),
    }
}

pub fn hexfloat(d: f64) -> String {
    if d == 0.0 {
        return if d.is_sign_negative() { "-0.0".into() } else { "0.0".into() };
    }
    let bits = d.to_bits();
    let sign = if bits >> 63 == 1 { "-" } else { "" };
    let exp = ((bits >> 52) & 0x7ff) as i64;
    let frac = bits & ((1u64 << 52) - 1);
    if exp == 0 {
        format!("{sign}0x0.{frac:013x}p-1022")
    } else {
        format!("{sign}0x1.{frac:013x}p{}", exp - 1023)
    }
}

/// the encoding the mock prints for a model value (must match qvtrace.h)
pub fn enc_value(v: &V, names: &[String]) -> String {
    match v {
        V::Int(x) | V::Uint(x) => format!("i:{x}"),
        V::Bool(b) => format!("b:{}", *b as u8),
        V::Double(d) => format!("d:{}", c_hexfloat(*d)),
        V::Str(s) => format!("s:{}", s.encode_utf16().map(|u| format!("{u:04x}")).collect::<String>()),
        V::Mode(i) | V::Opts(i) => format!("e:{i}"),
        V::Ptr(None) => "p:null".to_owned(),
        V::Ptr(Some(i)) => format!("p:{}", names[*i]),
        V::ListInt(xs) => format!("l:[{}]", xs.iter().map(|x| format!("i:{x}")).collect::<Vec<_>>().join(",")),
        V::ListStr(xs) => format!("l:[{}]", xs.iter().map(|x| enc_value(&V::Str(x.clone()), names)).collect::<Vec<_>>().join(",")),
        V::Variant(inner) => format!("v:{}", enc_value(inner, names)),
        V::Void => "void".to_owned(),
    }
}

/// printf("%a") as glibc prints it
pub fn c_hexfloat(d: f64) -> String {
    if d == 0.0 {
        return "0x0p+0".into();
    }
    let bits = d.to_bits();
    let sign = if bits >> 63 == 1 { "-" } else { "" };
    let exp = ((bits >> 52) & 0x7ff) as i64;
    let frac = bits & ((1u64 << 52) - 1);
    let mut hex = format!("{frac:013x}");
    while hex.ends_with('0') {
        hex.pop();
    }
    let (lead, e) = if exp == 0 { (0, -1022) } else { (1, exp - 1023) };
    let dot = if hex.is_empty() { String::new() } else { format!(".{hex}") };
    format!("{sign}0x{lead}{dot}p{}{}", if e >= 0 { "+" } else { "" }, e)
}

// ---------------------------------------------------------------------------------------------
// batches

pub struct Batch {
    pub dir: tempfile::TempDir,
    pub units: Vec<String>,
}

pub fn include_dir() -> PathBuf {
    Path::new(VERIF_DIR).join("data/cxx")
}

pub fn new_batch(tag: &str) -> Batch {
    let dir = scratch_dir(tag);
    std::fs::write(dir.path().join("qvtrace.h"), QVTRACE_H).unwrap();
    Batch { dir, units: vec![] }
}

#[derive(Debug, Clone)]
pub struct CompileResult {
    pub ok: bool,
    pub stderr: String,
}

pub const SANITIZE: &[&str] = &["-fsanitize=bounds,signed-integer-overflow,shift,integer-divide-by-zero,float-cast-overflow", "-fno-sanitize-recover=all"];

/// g++ on one translation unit. `exe` = None means -fsyntax-only.
pub fn compile(dir: &Path, main_cpp: &str, exe: Option<&str>, compiler: &str) -> CompileResult {
    let mut cmd = std::process::Command::new(compiler);
    // fixed locale: the wording and quoting of diagnostics must not depend on the environment
    cmd.env("LC_ALL", "C").env("LANG", "C");
    cmd.current_dir(dir).arg("-std=c++17").arg("-O0").arg("-w").arg("-Werror=return-type").arg("-fmax-errors=20").arg("-I").arg(include_dir()).arg("-I").arg(".");
    match exe {
        None => {
            cmd.arg("-fsyntax-only");
        }
        Some(e) => {
            cmd.args(SANITIZE).arg("-ftrivial-auto-var-init=pattern").arg("-o").arg(e);
        }
    }
    cmd.arg(main_cpp);
    let out = cmd.output().expect("run the C++ compiler");
    CompileResult { ok: out.status.success(), stderr: String::from_utf8_lossy(&out.stderr).into_owned() }
}

#[derive(Debug, Clone)]
pub struct RunResult {
    pub stdout: String,
    pub stderr: String,
    pub status: Option<i32>,
    pub signal: Option<i32>,
    pub timed_out: bool,
}

pub fn run_exe(dir: &Path, exe: &str, args: &[String], timeout_s: u64) -> RunResult {
    use std::io::Read;
    use std::os::unix::process::ExitStatusExt;
    let mut child = std::process::Command::new(dir.join(exe))
        .current_dir(dir)
        .args(args)
        .stdin(std::process::Stdio::null())
        .stdout(std::process::Stdio::piped())
        .stderr(std::process::Stdio::piped())
        .spawn()
        .expect("run the batch executable");
    let mut o = child.stdout.take().unwrap();
    let mut e = child.stderr.take().unwrap();
    let to = std::thread::spawn(move || {
        let mut s = Vec::new();
        let _ = o.read_to_end(&mut s);
        s
    });
    let te = std::thread::spawn(move || {
        let mut s = Vec::new();
        let _ = e.read_to_end(&mut s);
        s
    });
    let t0 = std::time::Instant::now();
    let mut timed_out = false;
    let st = loop {
        match child.try_wait().unwrap() {
            Some(s) => break s,
            None => {
                if t0.elapsed().as_secs() > timeout_s {
                    timed_out = true;
                    let _ = child.kill();
                    break child.wait().unwrap();
                }
                std::thread::sleep(std::time::Duration::from_millis(2));
            }
        }
    };
    RunResult { stdout: String::from_utf8_lossy(&to.join().unwrap()).into_owned(), stderr: String::from_utf8_lossy(&te.join().unwrap()).into_owned(), status: st.code(), signal: st.signal(), timed_out }
}

// ---------------------------------------------------------------------------------------------
// driver: one function per document with the script baked in

#[derive(Clone, Debug, serde::Serialize, serde::Deserialize)]
pub struct Step {
    /// human-readable description (evidence, replay files)
    pub desc: String,
    /// C++ statements performing the step
    pub cxx: String,
    /// trace setter/method/log calls while the step runs
    pub tracing: bool,
    /// expected `= obj prop value` lines after the step: (object, property, encoded value)
    pub expect: Vec<(String, String, String)>,
    /// expected trace lines (`set obj prop v` / `call obj m args…` / `log level args…`), when tracing
    pub expect_trace: Vec<String>,
}

#[derive(Clone, Debug, serde::Serialize, serde::Deserialize)]
pub struct ObjSpec {
    pub id: String,
    pub class: String,
}

#[derive(Clone, Debug)]
pub struct DocUnit {
    /// type name of the document (`D3` -> ui_d3.h, uisupport_d3.h, UiSupport::D3)
    pub name: String,
    pub header: Vec<u8>,
    pub form: Form,
    /// statements run before `setup()` (initial state), tracing off
    pub init: Vec<String>,
    /// steps; the first one normally is `support.setup();`
    pub steps: Vec<Step>,
}

pub fn setter_of(class: &str, prop: &str) -> Option<String> {
    let p = meta().prop(class, prop)?;
    p.write.clone().or_else(|| p.notify.is_some().then(|| format!("qvSet{}", cap(prop))))
}
pub fn getter_of(class: &str, prop: &str) -> Option<String> {
    meta().prop(class, prop).and_then(|p| p.read.clone())
}

pub fn emit_driver(u: &DocUnit) -> String {
    let mut objs = vec![];
    collect_objs(&u.form.root, &mut objs);
    let n = &u.name;
    let mut s = format!("static void run_{n}()\n{{\n");
    let root = objs[0];
    s.push_str(&format!("    {} *root = new {}; root->qvSetName(\"{}\");\n", class_of(root), class_of(root), root.name));
    s.push_str(&format!("    Ui::{n} ui;\n"));
    for o in objs.iter().skip(1) {
        let c = class_of(o);
        s.push_str(&format!("    {c} *{id} = new {c}; {id}->qvSetName(\"{id}\"); ui.{id} = {id};\n", id = o.name));
    }
    s.push_str("    qv::tracing() = false;\n");
    for l in &u.init {
        s.push_str(&format!("    {l}\n"));
    }
    s.push_str(&format!("    UiSupport::{n} support(root, &ui);\n"));
    for (k, st) in u.steps.iter().enumerate() {
        s.push_str(&format!("    std::printf(\"# {n} {k}\\n\"); std::fflush(stdout);\n"));
        s.push_str(&format!("    qv::tracing() = {};\n", st.tracing));
        s.push_str(&format!("    {{ {} }}\n", st.cxx));
        s.push_str("    qv::tracing() = false;\n");
        for (o, p, _) in &st.expect {
            let cls = objs.iter().find(|x| x.name == *o).map(|x| class_of(x)).unwrap_or_default();
            let var = if *o == root.name { "root".to_owned() } else { o.clone() };
            // `gadget.member` reads the member of the gadget-valued property
            let access = match p.split_once('.') {
                Some((g, mbr)) => {
                    let g1 = getter_of(&cls, g).unwrap_or_else(|| g.to_owned());
                    let gcls = meta().prop(&cls, g).map(|pi| pi.raw_type.trim().to_owned()).unwrap_or_default();
                    let g2 = getter_of(&gcls, mbr).unwrap_or_else(|| mbr.to_owned());
                    format!("{var}->{g1}().{g2}()")
                }
                None => format!("{var}->{}()", getter_of(&cls, p).unwrap_or_else(|| p.clone())),
            };
            s.push_str(&format!("    std::printf(\"= {o} {p} %s\\n\", qv::enc({access}).c_str());\n"));
        }
    }
    s.push_str(&format!("    std::printf(\"# {n} end\\n\"); std::fflush(stdout);\n"));
    s.push_str("}\n\n");
    s
}

pub fn emit_main(units: &[&DocUnit]) -> String {
    let mut s = String::from("#include \"qvapi.h\"\n");
    for u in units {
        s.push_str(&format!("#include \"uisupport_{}.h\"\n", u.name.to_lowercase()));
    }
    s.push('\n');
    for u in units {
        s.push_str(&emit_driver(u));
    }
    s.push_str("int main(int argc, char **argv)\n{\n    for (int i = 1; i < argc; ++i) {\n        std::string a = argv[i];\n");
    for u in units {
        s.push_str(&format!("        if (a == \"{n}\") run_{n}();\n", n = u.name));
    }
    s.push_str("    }\n    return 0;\n}\n");
    s
}

#[derive(Clone, Debug, Default)]
pub struct StepOut {
    pub dump: Vec<(String, String, String)>,
    pub trace: Vec<String>,
}

#[derive(Clone, Debug)]
pub enum UnitOutcome {
    /// the unit did not compile: compiler output (first errors)
    CompileError(String),
    /// steps that ran to completion, and how the run ended if not normally
    Ran { steps: Vec<StepOut>, died: Option<String> },
    /// never reached (should not happen)
    NotRun,
}

fn write_unit_files(dir: &Path, u: &DocUnit) {
    let lower = u.name.to_lowercase();
    std::fs::write(dir.join(format!("ui_{lower}.h")), mini_uic(&u.form, &u.name, "qvapi.h")).unwrap();
    std::fs::write(dir.join(format!("uisupport_{lower}.h")), &u.header).unwrap();
}

fn first_errors(stderr: &str) -> String {
    let mut out = String::new();
    let mut n = 0;
    for l in stderr.lines() {
        if l.contains("error") || n > 0 {
            out.push_str(l);
            out.push('\n');
            n += 1;
            if n > 12 {
                break;
            }
        }
    }
    if out.is_empty() { stderr.chars().take(1500).collect() } else { out }
}

fn parse_run(units: &[&DocUnit], stdout: &str) -> BTreeMap<String, (Vec<StepOut>, bool)> {
    // doc -> (steps, reached end)
    let mut out: BTreeMap<String, (Vec<StepOut>, bool)> = BTreeMap::new();
    let mut cur: Option<String> = None;
    for l in stdout.lines() {
        if let Some(rest) = l.strip_prefix("# ") {
            let mut it = rest.split(' ');
            let d = it.next().unwrap_or("").to_owned();
            let k = it.next().unwrap_or("");
            let e = out.entry(d.clone()).or_default();
            if k == "end" {
                e.1 = true;
                cur = None;
            } else {
                e.0.push(StepOut::default());
                cur = Some(d);
            }
        } else if let Some(d) = &cur {
            let e = out.get_mut(d).unwrap();
            let st = e.0.last_mut().unwrap();
            if let Some(rest) = l.strip_prefix("= ") {
                let mut it = rest.splitn(3, ' ');
                st.dump.push((it.next().unwrap_or("").into(), it.next().unwrap_or("").into(), it.next().unwrap_or("").into()));
            } else if let Some(rest) = l.strip_prefix("> ") {
                st.trace.push(rest.to_owned());
            } else if l.starts_with("! ") {
                st.trace.push(l.to_owned());
            }
        }
    }
    let _ = units;
    out
}

/// Compiles and runs a group of documents as one translation unit; on a compile error the
/// documents are compiled one by one to find the culprits and the rest is rebuilt.
pub fn run_group(api: &str, units: &[&DocUnit], tag: &str) -> Vec<UnitOutcome> {
    let mut outcomes: Vec<UnitOutcome> = units.iter().map(|_| UnitOutcome::NotRun).collect();
    let b = new_batch(tag);
    let dir = b.dir.path();
    std::fs::write(dir.join("qvapi.h"), api).unwrap();
    for u in units {
        write_unit_files(dir, u);
    }
    let mut live: Vec<usize> = (0..units.len()).collect();
    std::fs::write(dir.join("main.cpp"), emit_main(units)).unwrap();
    let r = compile(dir, "main.cpp", Some("batch"), "g++");
    if !r.ok {
        // attribute: compile each document on its own (syntax only is enough to find errors)
        live.clear();
        for (i, u) in units.iter().enumerate() {
            let f = format!("one_{i}.cpp");
            std::fs::write(dir.join(&f), emit_main(&[u])).unwrap();
            let r1 = compile(dir, &f, None, "g++");
            if r1.ok {
                live.push(i);
            } else {
                outcomes[i] = UnitOutcome::CompileError(first_errors(&r1.stderr));
            }
        }
        if live.len() == units.len() {
            // every document compiles alone but not together: a harness problem, report loudly
            for i in 0..units.len() {
                outcomes[i] = UnitOutcome::CompileError(format!("[together only] {}", first_errors(&r.stderr)));
            }
            return outcomes;
        }
        if live.is_empty() {
            return outcomes;
        }
        let sel: Vec<&DocUnit> = live.iter().map(|i| units[*i]).collect();
        std::fs::write(dir.join("main.cpp"), emit_main(&sel)).unwrap();
        let r2 = compile(dir, "main.cpp", Some("batch"), "g++");
        if !r2.ok {
            for i in &live {
                outcomes[*i] = UnitOutcome::CompileError(format!("[rebuild] {}", first_errors(&r2.stderr)));
            }
            return outcomes;
        }
    }
    // run; after a death continue with the documents behind the culprit
    let mut pending: Vec<usize> = live.clone();
    while !pending.is_empty() {
        let args: Vec<String> = pending.iter().map(|i| units[*i].name.clone()).collect();
        let rr = run_exe(dir, "batch", &args, 60);
        let sel: Vec<&DocUnit> = pending.iter().map(|i| units[*i]).collect();
        let parsed = parse_run(&sel, &rr.stdout);
        let mut next = vec![];
        let mut culprit_seen = false;
        for i in &pending {
            if culprit_seen {
                next.push(*i);
                continue;
            }
            match parsed.get(&units[*i].name) {
                Some((steps, true)) => outcomes[*i] = UnitOutcome::Ran { steps: steps.clone(), died: None },
                Some((steps, false)) => {
                    let why = if rr.timed_out {
                        "timeout".to_owned()
                    } else {
                        format!("exit={:?} signal={:?} stderr={}", rr.status, rr.signal, rr.stderr.chars().take(600).collect::<String>())
                    };
                    outcomes[*i] = UnitOutcome::Ran { steps: steps.clone(), died: Some(why) };
                    culprit_seen = true;
                }
                None => {
                    // not started although nothing died before it: treat as died at start
                    outcomes[*i] = UnitOutcome::Ran { steps: vec![], died: Some(format!("not started; exit={:?} stderr={}", rr.status, rr.stderr.chars().take(300).collect::<String>())) };
                    culprit_seen = true;
                }
            }
        }
        pending = next;
    }
    outcomes
}

/// Compares what ran with what the reference semantics expects. None = agreement.
pub fn compare(u: &DocUnit, out: &UnitOutcome) -> Option<(String, String)> {
    match out {
        UnitOutcome::NotRun => Some(("not-run".into(), "the document was not run".into())),
        UnitOutcome::CompileError(e) => Some(("compile-error".into(), e.clone())),
        UnitOutcome::Ran { steps, died } => {
            for (k, st) in u.steps.iter().enumerate() {
                let Some(got) = steps.get(k) else {
                    return Some(("died".into(), format!("run ended before step {k} ({}): {}", st.desc, died.clone().unwrap_or_default())));
                };
                if let Some(bang) = got.trace.iter().find(|l| l.starts_with("! ")) {
                    return Some(("abort".into(), format!("step {k} ({}): {bang}", st.desc)));
                }
                if k + 1 == steps.len() && died.is_some() && got.dump.len() < st.expect.len() {
                    return Some(("died".into(), format!("died in step {k} ({}): {}", st.desc, died.clone().unwrap_or_default())));
                }
                if st.tracing && got.trace != st.expect_trace {
                    return Some(("trace-differs".into(), format!("step {k} ({}): expected trace {:?}, got {:?}", st.desc, st.expect_trace, got.trace)));
                }
                for (e, g) in st.expect.iter().zip(&got.dump) {
                    if e != g {
                        return Some(("value-differs".into(), format!("step {k} ({}): {}.{} expected {} got {}", st.desc, e.0, e.1, e.2, g.2)));
                    }
                }
                if st.expect.len() != got.dump.len() {
                    return Some(("died".into(), format!("step {k}: {} values expected, {} printed", st.expect.len(), got.dump.len())));
                }
            }
            None
        }
    }
}
