//! Single type-breaking edits of well-typed programs (DESIGN.md appendix B). Every edit is
//! ill-typed *by construction* under a rule the C05 statement names: the replaced position
//! demands a type the replacement certainly does not have.

use crate::common::Chooser;
use crate::lang::*;

/// static type of a well-typed generated expression
pub fn type_of(e: &E, locals: &[LocalInfo], objs: &[ObjDecl]) -> T {
    match e {
        E::Int(..) => T::Int,
        E::UInt(..) => T::Uint,
        E::Float(..) => T::Double,
        E::Str(..) | E::Tr(..) | E::Arg(..) => T::Str,
        E::Bool(_) | E::IsEmpty(_) => T::Bool,
        E::Null => T::Ptr("VSrc"),
        E::EmptyList(t) => t.clone(),
        E::EnumLit(_, t) | E::Prop(_, _, t) | E::ThisProp(_, t) | E::Cast(_, t) | E::Raw(_, t) | E::CallMethod(_, _, _, t) => t.clone(),
        E::Obj(i) => T::Ptr(objs[*i].class),
        E::This => T::Ptr("QWidget"),
        E::Local(i) => locals[*i].ty.clone(),
        E::Un(UnOp::Not, _) => T::Bool,
        E::Un(_, a) | E::Paren(a) => type_of(a, locals, objs),
        E::Bin(op, l, r) => match op {
            BinOp::And | BinOp::Or | BinOp::Eq | BinOp::Ne | BinOp::StrictEq | BinOp::StrictNe | BinOp::Lt | BinOp::Le | BinOp::Gt | BinOp::Ge => T::Bool,
            _ => {
                let lt = type_of(l, locals, objs);
                // an integer literal adapts to the other operand
                if lt == T::Int && matches!(strip(l), E::Int(..)) { type_of(r, locals, objs) } else { lt }
            }
        },
        E::Ternary(_, a, b) => {
            if matches!(strip(a), E::Null) { type_of(b, locals, objs) } else { type_of(a, locals, objs) }
        }
        E::Max(a, _) | E::Min(a, _) => type_of(a, locals, objs),
        E::Subscript(l, _) => match type_of(l, locals, objs) {
            T::ListStr => T::Str,
            _ => T::Int,
        },
        E::Array(xs) => match xs.first().map(|x| type_of(x, locals, objs)) {
            Some(T::Str) => T::ListStr,
            _ => T::ListInt,
        },
        E::AssignProp(..) | E::AssignLocal(..) | E::AssignSubscript(..) | E::ConsoleLog(..) => T::Void,
    }
}

fn strip(e: &E) -> &E {
    match e {
        E::Paren(a) => strip(a),
        x => x,
    }
}

/// type of the sibling operand; `adaptable` when it is a literal pseudo-type (integer constant,
/// null, []) that takes the type of the other side
#[derive(Clone, Debug, PartialEq)]
pub struct Sib {
    pub ty: T,
    pub adaptable: bool,
}

/// where an expression node sits, with what the position demands
#[derive(Clone, Debug, PartialEq)]
pub enum Ctx {
    /// whole value of a binding of the given type (or value of `return`)
    Value(T),
    /// condition of if / ?: , operand of && || !
    Cond,
    /// operand of + - * / % & ^ | << >> whose sibling has the given type
    Operand(BinOp, Sib),
    /// operand of a comparison whose sibling has the given type
    Compared(Sib),
    /// arm of ?: whose other arm has the given type
    Arm(Sib),
    /// argument of Math.min/max whose sibling has the given type
    MinMax(Sib),
    /// argument of a slot call expecting the given type
    CallArg(T),
    /// element (not the first) of an array literal with the given element type
    Elem(T),
    /// subscript index
    Index,
    /// right-hand side of an assignment to something of the given type
    Assigned(T),
    /// initialiser of a declaration annotated with the given type
    Init(T),
    /// case label of a switch over the given type
    Label(T),
    /// right operand (the count) of << >>
    ShiftCount,
    Other,
}

/// callback: (pre-order index, node, context, depth) -> true when the node was replaced (its
/// children are then not visited)
type Visit<'f> = dyn FnMut(usize, &mut E, &Ctx, usize) -> bool + 'f;

struct Walker<'a, 'f> {
    locals: &'a [LocalInfo],
    objs: &'a [ObjDecl],
    next: usize,
    f: &'a mut Visit<'f>,
}

impl Walker<'_, '_> {
    fn ty(&self, e: &E) -> T {
        type_of(e, self.locals, self.objs)
    }

    fn sib(&self, e: &E) -> Sib {
        let adaptable = crate::langgen::is_const_int(e) || matches!(strip(e), E::Null | E::EmptyList(_));
        Sib { ty: self.ty(e), adaptable }
    }

    fn expr(&mut self, e: &mut E, ctx: Ctx, depth: usize) {
        let i = self.next;
        self.next += 1;
        if (self.f)(i, e, &ctx, depth) {
            return;
        }
        match e {
            E::Un(UnOp::Not, a) => self.expr(a, Ctx::Cond, depth + 1),
            E::Paren(a) => self.expr(a, ctx, depth + 1),
            E::Un(_, a) => self.expr(a, Ctx::Other, depth + 1),
            E::Bin(op, l, r) => {
                let (lt, rt) = (self.sib(l), self.sib(r));
                let (cl, cr) = match op {
                    BinOp::And | BinOp::Or => (Ctx::Cond, Ctx::Cond),
                    BinOp::Eq | BinOp::Ne | BinOp::StrictEq | BinOp::StrictNe | BinOp::Lt | BinOp::Le | BinOp::Gt | BinOp::Ge => (Ctx::Compared(rt), Ctx::Compared(lt)),
                    BinOp::Shl | BinOp::Shr => (Ctx::Operand(*op, rt), Ctx::ShiftCount),
                    _ => (Ctx::Operand(*op, rt), Ctx::Operand(*op, lt)),
                };
                self.expr(l, cl, depth + 1);
                self.expr(r, cr, depth + 1);
            }
            E::Ternary(c, a, b) => {
                let (at, bt) = (self.sib(a), self.sib(b));
                self.expr(c, Ctx::Cond, depth + 1);
                self.expr(a, Ctx::Arm(bt), depth + 1);
                self.expr(b, Ctx::Arm(at), depth + 1);
            }
            E::Cast(a, _) | E::IsEmpty(a) => self.expr(a, Ctx::Other, depth + 1),
            E::Max(a, b) | E::Min(a, b) => {
                let (at, bt) = (self.sib(a), self.sib(b));
                self.expr(a, Ctx::MinMax(bt), depth + 1);
                self.expr(b, Ctx::MinMax(at), depth + 1);
            }
            E::Arg(s, a) => {
                self.expr(s, Ctx::Other, depth + 1);
                self.expr(a, Ctx::Other, depth + 1);
            }
            E::Subscript(l, i) => {
                self.expr(l, Ctx::Other, depth + 1);
                self.expr(i, Ctx::Index, depth + 1);
            }
            E::Array(xs) => {
                let et = xs.first().map(|x| self.ty(x)).unwrap_or(T::Int);
                for (k, x) in xs.iter_mut().enumerate() {
                    self.expr(x, if k == 0 { Ctx::Other } else { Ctx::Elem(et.clone()) }, depth + 1);
                }
            }
            E::Prop(o, ..) => self.expr(o, Ctx::Other, depth + 1),
            E::CallMethod(o, m, args, _) => {
                self.expr(o, Ctx::Other, depth + 1);
                let tys: Vec<T> = match *m {
                    "take" | "twice" => vec![T::Int],
                    "take2" => vec![T::Int, T::Str],
                    "takeS" => vec![T::Str],
                    "takeB" => vec![T::Bool],
                    "takeD" => vec![T::Double],
                    _ => vec![],
                };
                for (k, a) in args.iter_mut().enumerate() {
                    let c = tys.get(k).cloned().map(Ctx::CallArg).unwrap_or(Ctx::Other);
                    self.expr(a, c, depth + 1);
                }
            }
            E::AssignProp(o, p, v) => {
                self.expr(o, Ctx::Other, depth + 1);
                let t = crate::langdoc::DST_PROPS.iter().find(|(n, _)| n == p).map(|(_, t)| t.clone());
                self.expr(v, t.map(Ctx::Assigned).unwrap_or(Ctx::Other), depth + 1);
            }
            E::AssignLocal(i, v) => {
                let t = self.locals[*i].ty.clone();
                self.expr(v, Ctx::Assigned(t), depth + 1)
            }
            E::AssignSubscript(_, idx, v) => {
                self.expr(idx, Ctx::Index, depth + 1);
                self.expr(v, Ctx::Assigned(T::Int), depth + 1);
            }
            E::ConsoleLog(_, args) => {
                for a in args {
                    self.expr(a, Ctx::Other, depth + 1);
                }
            }
            _ => {}
        }
    }

    /// `fall`: the list is a switch body whose end falls through into the next body
    fn stmts(&mut self, ss: &mut [S], value: &T, depth: usize, fall: bool) {
        let n = ss.len();
        for k in 0..n {
            // an expression statement is certainly the value of the body when a `break` follows
            // it directly, or when it ends a list that does not fall through
            let followed_by_break = k + 1 < n && matches!(ss[k + 1], S::Break);
            let is_final = followed_by_break || (k + 1 == n && !fall);
            self.stmt(&mut ss[k], value, depth, is_final, fall);
        }
    }

    fn stmt(&mut self, s: &mut S, value: &T, depth: usize, is_final: bool, fall: bool) {
        match s {
            S::Expr(e) => {
                let t = self.ty(e);
                let c = if is_final && *value != T::Void && t == *value { Ctx::Value(value.clone()) } else { Ctx::Other };
                self.expr(e, c, depth + 1)
            }
            S::Decl(i, _, annotated, Some(e)) => {
                let c = if *annotated { Ctx::Init(self.locals[*i].ty.clone()) } else { Ctx::Other };
                self.expr(e, c, depth + 1)
            }
            S::Block(ss) => self.stmts(ss, value, depth + 1, fall || !is_final),
            S::If(c, a, b) => {
                self.expr(c, Ctx::Cond, depth + 1);
                self.stmt(a, value, depth + 1, is_final, fall);
                if let Some(b) = b {
                    self.stmt(b, value, depth + 1, is_final, fall);
                }
            }
            S::Switch(v, cases, default) => {
                let vt = self.ty(v);
                self.expr(v, Ctx::Other, depth + 1);
                for (l, body) in cases.iter_mut() {
                    self.expr(l, Ctx::Label(vt.clone()), depth + 1);
                    self.stmts(body, value, depth + 1, true);
                }
                if let Some((_, body)) = default {
                    self.stmts(body, value, depth + 1, true);
                }
            }
            S::Return(Some(e)) => {
                let c = if *value != T::Void { Ctx::Value(value.clone()) } else { Ctx::Other };
                self.expr(e, c, depth + 1)
            }
            _ => {}
        }
    }
}

/// Visits every expression node of a program in pre-order.
pub fn visit(p: &mut Program, objs: &[ObjDecl], f: &mut Visit) {
    let locals = p.locals.clone();
    let ty = p.ty.clone();
    let mut w = Walker { locals: &locals, objs, next: 0, f };
    match &mut p.body {
        Body::Expr(e) => {
            let c = if ty != T::Void { Ctx::Value(ty) } else { Ctx::Other };
            w.expr(e, c, 0)
        }
        Body::Block(ss) => w.stmts(ss, &ty, 0, false),
    }
}

/// Applies the edit `kind` at one randomly chosen qualifying site. Returns the depth of the
/// edited node, or None when no site qualifies.
pub fn apply_expr_edit(ch: &mut Chooser, p: &mut Program, objs: &[ObjDecl], kind: &str, constant: bool) -> Option<usize> {
    let locals = p.locals.clone();
    // pass 1: qualifying sites (the replacement is drawn with a throw-away chooser on zeros)
    let mut cands: Vec<usize> = vec![];
    visit(p, objs, &mut |i, node, ctx, _| {
        let t = type_of(node, &locals, objs);
        let zeros: [u32; 0] = [];
        if replacement(&mut Chooser::new(&zeros), kind, node, &t, ctx, constant).is_some() {
            cands.push(i);
        }
        false
    });
    if cands.is_empty() {
        return None;
    }
    let target = *ch.pick(&cands);
    let mut done = None;
    visit(p, objs, &mut |i, node, ctx, depth| {
        if i == target {
            let t = type_of(node, &locals, objs);
            if let Some(r) = replacement(ch, kind, node, &t, ctx, constant) {
                *node = r;
                done = Some(depth);
            }
            return true;
        }
        false
    });
    done
}

fn raw(t: &str, ty: T) -> E {
    E::Raw(t.to_owned(), ty)
}

/// an expression that certainly has type `t` and reads object a0 (dynamic) or is a literal (constant)
fn witness(ch: &mut Chooser, t: &T, constant: bool) -> E {
    match (t, constant) {
        (T::Int, false) => raw(*ch.pick(&["a0.i0", "a0.i1", "(a0.i0 + 1)"]), T::Int),
        (T::Int, true) => raw(*ch.pick(&["7", "(1 + 2)", "0x10"]), T::Int),
        (T::Uint, _) => raw("a0.u0", T::Uint),
        (T::Double, false) => raw(*ch.pick(&["a0.d0", "(a0.d1 * 2.0)"]), T::Double),
        (T::Double, true) => raw(*ch.pick(&["1.5", "(0.5 + 0.25)", "2.0"]), T::Double),
        (T::Bool, false) => raw("a0.b0", T::Bool),
        (T::Bool, true) => raw(*ch.pick(&["true", "(1 == 1)"]), T::Bool),
        (T::Str, false) => raw(*ch.pick(&["a0.s0", "(a0.s0 + \"x\")"]), T::Str),
        (T::Str, true) => raw(*ch.pick(&["\"s\"", "(\"a\" + \"b\")"]), T::Str),
        (T::Mode, _) => raw(if constant { "VSrc.ModeB" } else { "a0.e0" }, T::Mode),
        (T::Opts, _) => raw(if constant { "VSrc.OptA" } else { "a0.f0" }, T::Opts),
        (T::Ptr("QWidget"), _) => raw("a0.w0", T::Ptr("QWidget")),
        (T::Ptr(_), _) => raw("a0", T::Ptr("VSrc")),
        (T::ListInt, _) => raw("a0.il0", T::ListInt),
        (T::ListStr, _) => raw("a0.sl0", T::ListStr),
        (T::Variant, _) => raw("a0.v0", T::Variant),
        (T::Void, _) => raw("(1 as void)", T::Void),
    }
}

fn is_numeric(t: &T) -> bool {
    matches!(t, T::Int | T::Uint | T::Double)
}

/// Edit kinds of appendix B that work by replacing one expression node.
pub const EXPR_EDITS: &[&str] = &[
    "E1-numeric-mix", "E2-string-with-number", "E3-non-bool-condition", "E4-operator-on-unsupported-type", "E5-unsupported-operator", "E7-assign-other-type",
    "E8-call-argument-type", "E11-invalid-cast", "E12-bad-subscript-or-member", "E13-result-type", "E14-no-common-type", "E15-shift-count-type",
];

/// Tries to apply `kind` at `site`; returns the replacement when the site qualifies.
pub fn replacement(ch: &mut Chooser, kind: &str, node: &E, node_ty: &T, ctx: &Ctx, constant: bool) -> Option<E> {
    let w = |ch: &mut Chooser, t: T| witness(ch, &t, constant);
    match kind {
        "E1-numeric-mix" => {
            // int and double (and uint) never mix under one operator
            let (other, adaptable) = match ctx {
                Ctx::Operand(op, s) if !matches!(op, BinOp::Shl | BinOp::Shr) => (&s.ty, s.adaptable),
                Ctx::Compared(s) | Ctx::Arm(s) | Ctx::MinMax(s) => (&s.ty, s.adaptable),
                // the other elements may be integer constants, which adapt to uint
                Ctx::Elem(t) => (t, true),
                _ => return None,
            };
            if !is_numeric(other) || !is_numeric(node_ty) {
                return None;
            }
            let new_t = match other {
                // next to an integer constant a uint is fine (the constant adapts): use double
                T::Int => {
                    if constant || adaptable || ch.chance(2, 3) { T::Double } else { T::Uint }
                }
                T::Double => T::Int,
                _ => T::Double,
            };
            Some(w(ch, new_t))
        }
        // the count of a shift must be an integer (int, uint or an integer literal)
        "E15-shift-count-type" => match ctx {
            Ctx::ShiftCount => {
                let t = ch.pick(&[T::Double, T::Str, T::Bool]).clone();
                Some(w(ch, t))
            }
            _ => None,
        },
        "E2-string-with-number" => match ctx {
            Ctx::Operand(BinOp::Add, Sib { ty: T::Str, .. }) if *node_ty == T::Str => { let t = if ch.chance(1, 2) { T::Int } else { T::Double }; Some(w(ch, t)) },
            Ctx::Operand(BinOp::Add | BinOp::Sub | BinOp::Mul, s) if is_numeric(&s.ty) && is_numeric(node_ty) => Some(w(ch, T::Str)),
            _ => None,
        },
        "E3-non-bool-condition" => match ctx {
            Ctx::Cond => {
                let t = ch.pick(&[T::Int, T::Str, T::Mode, T::Ptr("VSrc"), T::ListInt, T::Double]).clone();
                if constant && !matches!(t, T::Int | T::Str | T::Double) {
                    return Some(w(ch, T::Int));
                }
                Some(w(ch, t))
            }
            _ => None,
        },
        "E4-operator-on-unsupported-type" => match (ctx, node_ty) {
            // arithmetic on bool
            (Ctx::Operand(BinOp::Mul | BinOp::Sub | BinOp::Div | BinOp::Rem, s), _) if is_numeric(&s.ty) && is_numeric(node_ty) => { let op = *ch.pick(&[BinOp::Mul, BinOp::Add, BinOp::Sub, BinOp::Div]); Some(E::Paren(Box::new(E::Bin(op, Box::new(w(ch, T::Bool)), Box::new(w(ch, T::Bool)))))) }
            // unary minus on a string, ~ on a double, shift of a double
            (_, T::Str) if !matches!(ctx, Ctx::Other) => Some(E::Un(UnOp::Minus, Box::new(w(ch, T::Str)))),
            (_, T::Double) if !matches!(ctx, Ctx::Other) => Some(if ch.chance(1, 2) { E::Un(UnOp::BitNot, Box::new(w(ch, T::Double))) } else { E::Paren(Box::new(E::Bin(BinOp::Shl, Box::new(w(ch, T::Double)), Box::new(raw("1", T::Int))))) }),
            // arithmetic on bool where a bool is wanted
            (Ctx::Cond, _) if ch.chance(1, 2) => { let op = *ch.pick(&[BinOp::Add, BinOp::Sub, BinOp::Mul]); Some(E::Paren(Box::new(E::Bin(op, Box::new(w(ch, T::Bool)), Box::new(w(ch, T::Bool)))))) }
            // relational operator on lists
            (Ctx::Cond, _) if !constant => Some(E::Paren(Box::new(E::Bin(BinOp::Le, Box::new(raw("a0.il0", T::ListInt)), Box::new(raw("a0.il0", T::ListInt)))))),
            _ => None,
        },
        "E5-unsupported-operator" => {
            if matches!(ctx, Ctx::Other) {
                return None;
            }
            let inner = w(ch, node_ty.clone());
            let E::Raw(x, _) = &inner else { return None };
            let text = match node_ty {
                T::Int => (*ch.pick(&["{} ** 2", "{} >>> 1", "typeof {}", "void {}", "{} ?? 1", "{} in [1]", "+({}++)", "[{}].length", "new Number({})", "`${}`.length"])).replace("{}", x),
                T::Double => (*ch.pick(&["{} ** 2.0", "{} ?? 1.0", "typeof {}"])).replace("{}", x),
                T::Bool => (*ch.pick(&["{} ?? true", "{} instanceof QObject", "!!(typeof {})", "delete {}"])).replace("{}", x),
                T::Str => (*ch.pick(&["`tpl`", "typeof {}", "{} ?? \"x\"", "{}?.length", "String({})"])).replace("{}", x),
                T::Ptr(_) => (*ch.pick(&["{} ?? null", "{}?.p0"])).replace("{}", x),
                _ => return None,
            };
            let _ = node;
            Some(raw(&format!("({text})"), node_ty.clone()))
        }
        "E7-assign-other-type" => match ctx {
            Ctx::Assigned(t) | Ctx::Init(t) => {
                let new_t = match t {
                    T::Int => T::Double,
                    T::Double => T::Int,
                    T::Str => T::Int,
                    T::Bool => T::Int,
                    T::Uint => T::Double,
                    T::Ptr("VSrc") => T::Ptr("QWidget"), // downcast
                    T::Mode => T::Opts,
                    _ => T::Str,
                };
                Some(w(ch, new_t))
            }
            _ => None,
        },
        "E8-call-argument-type" => match ctx {
            Ctx::CallArg(t) => {
                let new_t = match t {
                    T::Int => T::Double,
                    T::Double => T::Str,
                    T::Str => T::Int,
                    _ => T::Str,
                };
                Some(w(ch, new_t))
            }
            _ => None,
        },
        "E11-invalid-cast" => {
            if matches!(ctx, Ctx::Other) {
                return None;
            }
            let text = match node_ty {
                T::Int => *ch.pick(&["(\"s\" as int)", "(a0 as int)", "(a0.s0 as int)", "(a0.il0 as int)"]),
                T::Str => *ch.pick(&["(1 as QString)", "(a0.i0 as QString)", "(a0.b0 as QString)"]),
                T::Bool => *ch.pick(&["(1 as bool)", "(a0.i0 as bool)", "(a0.s0 as bool)"]),
                T::Double => *ch.pick(&["(\"1.5\" as double)", "(a0.s0 as double)"]),
                T::Ptr("VSrc") => "(a0.w0 as VSrc)", // downcast is not supported
                _ => return None,
            };
            if constant && text.contains("a0") {
                return None;
            }
            Some(raw(text, node_ty.clone()))
        }
        "E12-bad-subscript-or-member" => match (ctx, node_ty) {
            (Ctx::Index, _) => { let t = if ch.chance(1, 2) { T::Double } else { T::Str }; Some(w(ch, t)) },
            (c, T::Int) if !matches!(c, Ctx::Other) && !constant => Some(raw(*ch.pick(&["a0.i0[0]", "a0.nosuch", "a0.i0.foo", "null.i0", "a0.il0.nosuch", "a0.s0[0]"]), T::Int)),
            _ => None,
        },
        "E13-result-type" => match ctx {
            Ctx::Value(t) => {
                let new_t = match t {
                    T::Int => ch.pick(&[T::Str, T::Double, T::Bool]).clone(),
                    T::Uint => T::Double,
                    T::Double => ch.pick(&[T::Int, T::Str]).clone(),
                    T::Str => ch.pick(&[T::Int, T::Bool]).clone(),
                    T::Bool => ch.pick(&[T::Int, T::Str]).clone(),
                    T::Mode => T::Opts,
                    T::Opts => T::Mode,
                    T::Ptr("VSrc") => T::Ptr("QWidget"),
                    T::ListInt => T::ListStr,
                    T::ListStr => T::ListInt,
                    _ => return None,
                };
                // an integer constant is acceptable for a uint target; a read is not needed there
                Some(w(ch, new_t))
            }
            _ => None,
        },
        "E14-no-common-type" => match ctx {
            Ctx::Compared(s) | Ctx::Arm(s) if !s.adaptable => {
                let text = match &s.ty {
                    T::Int => "a0.u0",
                    T::Uint => "a0.i0",
                    T::Mode => *ch.pick(&["1", "Qt.AlignLeft", "a0.f0"]),
                    T::Ptr("VSrc") => *ch.pick(&["t0", "a0.w0"]),
                    T::Str => "a0.sl0",
                    T::Bool => "1",
                    _ => return None,
                };
                if constant && text != "1" {
                    return None;
                }
                Some(raw(text, T::Void))
            }
            _ => None,
        },
        _ => None,
    }
}

/// Statement-level faults inserted into a block body (appendix B: E5, E6, E8, E10, E13).
pub fn statement_fault(ch: &mut Chooser, handler: bool) -> (&'static str, String) {
    let mut opts: Vec<(&'static str, &'static str)> = vec![
        ("E5-unsupported-statement", "for (;;) { }"),
        ("E5-unsupported-statement", "while (false) { }"),
        ("E5-unsupported-statement", "do { } while (false);"),
        ("E5-unsupported-statement", "var v9 = 1;"),
        ("E5-unsupported-statement", "function f9() { }"),
        ("E5-unsupported-statement", "lbl9: { break lbl9; }"),
        ("E5-unsupported-statement", "throw 1;"),
        ("E5-unsupported-statement", "try { } catch (e) { }"),
        ("E5-unsupported-statement", "let z9 = 1; z9 += 1;"),
        ("E5-unsupported-statement", "let z9 = 1; z9++;"),
        ("E6-assign-to-const", "const z9 = 1; z9 = 2;"),
        ("E6-assign-to-const", "const z9: QString = a0.s0; z9 = \"x\";"),
        ("E7-declaration-type", "let z9: int = 1.5;"),
        ("E7-declaration-type", "let z9: QString = 1;"),
        ("E7-declaration-type", "let z9: double = a0.i0;"),
        ("E7-declaration-type", "let z9: VSrc = a0.w0;"),
        ("E7-declaration-type", "let z9: bool = a0.i0;"),
        ("E10-bad-declaration", "let z9;"),
        ("E10-bad-declaration", "const z9: int;"),
        ("E10-bad-declaration", "let z9: nosuchtype = 1;"),
        ("E10-bad-declaration", "let z9 = nosuchname;"),
        ("E10-bad-declaration", "let z9 = null;"),
        ("E10-bad-declaration", "let z9 = [];"),
        ("E8-bad-call", "let z9 = Math.max(a0.i0);"),
        ("E8-bad-call", "let z9 = Math.max(a0.i0, a0.d0);"),
        ("E8-bad-call", "let z9 = qsTr(a0.s0);"),
        ("E8-bad-call", "let z9 = qsTr(\"a\", \"b\");"),
        ("E8-bad-call", "let z9 = a0.i0();"),
        ("E8-bad-call", "let z9 = a0.s0.arg();"),
        ("E8-bad-call", "let z9 = a0.s0.nosuch();"),
        ("E8-bad-call", "let z9 = Math.nosuch(1, 2);"),
        ("E8-bad-call", "let z9 = a0.isEmpty;"),
    ];
    if handler {
        opts.extend([
            ("E6-assign-to-read-only", "a0.ro = 1;"),
            ("E6-assign-to-read-only", "a0.ci = 1;"),
            ("E6-assign-to-rvalue", "t0.tfont.bold = true;"),
            ("E6-assign-to-rvalue", "a0.il0[0] = 1;"),
            ("E6-assign-to-rvalue", "a0.i0 + 1 = 2;"),
            ("E7-assign-other-type", "t0.ti = \"s\";"),
            ("E7-assign-other-type", "t0.ts = 1;"),
            ("E7-assign-other-type", "t0.td = a0.i0;"),
            ("E7-assign-other-type", "t0.tp = a0.w0;"),
            ("E7-assign-other-type", "t0.te = VSrc.OptA;"),
            ("E8-bad-call", "g0.take();"),
            ("E8-bad-call", "g0.take(1, 2);"),
            ("E8-bad-call", "g0.take2(\"s\", 1);"),
            ("E8-bad-call", "g0.take(1.5);"),
            ("E8-bad-call", "g0.takeP(a0.i0);"),
            ("E8-bad-call", "g0.nosuch();"),
            ("E8-bad-call", "g0.doIt;"),
            ("E10-break-outside-switch", "break;"),
        ]);
    }
    let (k, t) = *ch.pick(&opts);
    (k, t.to_owned())
}
