//! Library face of the qv harness (the binary `qv` and the fuzz targets under /verif/fuzz use it).
#![allow(dead_code)]
pub mod checks;
pub mod cfg;
pub mod common;
pub mod cxx;
pub mod cxxrun;
pub mod doc;
pub mod form;
pub mod gen;
pub mod hdr;
pub mod isolate;
pub mod lang;
pub mod langgen;
pub mod langdoc;
pub mod langedit;
pub mod meta;
pub mod qml;
pub mod translate;
pub mod uigrammar;
pub mod vtypes;
pub mod xml;
