//! Shared plumbing: environment, choice sequences, sharded proptest runner, evidence,
//! known findings and replay files.

use proptest::strategy::{Strategy, ValueTree};
use proptest::test_runner::{Config, RngSeed, TestCaseError, TestError, TestRunner};
use rayon::prelude::*;
use serde_json::{json, Value};
use std::collections::{BTreeMap, BTreeSet, HashSet};
use std::hash::{Hash, Hasher};
use std::path::{Path, PathBuf};
use std::sync::atomic::{AtomicBool, Ordering};
use std::sync::Mutex;
use std::time::Instant;

pub const VERIF_DIR: &str = "/verif";
pub const REPO_DIR: &str = "/repo";

#[derive(Clone, Copy, Debug, PartialEq, Eq)]
pub enum Tier {
    Quick,
    Thorough,
}

impl Tier {
    pub fn as_str(self) -> &'static str {
        match self {
            Tier::Quick => "quick",
            Tier::Thorough => "thorough",
        }
    }
    /// picks the quick or thorough number
    pub fn pick<T>(self, quick: T, thorough: T) -> T {
        match self {
            Tier::Quick => quick,
            Tier::Thorough => thorough,
        }
    }
}

#[derive(Clone, Debug)]
pub struct Env {
    pub seed: u64,
    pub tier: Tier,
}

impl Env {
    pub fn from_env(tier_arg: Option<&str>) -> Env {
        let seed = std::env::var("VERIF_SEED")
            .ok()
            .and_then(|s| s.trim().parse::<i64>().ok())
            .map(|v| v as u64)
            .unwrap_or(0);
        let tier_s = tier_arg
            .map(|s| s.to_owned())
            .or_else(|| std::env::var("VERIF_TIER").ok())
            .unwrap_or_else(|| "quick".to_owned());
        let tier = if tier_s.trim() == "thorough" {
            Tier::Thorough
        } else {
            Tier::Quick
        };
        Env { seed, tier }
    }
}

/// FNV-1a, stable across processes (std's DefaultHasher with fixed keys is stable too, but this
/// makes the independence from std explicit).
#[derive(Clone)]
pub struct Fnv(pub u64);
impl Default for Fnv {
    fn default() -> Self {
        Fnv(0xcbf29ce484222325)
    }
}
impl Hasher for Fnv {
    fn finish(&self) -> u64 {
        self.0
    }
    fn write(&mut self, bytes: &[u8]) {
        for b in bytes {
            self.0 ^= *b as u64;
            self.0 = self.0.wrapping_mul(0x100000001b3);
        }
    }
}

pub fn stable_hash<T: Hash + ?Sized>(v: &T) -> u64 {
    let mut h = Fnv::default();
    v.hash(&mut h);
    h.finish()
}

pub fn derive_seed(seed: u64, pid: &str, shard: u64) -> u64 {
    stable_hash(&(seed, pid, shard, "qv-seed-v1"))
}

// ---------------------------------------------------------------------------------------------
// Choice sequences

/// Reads decisions from a choice sequence. Every decision maps the next element monotonically
/// onto the alternatives, the simplest alternative at 0; an exhausted sequence reads 0.
pub struct Chooser<'a> {
    data: &'a [u32],
    pos: usize,
    pub labels: BTreeSet<&'static str>,
    pub want_sample: bool,
}

impl<'a> Chooser<'a> {
    pub fn new(data: &'a [u32]) -> Self {
        Chooser {
            data,
            pos: 0,
            labels: BTreeSet::new(),
            want_sample: false,
        }
    }
    pub fn raw(&mut self) -> u32 {
        let v = self.data.get(self.pos).copied().unwrap_or(0);
        self.pos += 1;
        v
    }
    pub fn exhausted(&self) -> bool {
        self.pos >= self.data.len()
    }
    pub fn consumed(&self) -> usize {
        self.pos
    }
    /// uniform in 0..n (n >= 1), monotone in the raw choice
    pub fn below(&mut self, n: usize) -> usize {
        debug_assert!(n >= 1);
        ((self.raw() as u64 * n as u64) >> 32) as usize
    }
    /// inclusive range, lo is simplest
    pub fn range(&mut self, lo: i64, hi: i64) -> i64 {
        debug_assert!(hi >= lo);
        lo + self.below((hi - lo + 1) as usize) as i64
    }
    /// true with probability num/den; false is simplest
    pub fn chance(&mut self, num: u32, den: u32) -> bool {
        let r = self.raw() as u64;
        // true for the top num/den share of the range
        r * den as u64 >= ((den - num) as u64) << 32
    }
    pub fn pick<'b, T>(&mut self, xs: &'b [T]) -> &'b T {
        &xs[self.below(xs.len())]
    }
    /// index drawn with the given weights; index 0 is simplest
    pub fn weighted(&mut self, weights: &[u32]) -> usize {
        let total: u64 = weights.iter().map(|w| *w as u64).sum();
        debug_assert!(total > 0);
        let x = (self.raw() as u64 * total) >> 32;
        let mut acc = 0u64;
        for (i, w) in weights.iter().enumerate() {
            acc += *w as u64;
            if x < acc {
                return i;
            }
        }
        weights.len() - 1
    }
    pub fn label(&mut self, l: &'static str) {
        self.labels.insert(l);
    }
}

// ---------------------------------------------------------------------------------------------
// Verdicts and statistics

#[derive(Clone, Debug)]
pub struct Failure {
    /// signature used to match known findings; narrow
    pub key: String,
    /// one-line description
    pub what: String,
    /// everything needed to understand and replay the failure
    pub detail: Value,
}

#[derive(Clone, Debug)]
pub enum Verdict {
    Pass,
    Skip(&'static str),
    Fail(Failure),
}

pub struct Outcome {
    pub verdict: Verdict,
    /// Some(hash of canonical encoding) when the case is non-trivial by the check's rule
    pub nontrivial: Option<u64>,
    pub sample: Option<Value>,
    /// extra counters (e.g. number of bindings, queries) added to the evidence
    pub counters: Vec<(&'static str, u64)>,
}

impl Outcome {
    pub fn pass(nontrivial: Option<u64>) -> Self {
        Outcome {
            verdict: Verdict::Pass,
            nontrivial,
            sample: None,
            counters: vec![],
        }
    }
    pub fn skip(why: &'static str) -> Self {
        Outcome {
            verdict: Verdict::Skip(why),
            nontrivial: None,
            sample: None,
            counters: vec![],
        }
    }
    pub fn fail(key: impl Into<String>, what: impl Into<String>, detail: Value) -> Self {
        Outcome {
            verdict: Verdict::Fail(Failure {
                key: key.into(),
                what: what.into(),
                detail,
            }),
            nontrivial: None,
            sample: None,
            counters: vec![],
        }
    }
    pub fn with_sample(mut self, s: Option<Value>) -> Self {
        self.sample = s;
        self
    }
    pub fn count(mut self, k: &'static str, n: u64) -> Self {
        self.counters.push((k, n));
        self
    }
}

#[derive(Default, Debug)]
pub struct Stats {
    pub evaluations: u64,
    pub nontrivial: HashSet<u64>,
    pub labels: BTreeMap<String, u64>,
    pub skipped: BTreeMap<String, u64>,
    pub counters: BTreeMap<String, u64>,
    pub known_hits: BTreeMap<String, u64>,
    pub samples: Vec<Value>,
}

impl Stats {
    pub fn merge(&mut self, o: Stats) {
        self.evaluations += o.evaluations;
        self.nontrivial.extend(o.nontrivial);
        for (k, v) in o.labels {
            *self.labels.entry(k).or_default() += v;
        }
        for (k, v) in o.skipped {
            *self.skipped.entry(k).or_default() += v;
        }
        for (k, v) in o.counters {
            *self.counters.entry(k).or_default() += v;
        }
        for (k, v) in o.known_hits {
            *self.known_hits.entry(k).or_default() += v;
        }
        for s in o.samples {
            if self.samples.len() < 40 {
                self.samples.push(s);
            }
        }
    }
    pub fn record(&mut self, out: &Outcome, labels: &BTreeSet<&'static str>) {
        self.evaluations += 1;
        if let Some(h) = out.nontrivial {
            self.nontrivial.insert(h);
        }
        for l in labels {
            *self.labels.entry((*l).to_owned()).or_default() += 1;
        }
        for (k, n) in &out.counters {
            *self.counters.entry((*k).to_owned()).or_default() += n;
        }
        if let Verdict::Skip(why) = &out.verdict {
            *self.skipped.entry((*why).to_owned()).or_default() += 1;
        }
        if let Some(s) = &out.sample {
            if self.samples.len() < 3 {
                self.samples.push(s.clone());
            }
        }
    }
}

#[derive(Clone, Debug)]
pub struct Violation {
    pub failure: Failure,
    pub choices: Option<Vec<u32>>,
    pub part: String,
}

#[derive(Default)]
pub struct RunResult {
    pub stats: Stats,
    pub violations: Vec<Violation>,
}

// ---------------------------------------------------------------------------------------------
// Known findings

#[derive(Clone, Debug)]
pub struct KnownFinding {
    pub property: String,
    pub key: String,
    pub status: String,
    pub what: String,
}

pub struct Known {
    entries: Vec<KnownFinding>,
    printed: Mutex<BTreeSet<String>>,
}

impl Known {
    pub fn load() -> Known {
        let p = Path::new(VERIF_DIR).join("known_findings.json");
        let mut entries = vec![];
        if let Ok(s) = std::fs::read_to_string(&p) {
            let v: Value = serde_json::from_str(&s).expect("known_findings.json must be valid JSON");
            for e in v["findings"].as_array().cloned().unwrap_or_default() {
                entries.push(KnownFinding {
                    property: e["property"].as_str().unwrap_or("").to_owned(),
                    key: e["key"].as_str().unwrap_or("").to_owned(),
                    status: e["status"].as_str().unwrap_or("").to_owned(),
                    what: e["what"].as_str().unwrap_or("").to_owned(),
                });
            }
        }
        Known {
            entries,
            printed: Mutex::new(BTreeSet::new()),
        }
    }
    /// Returns the entry when (property, key) is listed with status "known".
    pub fn matches(&self, pid: &str, key: &str) -> Option<&KnownFinding> {
        self.entries
            .iter()
            .find(|e| e.status == "known" && e.property == pid && e.key == key)
    }
    pub fn announce(&self, pid: &str, key: &str) {
        if let Some(e) = self.matches(pid, key) {
            let mut p = self.printed.lock().unwrap();
            if p.insert(format!("{pid}/{key}")) {
                println!("KNOWN-FINDING: property={} {} [key={}]", pid, e.what, key);
            }
        }
    }
    pub fn is_listed_known(&self, pid: &str, key: &str) -> bool {
        self.matches(pid, key).is_some()
    }
}

// ---------------------------------------------------------------------------------------------
// Sharded runner over choice sequences

pub const SHARDS: u64 = 16;

pub struct ChoiceRun<'a> {
    pub env: &'a Env,
    pub pid: &'a str,
    /// sub-name of this generator family inside the check (part of the seed and of replay files)
    pub part: &'a str,
    pub cases: u32,
    pub max_len: usize,
    pub known: &'a Known,
}

/// Runs `f` on `cases` generated choice sequences (split over 16 shards with derived seeds),
/// shrinks the first failure of every failing shard and returns statistics and violations
/// (at most one per shard; failures whose key is a known finding are counted, not returned).
pub fn run_choices<F>(cfg: &ChoiceRun, f: F) -> RunResult
where
    F: Fn(&mut Chooser) -> Outcome + Sync,
{
    let per = (cfg.cases as u64).div_ceil(SHARDS) as u32;
    let results: Vec<(Stats, Option<Violation>)> = (0..SHARDS)
        .into_par_iter()
        .map(|shard| run_shard(cfg, shard, per, &f))
        .collect();
    let mut rr = RunResult::default();
    for (s, v) in results {
        rr.stats.merge(s);
        if let Some(v) = v {
            rr.violations.push(v);
        }
    }
    rr.stats.samples.truncate(4);
    rr
}

fn run_shard<F>(cfg: &ChoiceRun, shard: u64, cases: u32, f: &F) -> (Stats, Option<Violation>)
where
    F: Fn(&mut Chooser) -> Outcome + Sync,
{
    run_shard_logged(cfg, shard, cases, f, &|_| {})
}

/// like run_shard; `before` is told the choice sequence of every case before it is evaluated
pub fn run_shard_logged<F>(cfg: &ChoiceRun, shard: u64, cases: u32, f: &F, before: &dyn Fn(&[u32])) -> (Stats, Option<Violation>)
where
    F: Fn(&mut Chooser) -> Outcome + ?Sized,
{
    let seed = derive_seed(cfg.env.seed, &format!("{}/{}", cfg.pid, cfg.part), shard);
    let config = Config {
        cases,
        failure_persistence: None,
        rng_seed: RngSeed::Fixed(seed),
        max_shrink_iters: 3000,
        max_global_rejects: 1_000_000,
        ..Config::default()
    };
    let mut runner = TestRunner::new(config);
    let strategy = proptest::collection::vec(proptest::num::u32::ANY, 0..=cfg.max_len);
    let stats = Mutex::new(Stats::default());
    let failed = AtomicBool::new(false);
    let res = runner.run(&strategy, |choices| {
        before(&choices);
        let mut ch = Chooser::new(&choices);
        let counting = !failed.load(Ordering::Relaxed);
        ch.want_sample = counting && stats.lock().unwrap().samples.len() < 3;
        let out = f(&mut ch);
        if counting {
            stats.lock().unwrap().record(&out, &ch.labels);
        }
        match out.verdict {
            Verdict::Pass | Verdict::Skip(_) => Ok(()),
            Verdict::Fail(fl) => {
                if cfg.known.is_listed_known(cfg.pid, &fl.key) {
                    if counting {
                        cfg.known.announce(cfg.pid, &fl.key);
                        *stats
                            .lock()
                            .unwrap()
                            .known_hits
                            .entry(fl.key.clone())
                            .or_default() += 1;
                    }
                    Ok(())
                } else {
                    failed.store(true, Ordering::Relaxed);
                    Err(TestCaseError::fail(fl.key))
                }
            }
        }
    });
    let stats = stats.into_inner().unwrap();
    match res {
        Ok(()) => (stats, None),
        Err(TestError::Fail(_, minimal)) => {
            before(&minimal);
            let mut ch = Chooser::new(&minimal);
            ch.want_sample = true;
            let out = f(&mut ch);
            let failure = match out.verdict {
                Verdict::Fail(fl) => fl,
                _ => Failure {
                    key: "unstable".into(),
                    what: "failure did not reproduce on the shrunk input (flaky oracle?)".into(),
                    detail: json!({}),
                },
            };
            (
                stats,
                Some(Violation {
                    failure,
                    choices: Some(minimal),
                    part: cfg.part.to_owned(),
                }),
            )
        }
        Err(TestError::Abort(r)) => (
            stats,
            Some(Violation {
                failure: Failure {
                    key: "abort".into(),
                    what: format!("proptest aborted: {r}"),
                    detail: json!({}),
                },
                choices: None,
                part: cfg.part.to_owned(),
            }),
        ),
    }
}

/// Draws `n` choice sequences without running anything (for checks that batch cases through
/// external tools). Deterministic in (seed, pid, part).
pub fn sample_choices(env: &Env, pid: &str, part: &str, n: usize, max_len: usize) -> Vec<Vec<u32>> {
    let seed = derive_seed(env.seed, &format!("{pid}/{part}"), 9999);
    let config = Config {
        failure_persistence: None,
        rng_seed: RngSeed::Fixed(seed),
        ..Config::default()
    };
    let mut runner = TestRunner::new(config);
    let strategy = proptest::collection::vec(proptest::num::u32::ANY, 0..=max_len);
    (0..n)
        .map(|_| strategy.new_tree(&mut runner).unwrap().current())
        .collect()
}

/// Greedy shrinker for externally executed cases: tries proptest's simplify/complicate protocol
/// driven by `still_fails`, bounded by `max_steps` oracle calls.
pub fn shrink_choices<F>(start: Vec<u32>, max_steps: usize, mut still_fails: F) -> Vec<u32>
where
    F: FnMut(&[u32]) -> bool,
{
    let mut best = start;
    let mut steps = 0usize;
    // 1. truncate
    let mut cut = best.len() / 2;
    while cut >= 1 && steps < max_steps {
        if best.len() > cut {
            let cand: Vec<u32> = best[..best.len() - cut].to_vec();
            steps += 1;
            if still_fails(&cand) {
                best = cand;
                continue;
            }
        }
        cut /= 2;
    }
    // 2. zero / halve elements
    let mut i = 0;
    while i < best.len() && steps < max_steps {
        if best[i] != 0 {
            let mut cand = best.clone();
            cand[i] = 0;
            steps += 1;
            if still_fails(&cand) {
                best = cand;
            } else {
                let mut cand = best.clone();
                cand[i] /= 2;
                steps += 1;
                if steps <= max_steps && still_fails(&cand) {
                    best = cand;
                    continue; // try halving again
                }
            }
        }
        i += 1;
    }
    best
}

// ---------------------------------------------------------------------------------------------
// Replay files and violations

pub fn write_violation(pid: &str, v: &Violation) -> PathBuf {
    let dir = Path::new(VERIF_DIR).join("violations").join(pid);
    let _ = std::fs::create_dir_all(&dir);
    let body = json!({
        "property": pid,
        "part": v.part,
        "key": v.failure.key,
        "what": v.failure.what,
        "choices": v.choices,
        "detail": v.failure.detail,
    });
    let text = serde_json::to_string_pretty(&body).unwrap();
    let h = stable_hash(&(pid, &v.part, &v.failure.key, &v.choices));
    let p = dir.join(format!("{}-{:016x}.json", sanitize(&v.failure.key), h));
    let _ = std::fs::write(&p, text);
    p
}

fn sanitize(s: &str) -> String {
    let t: String = s
        .chars()
        .map(|c| if c.is_ascii_alphanumeric() || c == '-' || c == '_' { c } else { '_' })
        .take(48)
        .collect();
    if t.is_empty() {
        "v".into()
    } else {
        t
    }
}

pub fn list_replays(pid: &str) -> Vec<PathBuf> {
    let dir = Path::new(VERIF_DIR).join("replays").join(pid);
    let mut v: Vec<PathBuf> = std::fs::read_dir(dir)
        .map(|rd| {
            rd.filter_map(|e| e.ok().map(|e| e.path()))
                .filter(|p| p.extension().map(|e| e == "json").unwrap_or(false))
                .collect()
        })
        .unwrap_or_default();
    v.sort();
    v
}

pub fn choices_from_json(v: &Value) -> Option<Vec<u32>> {
    v.get("choices")?
        .as_array()?
        .iter()
        .map(|x| x.as_u64().map(|n| n as u32))
        .collect()
}

// ---------------------------------------------------------------------------------------------
// Evidence

pub struct Evidence<'a> {
    pub env: &'a Env,
    pub pid: &'a str,
    pub level: &'a str,
    pub rule: &'a str,
    pub assumptions: Vec<String>,
    pub extra: Value,
}

pub fn write_evidence(ev: &Evidence, stats: &Stats, violations: usize, started: Instant) {
    let dir = Path::new(VERIF_DIR).join("evidence");
    let _ = std::fs::create_dir_all(&dir);
    let mut coverage = json!({
        "evaluations": stats.evaluations,
        "distinct_nontrivial": stats.nontrivial.len(),
        "rule": ev.rule,
        "samples": stats.samples,
        "class_histogram": stats.labels,
        "skipped_out_of_domain": stats.skipped,
        "counters": stats.counters,
        "known_finding_hits": stats.known_hits,
        "programs": stats.evaluations,
        "disagreements_checked": stats.evaluations,
    });
    if let (Some(c), Some(e)) = (coverage.as_object_mut(), ev.extra.as_object()) {
        for (k, v) in e {
            c.insert(k.clone(), v.clone());
        }
    }
    let body = json!({
        "property_id": ev.pid,
        "tier": ev.env.tier.as_str(),
        "seed": ev.env.seed as i64,
        "level": ev.level,
        "coverage": coverage,
        "assumptions": ev.assumptions,
        "wall_s": (started.elapsed().as_secs_f64() * 100.0).round() / 100.0,
        "violations": violations,
    });
    let p = dir.join(format!("{}.json", ev.pid));
    std::fs::write(&p, serde_json::to_string_pretty(&body).unwrap()).expect("write evidence");
}

/// Prints the VIOLATION lines and returns the process exit code.
pub fn report(pid: &str, violations: &[Violation]) -> i32 {
    if violations.is_empty() {
        return 0;
    }
    let mut seen = BTreeSet::new();
    for v in violations {
        if !seen.insert(v.failure.key.clone()) {
            continue;
        }
        let p = write_violation(pid, v);
        eprintln!("violation: {} :: {}", v.failure.key, v.failure.what);
        println!("VIOLATION property={} replay={}", pid, p.display());
    }
    1
}

// ---------------------------------------------------------------------------------------------
// Panic capture

thread_local! {
    static LAST_PANIC: std::cell::RefCell<Option<String>> = const { std::cell::RefCell::new(None) };
    static IN_CATCH: std::cell::Cell<u32> = const { std::cell::Cell::new(0) };
}

pub fn install_quiet_panic_hook() {
    std::panic::set_hook(Box::new(|info| {
        let loc = info
            .location()
            .map(|l| format!("{}:{}", l.file(), l.line()))
            .unwrap_or_default();
        let msg = if let Some(s) = info.payload().downcast_ref::<&str>() {
            (*s).to_owned()
        } else if let Some(s) = info.payload().downcast_ref::<String>() {
            s.clone()
        } else {
            "<non-string panic>".to_owned()
        };
        LAST_PANIC.with(|p| *p.borrow_mut() = Some(format!("{loc}: {msg}")));
        // panics of the code under test are expected and recorded; a panic of the harness itself
        // (outside any `catch`) must be visible
        if IN_CATCH.with(|c| c.get()) == 0 || std::env::var_os("QV_SHOW_PANICS").is_some() {
            eprintln!("panic at {loc}: {msg}");
        }
    }));
}

pub fn take_last_panic() -> Option<String> {
    LAST_PANIC.with(|p| p.borrow_mut().take())
}

/// Runs `f`, converting a panic into Err(location: message).
pub fn catch<T>(f: impl FnOnce() -> T) -> Result<T, String> {
    let _ = take_last_panic();
    IN_CATCH.with(|c| c.set(c.get() + 1));
    let r = std::panic::catch_unwind(std::panic::AssertUnwindSafe(f));
    IN_CATCH.with(|c| c.set(c.get() - 1));
    match r {
        Ok(v) => Ok(v),
        Err(_) => Err(take_last_panic().unwrap_or_else(|| "panic (no message)".into())),
    }
}

/// Scratch directory under $TMPDIR, removed on drop.
pub fn scratch_dir(tag: &str) -> tempfile::TempDir {
    tempfile::Builder::new()
        .prefix(&format!("qv.{}.{}.", std::process::id(), tag))
        .tempdir()
        .expect("create scratch dir")
}
