//! Control-flow verifier for the bodies of eval…/on… functions of the support header
//! (DESIGN.md section 3, C06). Works on the emitted text only.

use crate::hdr::Func;
use std::collections::{BTreeMap, BTreeSet};

#[derive(Clone, Debug, PartialEq)]
pub enum Term {
    Goto(String),
    Branch(String, String, String), // condition text, then-label, else-label
    Return(Option<String>),
    Unreachable,
    /// control runs off the end of the block (no terminator)
    FallOff,
}

#[derive(Clone, Debug)]
pub struct Block {
    pub label: String,
    /// (assigned local or None, text whose locals are read)
    pub stmts: Vec<(Option<String>, String)>,
    pub term: Term,
}

#[derive(Clone, Debug)]
pub struct Body {
    pub params: Vec<String>,
    pub locals: Vec<String>,
    pub blocks: Vec<Block>,
    pub returns_value: bool,
}

fn is_local_name(s: &str) -> bool {
    s.len() >= 2 && s.starts_with('a') && s[1..].chars().all(|c| c.is_ascii_digit())
}

/// locals (aN tokens) mentioned in a piece of C++ text, outside string literals
pub fn locals_in(text: &str) -> BTreeSet<String> {
    let mut out = BTreeSet::new();
    let cs: Vec<char> = text.chars().collect();
    let mut i = 0;
    let mut in_str = false;
    while i < cs.len() {
        let c = cs[i];
        if in_str {
            if c == '\\' {
                i += 2;
                continue;
            }
            if c == '"' {
                in_str = false;
            }
            i += 1;
            continue;
        }
        if c == '"' {
            in_str = true;
            i += 1;
            continue;
        }
        if c.is_ascii_alphabetic() || c == '_' {
            let st = i;
            while i < cs.len() && (cs[i].is_ascii_alphanumeric() || cs[i] == '_') {
                i += 1;
            }
            let w: String = cs[st..i].iter().collect();
            // not a member access like x.a1 or x->a1
            let prev = if st > 0 { cs[st - 1] } else { ' ' };
            if is_local_name(&w) && prev != '.' && prev != '>' && prev != ':' {
                out.insert(w);
            }
            continue;
        }
        i += 1;
    }
    out
}

pub fn parse(f: &Func) -> Result<Body, String> {
    let mut body = Body { params: vec![], locals: vec![], blocks: vec![], returns_value: f.ret != "void" };
    for p in crate::hdr::split_top(&f.params) {
        let name = p.rsplit(|c: char| !(c.is_ascii_alphanumeric() || c == '_')).next().unwrap_or("").to_owned();
        if !name.is_empty() {
            body.params.push(name);
        }
    }
    let lines: Vec<&str> = f.body.iter().map(|s| s.as_str()).collect();
    let mut i = 0;
    // preamble + declarations until the first label
    while i < lines.len() {
        let l = lines[i];
        let t = l.trim();
        if l.starts_with("    ") && !l.starts_with("     ") && t.ends_with(':') {
            break;
        }
        if t.starts_with("auto &observed") || t.starts_with("const auto update") || t.is_empty() {
            i += 1;
            continue;
        }
        // TYPE aN;
        let Some(decl) = t.strip_suffix(';') else { return Err(format!("{}: unexpected preamble line {t:?}", f.name)) };
        let name = decl.rsplit(|c: char| !(c.is_ascii_alphanumeric() || c == '_')).next().unwrap_or("");
        if !is_local_name(name) {
            return Err(format!("{}: unexpected declaration {t:?}", f.name));
        }
        if body.locals.contains(&name.to_owned()) || body.params.contains(&name.to_owned()) {
            return Err(format!("{}: local {name} declared twice", f.name));
        }
        body.locals.push(name.to_owned());
        i += 1;
    }
    let mut cur: Option<Block> = None;
    while i < lines.len() {
        let l = lines[i];
        let t = l.trim();
        if l.starts_with("    ") && !l.starts_with("     ") && t.ends_with(':') {
            if let Some(b) = cur.take() {
                body.blocks.push(b);
            }
            cur = Some(Block { label: t.trim_end_matches(':').to_owned(), stmts: vec![], term: Term::FallOff });
            i += 1;
            continue;
        }
        let Some(b) = cur.as_mut() else { return Err(format!("{}: statement before the first label: {t:?}", f.name)) };
        if b.term != Term::FallOff && !(matches!(b.term, Term::Return(None)) && false) {
            return Err(format!("{}: block {} continues after its terminator: {t:?}", f.name, b.label));
        }
        if let Some(rest) = t.strip_prefix("goto ") {
            b.term = Term::Goto(rest.trim_end_matches(';').to_owned());
        } else if t.starts_with("if (Q_UNLIKELY(") {
            // observer block: runs to the matching closing brace at the same indentation
            let indent = l.len() - l.trim_start().len();
            let mut text = String::from(t);
            i += 1;
            while i < lines.len() {
                let ll = lines[i];
                text.push(' ');
                text.push_str(ll.trim());
                if ll.trim() == "}" && ll.len() - ll.trim_start().len() == indent {
                    break;
                }
                i += 1;
            }
            b.stmts.push((None, text));
        } else if let Some(cond) = t.strip_prefix("if (").and_then(|r| r.strip_suffix(')')) {
            // if (X) \n goto bA; \n else \n goto bB;
            let get = |k: usize| lines.get(i + k).map(|s| s.trim().to_owned()).unwrap_or_default();
            let (g1, el, g2) = (get(1), get(2), get(3));
            let (Some(a), "else", Some(c)) = (g1.strip_prefix("goto "), el.as_str(), g2.strip_prefix("goto ")) else {
                return Err(format!("{}: malformed two-way branch after {t:?}", f.name));
            };
            b.term = Term::Branch(cond.to_owned(), a.trim_end_matches(';').to_owned(), c.trim_end_matches(';').to_owned());
            i += 3;
        } else if t == "return;" {
            b.term = Term::Return(None);
        } else if let Some(v) = t.strip_prefix("return ").and_then(|r| r.strip_suffix(';')) {
            b.term = Term::Return(Some(v.to_owned()));
        } else if t == "Q_UNREACHABLE();" {
            b.term = Term::Unreachable;
        } else if let Some(st) = t.strip_suffix(';') {
            // assignment `aK = rhs` or plain expression
            let mut assigned = None;
            let mut read = st.to_owned();
            if let Some(eq) = st.find(" = ") {
                let lhs = &st[..eq];
                if is_local_name(lhs) {
                    assigned = Some(lhs.to_owned());
                    read = st[eq + 3..].to_owned();
                }
            }
            b.stmts.push((assigned, read));
        } else {
            return Err(format!("{}: unrecognised line {t:?}", f.name));
        }
        i += 1;
    }
    if let Some(b) = cur.take() {
        body.blocks.push(b);
    }
    Ok(body)
}

/// Verifies the C06 clauses; returns Err((aspect, description)).
pub fn verify(fname: &str, body: &Body) -> Result<(usize, usize), (String, String)> {
    let idx: BTreeMap<&str, usize> = body.blocks.iter().enumerate().map(|(i, b)| (b.label.as_str(), i)).collect();
    if idx.len() != body.blocks.len() {
        return Err(("duplicate-label".into(), format!("{fname}: a label is defined twice")));
    }
    if body.blocks.first().map(|b| b.label.as_str()) != Some("b0") {
        return Err(("entry".into(), format!("{fname}: the entry block is not b0")));
    }
    let succ = |b: &Block| -> Result<Vec<usize>, (String, String)> {
        let get = |l: &String| idx.get(l.as_str()).copied().ok_or_else(|| ("dangling-jump".to_owned(), format!("{fname}: {} jumps to {l}, which does not exist", b.label)));
        Ok(match &b.term {
            Term::Goto(l) => vec![get(l)?],
            Term::Branch(_, a, c) => vec![get(a)?, get(c)?],
            _ => vec![],
        })
    };
    // every jump names an existing label (also in unreachable blocks)
    for b in &body.blocks {
        succ(b)?;
    }
    // reachability from b0
    let mut reach = vec![false; body.blocks.len()];
    let mut stack = vec![0usize];
    while let Some(i) = stack.pop() {
        if reach[i] {
            continue;
        }
        reach[i] = true;
        stack.extend(succ(&body.blocks[i])?);
    }
    let mut joins = 0usize;
    let mut preds = vec![0usize; body.blocks.len()];
    for (i, b) in body.blocks.iter().enumerate() {
        if reach[i] {
            for s in succ(b)? {
                preds[s] += 1;
            }
        }
    }
    for (i, b) in body.blocks.iter().enumerate() {
        if !reach[i] {
            continue;
        }
        if preds[i] >= 2 {
            joins += 1;
        }
        match &b.term {
            Term::Unreachable => return Err(("reachable-unreachable".into(), format!("{fname}: block {} is reachable from b0 but ends in Q_UNREACHABLE()", b.label))),
            Term::FallOff => return Err(("falls-off".into(), format!("{fname}: block {} is reachable and runs off its end", b.label))),
            Term::Return(None) if body.returns_value => return Err(("return-without-value".into(), format!("{fname}: value-returning body has a reachable `return;` in block {}", b.label))),
            _ => {}
        }
    }
    // must-be-assigned dataflow
    let all: BTreeSet<String> = body.locals.iter().cloned().collect();
    let params: BTreeSet<String> = body.params.iter().cloned().collect();
    let n = body.blocks.len();
    let mut inn: Vec<Option<BTreeSet<String>>> = vec![None; n];
    inn[0] = Some(params.clone());
    let mut changed = true;
    while changed {
        changed = false;
        for i in 0..n {
            if !reach[i] {
                continue;
            }
            let Some(start) = inn[i].clone() else { continue };
            let mut cur = start;
            for (a, _) in &body.blocks[i].stmts {
                if let Some(a) = a {
                    cur.insert(a.clone());
                }
            }
            for s in succ(&body.blocks[i])? {
                let new = match &inn[s] {
                    None => cur.clone(),
                    Some(old) => old.intersection(&cur).cloned().collect(),
                };
                if inn[s].as_ref() != Some(&new) {
                    inn[s] = Some(new);
                    changed = true;
                }
            }
        }
    }
    for i in 0..n {
        if !reach[i] {
            continue;
        }
        let mut cur = inn[i].clone().unwrap_or_default();
        let b = &body.blocks[i];
        let check = |text: &str, cur: &BTreeSet<String>| -> Result<(), (String, String)> {
            for l in locals_in(text) {
                if !all.contains(&l) && !params.contains(&l) {
                    return Err(("undeclared-local".into(), format!("{fname}: block {} uses {l}, which is not declared", b.label)));
                }
                if !cur.contains(&l) {
                    return Err(("read-before-assignment".into(), format!("{fname}: block {} reads {l} in `{text}` although it is not assigned on every path from b0", b.label)));
                }
            }
            Ok(())
        };
        for (a, text) in &b.stmts {
            check(text, &cur)?;
            if let Some(a) = a {
                if !all.contains(a) && !params.contains(a) {
                    return Err(("undeclared-local".into(), format!("{fname}: block {} assigns {a}, which is not declared", b.label)));
                }
                cur.insert(a.clone());
            }
        }
        match &b.term {
            Term::Branch(c, _, _) => check(c, &cur)?,
            Term::Return(Some(v)) => check(v, &cur)?,
            _ => {}
        }
    }
    Ok((reach.iter().filter(|r| **r).count(), joins))
}
