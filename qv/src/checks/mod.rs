//! One module per property.

use crate::common::*;
use serde_json::Value;
use std::path::Path;
use std::time::Instant;

pub mod c01;
pub mod c02;
pub mod c03;
pub mod c04;
pub mod c05;
pub mod c06;
pub mod c07;
pub mod c08;
pub mod c09;
pub mod c10;
pub mod c11;
pub mod c12;
pub mod c13;
pub mod c14;
pub mod c15;
pub mod c16;
pub mod c17;
pub mod c18;
pub mod c19;
pub mod c20;

type RunFn = fn(&Env, &Known, Instant, u64, Vec<Violation>) -> i32;
type ReplayFn = fn(&Value) -> Outcome;

const TABLE: &[(&str, RunFn, ReplayFn)] = &[
    ("C01", c01::run, c01::replay),
    ("C02", c02::run, c02::replay),
    ("C03", c03::run, c03::replay),
    ("C04", c04::run, c04::replay),
    ("C05", c05::run, c05::replay),
    ("C06", c06::run, c06::replay),
    ("C07", c07::run, c07::replay),
    ("C08", c08::run, c08::replay),
    ("C09", c09::run, c09::replay),
    ("C10", c10::run, c10::replay),
    ("C11", c11::run, c11::replay),
    ("C12", c12::run, c12::replay),
    ("C13", c13::run, c13::replay),
    ("C14", c14::run, c14::replay),
    ("C15", c15::run, c15::replay),
    ("C16", c16::run, c16::replay),
    ("C17", c17::run, c17::replay),
    ("C18", c18::run, c18::replay),
    ("C19", c19::run, c19::replay),
    ("C20", c20::run, c20::replay),
];

/// Case functions that run in isolated child processes (see isolate.rs).
pub fn case_fn(pid: &str, part: &str) -> Option<crate::isolate::CaseFn> {
    match (pid, part) {
        ("C17", "graphs") => Some(c17::run_case),
        ("C07", "inputs") => Some(c07::run_case),
        _ => None,
    }
}

/// Result of replaying one saved input.
pub fn replay_value(pid: &str, v: &Value) -> Outcome {
    match TABLE.iter().find(|(id, _, _)| *id == pid) {
        Some((_, _, r)) => r(v),
        None => Outcome::skip("no replay handler"),
    }
}

pub fn run(id: &str, env: &Env, known: &Known) -> i32 {
    let started = Instant::now();
    // replay tier first
    let mut replay_violations = vec![];
    let mut replayed = 0u64;
    for p in list_replays(id) {
        replayed += 1;
        if let Some(v) = replay_one(id, &p, known) {
            replay_violations.push(v);
        }
    }
    let code = match TABLE.iter().find(|(i, _, _)| *i == id) {
        Some((_, r, _)) => r(env, known, started, replayed, replay_violations),
        None => {
            eprintln!("unknown check {id}");
            2
        }
    };
    eprintln!("[qv] {id} {} seed={} exit={} in {:.1}s", env.tier.as_str(), env.seed, code, started.elapsed().as_secs_f64());
    code
}

fn replay_one(pid: &str, path: &Path, known: &Known) -> Option<Violation> {
    let text = std::fs::read_to_string(path).ok()?;
    let v: Value = match serde_json::from_str(&text) {
        Ok(v) => v,
        Err(e) => {
            eprintln!("[qv] unreadable replay file {}: {e}", path.display());
            return None;
        }
    };
    let out = replay_value(pid, &v);
    match out.verdict {
        Verdict::Fail(f) => {
            if known.is_listed_known(pid, &f.key) {
                known.announce(pid, &f.key);
                None
            } else {
                Some(Violation {
                    failure: Failure {
                        detail: serde_json::json!({"replayed_from": path.display().to_string(), "detail": f.detail}),
                        ..f
                    },
                    choices: choices_from_json(&v),
                    part: v["part"].as_str().unwrap_or("replay").to_owned(),
                })
            }
        }
        _ => None,
    }
}

/// `qv replay <file>`: exit 0 pass, 1 violation (also for known findings when strict), 2 unusable
pub fn replay_file(path: &Path, known: &Known, strict: bool) -> i32 {
    let Ok(text) = std::fs::read_to_string(path) else {
        eprintln!("cannot read {}", path.display());
        return 2;
    };
    let Ok(v) = serde_json::from_str::<Value>(&text) else {
        eprintln!("not JSON: {}", path.display());
        return 2;
    };
    let pid = v["property"].as_str().unwrap_or("").to_owned();
    let out = replay_value(&pid, &v);
    match out.verdict {
        Verdict::Pass => {
            println!("replay passes: {}", path.display());
            0
        }
        Verdict::Skip(w) => {
            println!("replay skipped ({w}): {}", path.display());
            2
        }
        Verdict::Fail(f) => {
            if known.is_listed_known(&pid, &f.key) && !strict {
                known.announce(&pid, &f.key);
                0
            } else {
                if known.is_listed_known(&pid, &f.key) {
                    known.announce(&pid, &f.key);
                }
                eprintln!("{}: {}\n{}", f.key, f.what, serde_json::to_string_pretty(&f.detail).unwrap());
                println!("VIOLATION property={} replay={}", pid, path.display());
                1
            }
        }
    }
}

/// Common tail of every check: evidence + report.
pub fn finish(
    ev: &Evidence,
    mut stats: Stats,
    mut violations: Vec<Violation>,
    replayed: u64,
    replay_violations: Vec<Violation>,
    started: Instant,
) -> i32 {
    stats.counters.insert("replay_files_rechecked".into(), replayed);
    let mut all = replay_violations;
    all.append(&mut violations);
    write_evidence(ev, &stats, all.len(), started);
    report(ev.pid, &all)
}
