//! C08 — determinism: identical inputs give byte-identical outputs (DESIGN.md section 3, C08).

use super::finish;
use crate::common::*;
use crate::doc::*;
use crate::gen::*;
use crate::translate::{self, translate, Diag, Mode, Translation};
use rayon::prelude::*;
use serde_json::{json, Value};
use std::collections::BTreeMap;
use std::time::Instant;

const PID: &str = "C08";
const REPS: usize = 8;

pub fn gen_doc(ch: &mut Chooser) -> (Obj, bool) {
    let cfg = TreeCfg { max_objects: 40, ..TreeCfg::default() };
    let mut root = gen_tree(ch, &cfg);
    plant_sources(ch, &mut root, 1, 2);
    assign_plain_ids(ch, &mut root, 1, 3);
    let mut expects = vec![];
    // many bindings per object: the maps a missing sort would expose need >= 4 entries
    decorate(ch, &mut root, 12, StrMode::Plain, true, &mut expects);
    let mut dyns = vec![];
    add_dynamic(ch, &mut root, 2, 3, &mut dyns);
    let mut faulted = false;
    if ch.chance(1, 4) {
        let n = 3 + ch.below(6);
        for _ in 0..n {
            let kinds: Vec<&'static str> = BINDING_FAULTS.iter().copied().filter(|k| !k.starts_with("duplicate")).collect();
            if plant_fault(ch, &mut root, &kinds).is_some() {
                faulted = true;
            }
        }
    }
    (root, faulted)
}

fn diag_multiset(t: &Translation) -> BTreeMap<Diag, usize> {
    let mut m = BTreeMap::new();
    for d in &t.diags {
        *m.entry(d.clone()).or_default() += 1;
    }
    m
}

const FILLERS: &[&str] = &[
    "import qmluic.QtWidgets\nQWidget { QLabel { text: \"x\" } }\n",
    "import qmluic.QtWidgets\nQDialog { id: r; QPushButton { onClicked: r.close(); font.bold: true; toolTip: r.windowTitle } }\n",
    "import qmluic.QtWidgets\nQWidget { bogus: 1 }\n",
];

fn check_in_process(qml: &str, mode: Mode) -> Result<Translation, Failure> {
    let first = translate(qml, "doc", mode);
    for i in 1..REPS {
        // translate something else in between, as a long-running process would
        let _ = translate(FILLERS[i % FILLERS.len()], "Filler", Mode::ALL[i % 3]);
        let t = translate(qml, "doc", mode);
        let what = if t.panic != first.panic {
            Some(("panic", format!("panic differs: {:?} vs {:?}", first.panic, t.panic)))
        } else if t.ui != first.ui {
            Some(("ui-bytes", format!(".ui bytes differ between translation 1 and {} of the same text in one process ({} mode)", i + 1, mode.name())))
        } else if t.header != first.header {
            Some(("header-bytes", format!("support header bytes differ between translation 1 and {} of the same text in one process", i + 1)))
        } else if diag_multiset(&t) != diag_multiset(&first) {
            Some(("diagnostics", format!("diagnostic sets differ between translation 1 and {}: {:?} vs {:?}", i + 1, first.diag_summary(), t.diag_summary())))
        } else if t.syntax_errors != first.syntax_errors {
            Some(("syntax-errors", "syntax errors differ".to_owned()))
        } else {
            None
        };
        if let Some((k, why)) = what {
            return Err(Failure {
                key: format!("c08-{k}"),
                what: why,
                detail: json!({"qml": qml, "mode": mode.name(), "first": {"ui": first.ui_str(), "header": first.header_str(), "diagnostics": first.diag_summary()},
                    "other": {"ui": t.ui_str(), "header": t.header_str(), "diagnostics": t.diag_summary()}}),
            });
        }
    }
    Ok(first)
}

fn maps_with_many_entries(root: &Obj) -> usize {
    // objects with >= 4 bindings, plus palettes / fonts with >= 4 members
    let mut n = 0;
    for (_, o) in root.flat() {
        if o.binds.len() >= 4 {
            n += 1;
        }
        let mut groups: BTreeMap<&str, usize> = BTreeMap::new();
        for b in &o.binds {
            if b.path.contains('.') {
                *groups.entry(b.path.split('.').next().unwrap()).or_default() += 1;
            }
        }
        n += groups.values().filter(|k| **k >= 4).count();
    }
    n
}

fn run_case(ch: &mut Chooser) -> Outcome {
    let (root, faulted) = gen_doc(ch);
    let style = Style { group: ch.chance(1, 3), semicolons: false, comments: false, children_first: false };
    let printed = print_doc(DEFAULT_IMPORTS, &root, style);
    let mode = Mode::ALL[ch.weighted(&[70, 15, 15])];
    if faulted { ch.label("with-several-errors"); }
    match check_in_process(&printed.text, mode) {
        Err(f) => Outcome { verdict: Verdict::Fail(f), nontrivial: None, sample: None, counters: vec![] },
        Ok(t) => {
            if t.header.as_ref().map(|h| h.len() > 3000).unwrap_or(false) { ch.label("with-support-code"); }
            let nt = (maps_with_many_entries(&root) >= 2).then(|| stable_hash(&printed.text));
            Outcome::pass(nt)
                .count("translations", REPS as u64)
                .with_sample(ch.want_sample.then(|| json!({"qml": printed.text, "mode": mode.name(), "repetitions": REPS, "diagnostics": t.diags.len()})))
        }
    }
}

/// Fresh processes: run the real command three times on the same file, compare everything.
fn check_cli(qml: &str) -> Result<(), Failure> {
    let mut results = vec![];
    for _ in 0..3 {
        let dir = scratch_dir("c08");
        std::fs::write(dir.path().join("doc.qml"), qml).unwrap();
        let r = translate::run_cli(dir.path(), &translate::foreign_types(), &["doc.qml".to_owned()], 60);
        if r.timed_out {
            // not a determinism verdict
            return Ok(());
        }
        let ui = std::fs::read(dir.path().join("doc.ui")).ok();
        let h = std::fs::read(dir.path().join("uisupport_doc.h")).ok();
        let mut lines: Vec<String> = r.stderr.lines().map(|l| l.to_owned()).collect();
        lines.sort();
        results.push((r.status, ui, h, lines, r.stderr));
    }
    let mk = |k: &str, why: String, i: usize| Failure {
        key: format!("c08-cli-{k}"),
        what: why,
        detail: json!({"qml": qml, "run1": {"status": results[0].0, "stderr": results[0].4, "ui": results[0].1.as_ref().map(|b| String::from_utf8_lossy(b).into_owned())},
            "other": {"status": results[i].0, "stderr": results[i].4, "ui": results[i].1.as_ref().map(|b| String::from_utf8_lossy(b).into_owned())}}),
    };
    for i in 1..results.len() {
        if results[i].0 != results[0].0 {
            return Err(mk("status", format!("exit status differs between fresh processes: {:?} vs {:?}", results[0].0, results[i].0), i));
        }
        if results[i].1 != results[0].1 {
            return Err(mk("ui-bytes", ".ui bytes differ between fresh processes".into(), i));
        }
        if results[i].2 != results[0].2 {
            return Err(mk("header-bytes", "support header bytes differ between fresh processes".into(), i));
        }
        if results[i].3 != results[0].3 {
            return Err(mk("stderr", "diagnostic output differs (as a multiset of lines) between fresh processes".into(), i));
        }
    }
    // the in-process wrapper must agree with the command (fidelity of the harness)
    let t = translate(qml, "doc", Mode::Generate);
    if t.accepted() && results[0].0 == Some(0) && (t.ui != results[0].1 || t.header != results[0].2) {
        return Err(mk("vs-in-process", "the command writes other bytes than the library returns in-process for the same text".into(), 0));
    }
    if t.accepted() != (results[0].0 == Some(0)) {
        return Err(mk("vs-in-process-status", format!("in-process accepted = {}, command status = {:?}", t.accepted(), results[0].0), 0));
    }
    Ok(())
}

pub fn replay(v: &Value) -> Outcome {
    if let Some(q) = v["qml"].as_str().or_else(|| v["detail"]["qml"].as_str()) {
        for m in Mode::ALL {
            if let Err(f) = check_in_process(q, m) {
                return Outcome { verdict: Verdict::Fail(f), nontrivial: None, sample: None, counters: vec![] };
            }
        }
        return Outcome::pass(None);
    }
    match choices_from_json(v) {
        Some(c) => run_case(&mut Chooser::new(&c)),
        None => Outcome::skip("replay file without choices"),
    }
}

pub fn run(env: &Env, known: &Known, started: Instant, replayed: u64, replay_violations: Vec<Violation>) -> i32 {
    verify_catalogue();
    let cfg = ChoiceRun { env, pid: PID, part: "in-process", cases: env.tier.pick(12_000, 150_000), max_len: 1500, known };
    let mut rr = run_choices(&cfg, run_case);
    // fresh processes on a sample
    let n_cli = env.tier.pick(96, 1500);
    let seqs = sample_choices(env, PID, "cli", n_cli, 1500);
    let cli: Vec<Result<(), Failure>> = seqs
        .par_iter()
        .map(|c| {
            let mut ch = Chooser::new(c);
            let (root, _) = gen_doc(&mut ch);
            let printed = print_doc(DEFAULT_IMPORTS, &root, Style::default());
            check_cli(&printed.text)
        })
        .collect();
    let mut cli_runs = 0u64;
    for (r, c) in cli.into_iter().zip(&seqs) {
        cli_runs += 3;
        rr.stats.evaluations += 1;
        rr.stats.nontrivial.insert(stable_hash(c));
        if let Err(f) = r {
            if known.is_listed_known(PID, &f.key) {
                known.announce(PID, &f.key);
            } else if rr.violations.len() < 6 {
                rr.violations.push(Violation { failure: f, choices: Some(c.clone()), part: "cli".into() });
            }
        }
    }
    rr.stats.counters.insert("fresh_process_runs".into(), cli_runs);
    translate::remove_foreign_types_file();
    let ev = Evidence {
        env, pid: PID, level: "exploration",
        rule: "documents of 1-40 objects with up to 12 bindings per object from the whole catalogue (palettes, fonts, icons, size policies, string lists, ...), dynamic bindings and handlers on two thirds of the eligible objects, and in a quarter of the cases 3-8 independent planted errors; each text is translated 8 times in one process (interleaved with other documents and modes; every HashMap instance gets a new hash seed) and a sample 3 times by fresh qmluic processes; .ui bytes, header bytes, exit status and the diagnostic multiset (kind, range, message, labels, notes) must be equal; the command's bytes must equal the library's. Non-trivial = document with >= 2 maps of >= 4 entries; distinct by text hash.",
        assumptions: vec!["hash seeds are sampled by repetition, not enumerated: a missing sort over n>=4 entries escapes 8 repetitions with probability <= (1/24)^7".into()],
        extra: json!({"repetitions_in_process": REPS, "repetitions_fresh_process": 3}),
    };
    finish(&ev, rr.stats, rr.violations, replayed, replay_violations, started)
}
