//! C01 — generated binding code computes the value of its source expression
//! (DESIGN.md section 3, C01): generated eval functions are compiled against the API model and
//! executed through setup()/update…(); every printed target value is compared with the reference
//! interpreter's value of the source program in the same state.

use super::finish;
use crate::common::*;
use crate::cxx::{self, DocUnit, Step};
use crate::cxxrun::*;
use crate::doc::*;
use crate::form;
use crate::hdr;
use crate::lang::*;
use crate::langdoc::*;
use crate::langgen::*;
use crate::translate::{translate, Mode};
use serde_json::{json, Value};
use std::collections::{BTreeMap, BTreeSet};
use std::time::Instant;

const PID: &str = "C01";

pub fn gen_opts() -> GenOpts {
    let mut allow = Allow::default();
    // F11 is fixed in /repo (eab8141): declarations directly in case clauses are generated
    allow.let_in_case = true;
    // F2a, F2b and the uint std::max literal are fixed as well (9efe527, 1d6f744, 231d268)
    allow.nasty_strings = true;
    allow.rem_double = true;
    allow.uint_minmax_literal = true;
    // experiments: QV_ALLOW=rem_double,enum_bitwise,... switches generator features on
    if let Ok(v) = std::env::var("QV_ALLOW") {
        for f in v.split(',') {
            match f {
                "rem_double" => allow.rem_double = true,
                "enum_bitwise" => allow.enum_bitwise = true,
                "nasty_strings" => allow.nasty_strings = true,
                "let_in_case" => allow.let_in_case = true,
                "uint_minmax_literal" => allow.uint_minmax_literal = true,
                "less_than" => allow.less_than = true,
                _ => {}
            }
        }
    }
    GenOpts { allow, max_expr_depth: 4, max_stmt_depth: 3, loose_tail: false }
}

pub fn eval_binding(b: &BindingSite, state: &[ObjState]) -> Result<(V, Vec<(usize, &'static str)>), Undef> {
    let mut objs = state.to_vec();
    let mut it = Interp { objs: &mut objs, this: b.host, locals: vec![], trace: vec![], reads: vec![], steps: 0 };
    let v = it.run(&b.program, &[])?;
    Ok((v, it.reads.clone()))
}

fn literal_ints(e: &E, out: &mut Vec<i64>) {
    // integer literals of a program: values around them flip comparisons
    let text = format!("{e:?}");
    let _ = text;
    match e {
        E::Int(v, _) | E::UInt(v, _) => out.push(*v),
        _ => {}
    }
}

fn walk_expr(e: &E, f: &mut dyn FnMut(&E)) {
    f(e);
    match e {
        E::Prop(a, ..) | E::Un(_, a) | E::Cast(a, _) | E::IsEmpty(a) | E::Paren(a) => walk_expr(a, f),
        E::Bin(_, a, b) | E::Max(a, b) | E::Min(a, b) | E::Arg(a, b) | E::Subscript(a, b) => {
            walk_expr(a, f);
            walk_expr(b, f);
        }
        E::Ternary(a, b, c) => {
            walk_expr(a, f);
            walk_expr(b, f);
            walk_expr(c, f);
        }
        E::Array(xs) | E::ConsoleLog(_, xs) => xs.iter().for_each(|x| walk_expr(x, f)),
        E::CallMethod(o, _, xs, _) => {
            walk_expr(o, f);
            xs.iter().for_each(|x| walk_expr(x, f));
        }
        E::AssignProp(o, _, v) => {
            walk_expr(o, f);
            walk_expr(v, f);
        }
        E::AssignLocal(_, v) => walk_expr(v, f),
        E::AssignSubscript(_, a, b) => {
            walk_expr(a, f);
            walk_expr(b, f);
        }
        _ => {}
    }
}

fn walk_stmt(s: &S, f: &mut dyn FnMut(&E)) {
    match s {
        S::Expr(e) => walk_expr(e, f),
        S::Decl(_, _, _, Some(e)) => walk_expr(e, f),
        S::Block(ss) => ss.iter().for_each(|x| walk_stmt(x, f)),
        S::If(c, a, b) => {
            walk_expr(c, f);
            walk_stmt(a, f);
            if let Some(b) = b {
                walk_stmt(b, f);
            }
        }
        S::Switch(v, cases, def) => {
            walk_expr(v, f);
            for (l, b) in cases {
                walk_expr(l, f);
                b.iter().for_each(|x| walk_stmt(x, f));
            }
            if let Some((_, b)) = def {
                b.iter().for_each(|x| walk_stmt(x, f));
            }
        }
        S::Return(Some(e)) => walk_expr(e, f),
        _ => {}
    }
}

pub fn walk_program(p: &Program, f: &mut dyn FnMut(&E)) {
    match &p.body {
        Body::Expr(e) => walk_expr(e, f),
        Body::Block(ss) => ss.iter().for_each(|s| walk_stmt(s, f)),
    }
}

/// a new value for a property, preferring values that flip a branch of some program
pub fn gen_change(ch: &mut Chooser, t: &T, world: &World, ints: &[i64], strs: &[String]) -> V {
    match t {
        T::Int if !ints.is_empty() && ch.chance(1, 2) => {
            let base = *ch.pick(ints);
            let v = base + ch.range(-1, 1);
            V::Int(v.clamp(i32::MIN as i64, i32::MAX as i64))
        }
        T::Uint if !ints.is_empty() && ch.chance(1, 2) => {
            let base = *ch.pick(ints);
            V::Uint((base + ch.range(-1, 1)).clamp(0, u32::MAX as i64))
        }
        T::Double if !ints.is_empty() && ch.chance(1, 3) => V::Double(*ch.pick(ints) as f64 + ch.range(-1, 1) as f64 * 0.5),
        T::Str if !strs.is_empty() && ch.chance(1, 3) => V::Str(ch.pick(strs).clone()),
        _ => gen_value_of(ch, t, world),
    }
}

pub struct Prepared {
    pub doc: LangDoc,
    pub qml: String,
    pub header: Vec<u8>,
    pub form: form::Form,
    pub state: Vec<ObjState>,
    /// indices into doc.bindings of the bindings that became eval functions
    pub dynamic: Vec<usize>,
    pub folded: usize,
    /// bindings on properties of source objects (binding chains), in dependency order; their
    /// targets are not free: `settle` recomputes them after every change
    pub derived: Vec<BindingSite>,
}

pub enum Prep {
    Ok(Box<Prepared>),
    Skip(&'static str),
    Fail(Failure),
}

/// Generates a document of bindings with an initial state in which every binding is defined,
/// and translates it.
pub fn prepare(ch: &mut Chooser, name: &str, nb: usize, opts: &GenOpts) -> Prep {
    prepare_with(ch, name, nb, opts, 0)
}

/// Recomputes the derived source properties in dependency order (each reads only objects with
/// a lower index).
pub fn settle(derived: &[BindingSite], state: &mut [ObjState]) -> Result<(), Undef> {
    for d in derived {
        let (v, _) = eval_binding(d, state)?;
        state[d.host].props.insert(d.prop, v);
    }
    Ok(())
}

/// small derived bindings `aH.p: f(aL.…)` with L < H, built as programs of the language
fn gen_derived(ch: &mut Chooser, world: &World, n: usize) -> Vec<BindingSite> {
    let srcs = world.of_class("VSrc");
    let mut out: Vec<BindingSite> = vec![];
    for _ in 0..n {
        if srcs.len() < 2 {
            break;
        }
        let h = srcs[1 + ch.below(srcs.len() - 1)];
        let l = srcs[ch.below(srcs.iter().position(|x| *x == h).unwrap())];
        let rd = |p: &'static str, t: T| E::Prop(Box::new(E::Obj(l)), p, t);
        let (prop, ty, e): (&'static str, T, E) = match ch.below(6) {
            0 => ("i0", T::Int, E::Bin(BinOp::Add, Box::new(rd("i0", T::Int)), Box::new(E::Int(1, "1".into())))),
            1 => ("i1", T::Int, E::Ternary(Box::new(rd("b0", T::Bool)), Box::new(rd("i0", T::Int)), Box::new(rd("i1", T::Int)))),
            2 => ("s0", T::Str, E::Bin(BinOp::Add, Box::new(rd("s0", T::Str)), Box::new(E::Str("x".into(), "\"x\"".into())))),
            3 => ("b0", T::Bool, E::Un(UnOp::Not, Box::new(rd("b0", T::Bool)))),
            4 => ("s1", T::Str, E::Ternary(Box::new(rd("b1", T::Bool)), Box::new(rd("s1", T::Str)), Box::new(rd("s0", T::Str)))),
            _ => ("d0", T::Double, E::Bin(BinOp::Mul, Box::new(rd("d0", T::Double)), Box::new(E::Float(0.5, "0.5".into())))),
        };
        if out.iter().any(|d| d.host == h && d.prop == prop) {
            continue;
        }
        ch.label("binding-chain-through-source-property");
        out.push(BindingSite { host: h, bind: 0, prop, program: Program { ty, body: Body::Expr(e), locals: vec![], params: 0 } });
    }
    out.sort_by_key(|d| d.host);
    out
}

pub fn prepare_with(ch: &mut Chooser, name: &str, nb: usize, opts: &GenOpts, n_derived: usize) -> Prep {
    prepare_full(ch, name, nb, opts, n_derived, false)
}

/// members of gadget-valued target properties that get generated (dynamic) bindings
const GADGET_MEMBERS: &[(&str, T)] = &[("tfont.bold", T::Bool), ("tfont.pointSize", T::Int), ("tfont.italic", T::Bool), ("tpol.horizontalStretch", T::Int), ("tpol.verticalStretch", T::Int)];

pub fn prepare_full(ch: &mut Chooser, name: &str, nb: usize, opts: &GenOpts, n_derived: usize, gadgets: bool) -> Prep {
    let mut doc = gen_lang_doc(ch, nb, 0, opts);
    if gadgets {
        // grouped bindings on gadget-valued properties: dynamic members, sometimes next to a constant one
        let hosts: Vec<usize> = doc.world.exactly("VDst");
        for h in hosts {
            if !ch.chance(1, 2) {
                continue;
            }
            let mut used: Vec<&str> = vec![];
            for _ in 0..1 + ch.below(3) {
                let (path, ty) = ch.pick(GADGET_MEMBERS).clone();
                if used.contains(&path) {
                    continue;
                }
                used.push(path);
                ch.label("gadget-member-binding");
                let program = gen_binding(ch, &doc.world, h, &ty, None, opts.clone());
                doc.bindings.push(BindingSite { host: h, bind: 0, prop: path, program });
            }
            if used.iter().any(|p| p.starts_with("tfont.")) && ch.chance(1, 2) {
                ch.label("gadget-constant-member-next-to-dynamic");
                let lit = E::Str("Mono".into(), "\"Mono\"".into());
                doc.bindings.push(BindingSite { host: h, bind: 0, prop: "tfont.family", program: Program { ty: T::Str, body: Body::Expr(lit), locals: vec![], params: 0 } });
            }
        }
    }
    let mut derived = if n_derived > 0 { gen_derived(ch, &doc.world, n_derived) } else { vec![] };
    // initial state: the candidate with the most defined bindings
    let mut best: Option<(usize, Vec<ObjState>)> = None;
    for _ in 0..5 {
        let mut st = gen_world_state(ch, &doc.world);
        if settle(&derived, &mut st).is_err() {
            continue;
        }
        let defined = doc.bindings.iter().filter(|b| eval_binding(b, &st).is_ok()).count();
        if best.as_ref().map(|(n, _)| defined > *n).unwrap_or(true) {
            best = Some((defined, st));
        }
        if defined == doc.bindings.len() {
            break;
        }
    }
    let state = match best {
        Some((_, st)) => st,
        None => {
            // no candidate state settles the derived properties: go without them
            derived.clear();
            gen_world_state(ch, &doc.world)
        }
    };
    // bindings undefined in the initial state are dropped (they cannot be executed at all)
    let keep: Vec<BindingSite> = doc.bindings.iter().filter(|b| eval_binding(b, &state).is_ok()).cloned().collect();
    if keep.is_empty() {
        return Prep::Skip("no binding defined in the initial state");
    }
    for o in doc.root.children.iter_mut() {
        o.binds.clear();
    }
    let mut kept = vec![];
    for mut b in keep {
        let text = print_program(&b.program, &doc.world.objs, 2);
        let o = &mut doc.root.children[b.host];
        o.binds.push(Bind::new(b.prop, text));
        b.bind = o.binds.len() - 1;
        kept.push(b);
    }
    doc.bindings = kept;
    for d in derived.iter_mut() {
        let text = print_program(&d.program, &doc.world.objs, 2);
        let o = &mut doc.root.children[d.host];
        o.binds.push(Bind::new(d.prop, text));
        d.bind = o.binds.len() - 1;
    }
    let printed = print_doc(DEFAULT_IMPORTS, &doc.root, Style::default());
    let t = translate(&printed.text, name, Mode::Generate);
    if let Some(p) = &t.panic {
        return Prep::Fail(Failure { key: "c01-panic".into(), what: format!("translator panicked: {p}"), detail: json!({"qml": printed.text}) });
    }
    if !t.accepted() {
        return Prep::Skip("generated program rejected (judged by C05)");
    }
    let (Some(ui), Some(header)) = (t.ui.as_deref(), t.header.clone()) else { return Prep::Skip("no output") };
    let form = match form::decode(ui) {
        Ok(f) => f,
        Err(_) => return Prep::Skip("ui not decodable (judged by C09)"),
    };
    let h = match hdr::scan(&String::from_utf8_lossy(&header)) {
        Ok(h) => h,
        Err(_) => return Prep::Skip("header not scannable (judged by C06/C16)"),
    };
    let mut dynamic = vec![];
    let mut folded = 0;
    for (k, b) in doc.bindings.iter().enumerate() {
        let f = format!("eval{}{}", cap(&doc.world.objs[b.host].id), b.prop.split('.').map(cap).collect::<String>());
        if h.funcs.iter().any(|x| x.name == f) {
            dynamic.push(k);
        } else {
            folded += 1;
        }
    }
    Prep::Ok(Box::new(Prepared { doc, qml: printed.text, header, form, state, dynamic, folded, derived }))
}

pub fn expect_of(p: &Prepared, state: &[ObjState]) -> Result<Vec<(String, String, String)>, Undef> {
    let names = obj_names(&p.doc.world);
    let mut out = vec![];
    for k in &p.dynamic {
        let b = &p.doc.bindings[*k];
        let (v, _) = eval_binding(b, state)?;
        out.push((names[b.host].clone(), b.prop.to_owned(), cxx::enc_value(&v, &names)));
    }
    Ok(out)
}

pub fn build_case(ch: &mut Chooser, name: &str) -> Built {
    let nb = 3 + ch.below(10);
    let p = match prepare(ch, name, nb, &gen_opts()) {
        Prep::Ok(p) => p,
        Prep::Skip(w) => return Built::Skip(w),
        Prep::Fail(f) => return Built::Fail(f),
    };
    if p.dynamic.is_empty() {
        return Built::Skip("every binding was folded into the .ui (C03's domain)");
    }
    let world = &p.doc.world;
    let names = obj_names(world);
    let mut state = p.state.clone();
    // what the programs read and mention
    let mut reads: Vec<(usize, &'static str)> = vec![];
    let mut ints: Vec<i64> = vec![];
    let mut strs: Vec<String> = vec![];
    for k in &p.dynamic {
        let b = &p.doc.bindings[*k];
        if let Ok((_, r)) = eval_binding(b, &state) {
            reads.extend(r);
        }
        walk_program(&b.program, &mut |e| {
            literal_ints(e, &mut ints);
            if let E::Str(s, _) = e {
                strs.push(s.clone());
            }
        });
    }
    reads.sort();
    reads.dedup();
    let mut steps = vec![Step { desc: "setup()".into(), cxx: "support.setup();".into(), tracing: false, expect: expect_of(&p, &state).expect("defined by construction"), expect_trace: vec![] }];
    let n_steps = 3 + ch.below(7);
    let mut dropped = 0u64;
    let mut distinct: BTreeMap<usize, BTreeSet<String>> = BTreeMap::new();
    for (i, e) in steps[0].expect.iter().enumerate() {
        distinct.entry(i).or_default().insert(e.2.clone());
    }
    for _ in 0..n_steps {
        let (obj, prop) = if !reads.is_empty() && ch.chance(3, 4) {
            *ch.pick(&reads)
        } else {
            let srcs = world.of_class("VSrc");
            let o = *ch.pick(&srcs);
            (o, ch.pick(SRC_PROPS).0)
        };
        if !is_src_class(world.objs[obj].class) {
            continue;
        }
        let ty = SRC_PROPS.iter().find(|(n, _)| *n == prop).map(|(_, t)| t.clone()).unwrap();
        let v = gen_change(ch, &ty, world, &ints, &strs);
        let old = state[obj].props.insert(prop, v.clone());
        match expect_of(&p, &state) {
            Ok(exp) => {
                for (i, e) in exp.iter().enumerate() {
                    distinct.entry(i).or_default().insert(e.2.clone());
                }
                // reads may change with the state (other branch, other chain)
                for k in &p.dynamic {
                    if let Ok((_, r)) = eval_binding(&p.doc.bindings[*k], &state) {
                        for x in r {
                            if !reads.contains(&x) {
                                reads.push(x);
                            }
                        }
                    }
                }
                steps.push(Step { desc: format!("{}.{} = {}", names[obj], prop, cxx::enc_value(&v, &names)), cxx: cxx_set(world, obj, prop, &v), tracing: false, expect: exp, expect_trace: vec![] });
            }
            Err(_) => {
                dropped += 1;
                state[obj].props.insert(prop, old.unwrap());
            }
        }
    }
    let moved = distinct.values().filter(|s| s.len() >= 2).count();
    let branchy = ["switch", "ternary", "if-else", "folded-subtree", "logical-and", "logical-or", "early-return", "else-if-chain"].iter().any(|l| ch.labels.contains(l));
    let nontrivial = (moved >= 1 && branchy).then(|| stable_hash(&p.qml));
    if let Ok(l) = std::env::var("QV_DUMP_LABEL") {
        if ch.labels.iter().any(|x| *x == l) {
            let _ = std::fs::create_dir_all("/tmp/cx/dump");
            let _ = std::fs::write(format!("/tmp/cx/dump/{name}.qml"), &p.qml);
        }
    }
    let unit = DocUnit { name: name.to_owned(), header: p.header.clone(), form: p.form.clone(), init: cxx_init(world, &p.state), steps };
    let sample = json!({"qml": p.qml, "steps": unit.steps.iter().map(|s| s.desc.clone()).collect::<Vec<_>>(), "last_values": unit.steps.last().map(|s| s.expect.clone())});
    Built::Case(Box::new(CxxCase {
        qml: p.qml.clone(),
        nontrivial,
        labels: ch.labels.clone(),
        counters: vec![
            ("bindings_executed", p.dynamic.len() as u64),
            ("bindings_folded_into_ui", p.folded as u64),
            ("steps_dropped_undefined", dropped),
            ("bindings_with_two_or_more_values", moved as u64),
        ],
        sample,
        unit,
    }))
}

fn key_of(_c: &CxxCase, kind: &str, msg: &str) -> String {
    let _ = msg;
    format!("c01-{kind}")
}

pub fn replay(v: &Value) -> Outcome {
    if v["qml"].is_string() && v["steps"].is_array() {
        return match unit_from_json(v) {
            Ok((u, qml)) => match run_single(&u, "C01r") {
                None => Outcome::pass(None),
                Some((kind, msg)) => Outcome::fail(format!("c01-{kind}"), msg.clone(), json!({"qml": qml, "why": msg, "header": String::from_utf8_lossy(&u.header)})),
            },
            // a program that is now rejected is not executed (C05 judges rejections)
            Err(_) => Outcome::pass(None),
        };
    }
    match choices_from_json(v) {
        Some(c) => {
            let mut ch = Chooser::new(&c);
            match build_case(&mut ch, "R0") {
                Built::Case(case) => match run_single(&case.unit, "C01r") {
                    None => Outcome::pass(None),
                    Some((kind, msg)) => Outcome::fail(key_of(&case, &kind, &msg), msg.clone(), case_detail(&case, &msg)),
                },
                Built::Skip(w) => Outcome::skip(w),
                Built::Fail(f) => Outcome { verdict: Verdict::Fail(f), nontrivial: None, sample: None, counters: vec![] },
            }
        }
        None => Outcome::skip("replay file without choices"),
    }
}

pub fn run(env: &Env, known: &Known, started: Instant, replayed: u64, replay_violations: Vec<Violation>) -> i32 {
    let cfg = Campaign { env, pid: PID, part: "programs", cases: env.tier.pick(384, 12000), max_len: 4000, per_tu: 6, known, shrink_steps: 24 };
    let rr = campaign(&cfg, build_case, &key_of);
    let ev = Evidence {
        env, pid: PID, level: "exploration",
        rule: "documents of 3-12 generated binding programs (type-directed from the expression/statement language of DESIGN 2.4: arithmetic incl. / % << >> on negative operands, uint, double, strings, enums/flags, pointers and chains, lists, ternary, && ||, if/else, switch with fall-through/break/default anywhere, let/const, early return, literal-only sub-trees next to dynamic ones) over 2-4 source objects; each is translated, its support header compiled with g++ -std=c++17 (UBSan: bounds, signed overflow, shift, division) against an API model emitted from the same metatypes, and run through the real setup()/update…()/eval…() path in an initial state plus 3-9 single-property changes chosen to flip branches; after every step every bound target is printed by the compiled code and compared (ints/enums decimal, doubles bit-exact via %a, strings by UTF-16 units, pointers by object) with the reference interpreter's value of the source program in that state. Steps where the reference semantics is undefined (32-bit overflow, null dereference, bad subscript, division by zero) are dropped and counted. Non-trivial = document with a branch construct or folded sub-tree in which at least one binding took two different values over the steps; distinct by document text.",
        assumptions: vec![
            "the API model's setters store and notify only on change, getters return the stored value (Qt's documented convention for the modelled property kinds)".into(),
            "the mock's QString::arg / translate are the same functions as the reference interpreter's".into(),
        ],
        extra: json!({"compiler": "g++ -std=c++17 -O0 -fsanitize=bounds,signed-integer-overflow,shift,integer-divide-by-zero,float-cast-overflow -fno-sanitize-recover=all -Werror=return-type"}),
    };
    finish(&ev, rr.stats, rr.violations, replayed, replay_violations, started)
}
