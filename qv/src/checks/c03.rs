//! C03 — values embedded in the .ui equal the value of their source expression
//! (DESIGN.md section 3, C03).

use super::finish;
use crate::common::*;
use crate::doc::*;
use crate::form::{self, FValue};
use crate::lang::*;
use crate::translate::{translate, Mode};
use serde_json::{json, Value};
use std::collections::BTreeSet;
use std::time::Instant;

const PID: &str = "C03";

/// constant value per the statement (integers are mathematical integers within i64)
#[derive(Clone, Debug, PartialEq)]
pub enum CV {
    Int(i64),
    Double(f64),
    Bool(bool),
    Str(String),
}

#[derive(Clone, Debug, PartialEq, Eq)]
pub enum Rej {
    /// the value is undefined: must be rejected
    DivByZero,
    Overflow64,
    BadShift,
    /// outside what this check judges (non-finite double, ambiguous string order)
    Skip(&'static str),
}

fn shl64(l: i64, r: i64) -> Result<i64, Rej> {
    if !(0..64).contains(&r) {
        return Err(Rej::BadShift);
    }
    let v = l.wrapping_shl(r as u32);
    if v >> r != l {
        return Err(Rej::Overflow64);
    }
    Ok(v)
}

/// The harness' own constant evaluator: checked i64, IEEE doubles with fmod, Unicode strings.
pub fn ceval(e: &E) -> Result<CV, Rej> {
    Ok(match e {
        E::Int(v, _) | E::UInt(v, _) => CV::Int(*v),
        E::Float(v, _) => CV::Double(*v),
        E::Str(s, _) => CV::Str(s.clone()),
        E::Bool(b) => CV::Bool(*b),
        E::Paren(a) => ceval(a)?,
        E::Un(op, a) => match (op, ceval(a)?) {
            (UnOp::Plus, v @ (CV::Int(_) | CV::Double(_))) => v,
            (UnOp::Minus, CV::Int(x)) => CV::Int(x.checked_neg().ok_or(Rej::Overflow64)?),
            (UnOp::Minus, CV::Double(x)) => CV::Double(-x),
            (UnOp::BitNot, CV::Int(x)) => CV::Int(!x),
            (UnOp::Not, CV::Bool(b)) => CV::Bool(!b),
            _ => return Err(Rej::Skip("ill-typed")),
        },
        E::Bin(op, l, r) => {
            use BinOp::*;
            match (op, ceval(l)?, ceval(r)?) {
                (Add, CV::Int(x), CV::Int(y)) => CV::Int(x.checked_add(y).ok_or(Rej::Overflow64)?),
                (Sub, CV::Int(x), CV::Int(y)) => CV::Int(x.checked_sub(y).ok_or(Rej::Overflow64)?),
                (Mul, CV::Int(x), CV::Int(y)) => CV::Int(x.checked_mul(y).ok_or(Rej::Overflow64)?),
                (Div, CV::Int(x), CV::Int(y)) => {
                    if y == 0 {
                        return Err(Rej::DivByZero);
                    }
                    CV::Int(x.checked_div(y).ok_or(Rej::Overflow64)?)
                }
                (Rem, CV::Int(x), CV::Int(y)) => {
                    if y == 0 {
                        return Err(Rej::DivByZero);
                    }
                    CV::Int(x.checked_rem(y).ok_or(Rej::Overflow64)?)
                }
                (Add | Sub | Mul | Div | Rem, CV::Double(x), CV::Double(y)) => {
                    let v = match op {
                        Add => x + y,
                        Sub => x - y,
                        Mul => x * y,
                        Div => x / y,
                        _ => x % y,
                    };
                    if !v.is_finite() {
                        return Err(Rej::Skip("non-finite double"));
                    }
                    CV::Double(v)
                }
                (Add, CV::Str(x), CV::Str(y)) => CV::Str(x + &y),
                (BitAnd, CV::Int(x), CV::Int(y)) => CV::Int(x & y),
                (BitXor, CV::Int(x), CV::Int(y)) => CV::Int(x ^ y),
                (BitOr, CV::Int(x), CV::Int(y)) => CV::Int(x | y),
                (BitAnd, CV::Bool(x), CV::Bool(y)) => CV::Bool(x & y),
                (BitXor, CV::Bool(x), CV::Bool(y)) => CV::Bool(x ^ y),
                (BitOr, CV::Bool(x), CV::Bool(y)) => CV::Bool(x | y),
                (Shl, CV::Int(x), CV::Int(y)) => CV::Int(shl64(x, y)?),
                (Shr, CV::Int(x), CV::Int(y)) => {
                    if !(0..64).contains(&y) {
                        return Err(Rej::BadShift);
                    }
                    CV::Int(x >> y)
                }
                (Eq | StrictEq | Ne | StrictNe | Lt | Le | Gt | Ge, a, b) => {
                    let o = match (&a, &b) {
                        (CV::Int(x), CV::Int(y)) => x.cmp(y),
                        (CV::Double(x), CV::Double(y)) => x.partial_cmp(y).ok_or(Rej::Skip("NaN"))?,
                        (CV::Bool(x), CV::Bool(y)) => x.cmp(y),
                        (CV::Str(x), CV::Str(y)) => {
                            if matches!(op, Lt | Le | Gt | Ge) && x.chars().chain(y.chars()).any(|c| c as u32 >= 0xD800) {
                                return Err(Rej::Skip("string order differs between UTF-16 and code points"));
                            }
                            x.cmp(y)
                        }
                        _ => return Err(Rej::Skip("ill-typed")),
                    };
                    use std::cmp::Ordering::*;
                    CV::Bool(match op {
                        Eq | StrictEq => o == Equal,
                        Ne | StrictNe => o != Equal,
                        Lt => o == Less,
                        Le => o != Greater,
                        Gt => o == Greater,
                        _ => o != Less,
                    })
                }
                _ => return Err(Rej::Skip("ill-typed")),
            }
        }
        _ => return Err(Rej::Skip("not a constant expression of this check")),
    })
}

#[derive(Clone, Copy, PartialEq, Eq, Debug)]
pub enum K {
    Int,
    Double,
    Str,
    Bool,
}

pub struct G<'c, 'a> {
    pub ch: &'c mut Chooser<'a>,
    /// aim at undefined values
    pub undefined: bool,
}

impl G<'_, '_> {
    fn int_lit(&mut self) -> E {
        let v: u64 = match self.ch.weighted(&[45, 25, 10, 10, 10]) {
            0 => self.ch.below(20) as u64,
            1 => self.ch.below(100_000) as u64,
            2 => *self.ch.pick(&[255u64, 256, 65535, 65536, 2147483647, 2147483648, 4294967295, 4294967296]),
            3 => *self.ch.pick(&[(1u64 << 53) - 1, 1 << 53, (1 << 53) + 1, (1 << 62), (1 << 63) - 1, 999_999_999_999_999_999]),
            _ => self.ch.raw() as u64 * (1 + self.ch.below(1 << 20) as u64),
        };
        let s = spell_uint(self.ch, v);
        E::Int(v as i64, s)
    }

    pub fn expr(&mut self, k: K, depth: usize) -> E {
        let leaf = depth == 0 || self.ch.chance(1, 3);
        let e = match k {
            K::Int => {
                if leaf {
                    self.int_lit()
                } else {
                    match self.ch.below(12) {
                        0 => E::Un(UnOp::Minus, Box::new(self.expr(K::Int, depth - 1))),
                        1 => E::Un(UnOp::Plus, Box::new(self.expr(K::Int, depth - 1))),
                        2 => E::Un(UnOp::BitNot, Box::new(self.expr(K::Int, depth - 1))),
                        3 | 4 => {
                            let op = *self.ch.pick(&[BinOp::Add, BinOp::Sub, BinOp::Mul]);
                            E::Bin(op, Box::new(self.expr(K::Int, depth - 1)), Box::new(self.expr(K::Int, depth - 1)))
                        }
                        5 | 6 => {
                            let op = *self.ch.pick(&[BinOp::Div, BinOp::Rem]);
                            let r = if self.undefined && self.ch.chance(1, 2) {
                                self.ch.pick(&[E::Int(0, "0".into()), E::Bin(BinOp::Sub, Box::new(E::Int(3, "3".into())), Box::new(E::Int(3, "0b11".into()))), E::Int(0, "0x0".into())]).clone()
                            } else {
                                self.expr(K::Int, depth - 1)
                            };
                            E::Bin(op, Box::new(self.expr(K::Int, depth - 1)), Box::new(r))
                        }
                        7 => {
                            let op = *self.ch.pick(&[BinOp::BitAnd, BinOp::BitXor, BinOp::BitOr]);
                            E::Bin(op, Box::new(self.expr(K::Int, depth - 1)), Box::new(self.expr(K::Int, depth - 1)))
                        }
                        8 | 9 => {
                            let op = *self.ch.pick(&[BinOp::Shl, BinOp::Shr]);
                            let count = if self.undefined {
                                *self.ch.pick(&[-1i64, -3, 64, 65, 63, 62, 100, 4294967296])
                            } else {
                                self.ch.below(20) as i64
                            };
                            let c = if count < 0 { E::Un(UnOp::Minus, Box::new(E::Int(-count, (-count).to_string()))) } else { E::Int(count, count.to_string()) };
                            E::Bin(op, Box::new(self.expr(K::Int, depth - 1)), Box::new(c))
                        }
                        _ => E::Paren(Box::new(self.expr(K::Int, depth - 1))),
                    }
                }
            }
            K::Double => {
                if leaf {
                    let (v, s) = spell_float(self.ch);
                    E::Float(v, s)
                } else {
                    match self.ch.below(6) {
                        0 => E::Un(UnOp::Minus, Box::new(self.expr(K::Double, depth - 1))),
                        1 => E::Un(UnOp::Plus, Box::new(self.expr(K::Double, depth - 1))),
                        _ => {
                            let op = *self.ch.pick(&[BinOp::Add, BinOp::Sub, BinOp::Mul, BinOp::Div, BinOp::Rem]);
                            E::Bin(op, Box::new(self.expr(K::Double, depth - 1)), Box::new(self.expr(K::Double, depth - 1)))
                        }
                    }
                }
            }
            K::Str => {
                if leaf {
                    let s = gen_lit_string_in(self.ch, true, true);
                    let sp = spell_string(self.ch, &s);
                    E::Str(s, sp)
                } else {
                    E::Bin(BinOp::Add, Box::new(self.expr(K::Str, depth - 1)), Box::new(self.expr(K::Str, depth - 1)))
                }
            }
            K::Bool => {
                if leaf {
                    E::Bool(self.ch.chance(1, 2))
                } else {
                    match self.ch.below(8) {
                        0 => E::Un(UnOp::Not, Box::new(self.expr(K::Bool, depth - 1))),
                        1 => {
                            let op = *self.ch.pick(&[BinOp::BitAnd, BinOp::BitXor, BinOp::BitOr]);
                            E::Bin(op, Box::new(self.expr(K::Bool, depth - 1)), Box::new(self.expr(K::Bool, depth - 1)))
                        }
                        _ => {
                            // (`<` is left to a probe of C05: the parser dependency may take it for type arguments)
                            let op = *self.ch.pick(&[BinOp::Eq, BinOp::Ne, BinOp::StrictEq, BinOp::StrictNe, BinOp::Le, BinOp::Gt, BinOp::Ge]);
                            let kk = *self.ch.pick(&[K::Int, K::Int, K::Double, K::Str, K::Bool]);
                            E::Bin(op, Box::new(self.expr(kk, depth - 1)), Box::new(self.expr(kk, depth - 1)))
                        }
                    }
                }
            }
        };
        e
    }
}

#[derive(Clone, Debug)]
struct Slot {
    prop: &'static str,
    text: String,
    expect: Exp,
    nontrivial: bool,
}

#[derive(Clone, Debug, PartialEq)]
enum Exp {
    Value(CV, bool /* tr */),
    EnumSet(BTreeSet<String>, bool /* flag */),
    StrList(Vec<String>, bool),
    Cstring(String),
}

fn op_classes(e: &E, out: &mut BTreeSet<u8>) {
    match e {
        E::Un(_, a) => {
            out.insert(0);
            op_classes(a, out)
        }
        E::Bin(op, l, r) => {
            out.insert(match op {
                BinOp::Add | BinOp::Sub | BinOp::Mul | BinOp::Div | BinOp::Rem => 1,
                BinOp::BitAnd | BinOp::BitOr | BinOp::BitXor => 2,
                BinOp::Shl | BinOp::Shr => 3,
                _ => 4,
            });
            op_classes(l, out);
            op_classes(r, out);
        }
        E::Paren(a) => op_classes(a, out),
        _ => {}
    }
}

fn is_plain_literal(e: &E) -> bool {
    match e {
        E::Int(v, s) => v.to_string() == *s,
        E::Float(_, s) => s.parse::<f64>().is_ok() && !s.starts_with('.') && !s.ends_with('.') && !s.contains('e'),
        E::Str(v, s) => format!("\"{v}\"") == *s,
        E::Bool(_) => true,
        _ => false,
    }
}

const NO_LOCALS: &[LocalInfo] = &[];

fn text_of(e: &E) -> String {
    print_expr(e, &Names { objs: &[], locals: NO_LOCALS })
}

fn check_slot(fo: &form::FObj, s: &Slot) -> Option<(String, String)> {
    let Some(p) = fo.prop(s.prop) else {
        // not embedded: the translator decided the expression is not constant; that is C04's business
        return Some(("not-embedded".into(), format!("{}: {} is not embedded as a constant", s.prop, s.text)));
    };
    let ok = match (&s.expect, &p.value) {
        (Exp::Value(CV::Int(v), _), FValue::Number(t)) => t.parse::<i128>().map(|x| x == *v as i128).unwrap_or(false),
        (Exp::Value(CV::Double(v), _), FValue::Number(t)) => t.parse::<f64>().map(|x| x.to_bits() == v.to_bits() || (x == 0.0 && *v == 0.0)).unwrap_or(false),
        (Exp::Value(CV::Bool(v), _), FValue::Bool(b)) => v == b,
        (Exp::Value(CV::Str(v), tr), FValue::Str { text, notr }) => v == text && *notr != *tr,
        (Exp::EnumSet(set, flag), FValue::Enum(t)) if !*flag => set.len() == 1 && set.contains(t),
        (Exp::EnumSet(set, flag), FValue::Set(t)) if *flag => &t.split('|').map(|x| x.to_owned()).collect::<BTreeSet<_>>() == set,
        (Exp::StrList(items, tr), FValue::StringList { items: got, notr }) => items == got && (*notr != *tr),
        (Exp::Cstring(n), FValue::Cstring(t)) => n == t,
        _ => false,
    };
    if ok {
        None
    } else {
        let aspect = match &s.expect {
            Exp::Value(CV::Int(v), _) if v.unsigned_abs() > (1u64 << 53) => "int-beyond-2-53",
            Exp::Value(CV::Int(_), _) => "int",
            Exp::Value(CV::Double(_), _) => "double",
            Exp::Value(CV::Bool(_), _) => "bool",
            Exp::Value(CV::Str(_), _) => "string",
            Exp::EnumSet(..) => "enum",
            Exp::StrList(..) => "stringlist",
            Exp::Cstring(_) => "object-ref",
        };
        Some((aspect.into(), format!("{}: {} embeds {:?}, the expression denotes {:?}", s.prop, s.text, p.value, s.expect)))
    }
}

fn gen_valid_slot(ch: &mut Chooser, prop: &'static str, ty: &T) -> Option<Slot> {
    let depth = ch.weighted(&[30, 30, 20, 12, 8]);
    let k = match ty {
        T::Int | T::Uint => K::Int,
        T::Double => K::Double,
        T::Str => K::Str,
        T::Bool => K::Bool,
        T::Mode => {
            let v = *ch.pick(MODES);
            return Some(Slot { prop, text: format!("VSrc.{v}"), expect: Exp::EnumSet([format!("VSrc::{v}")].into(), false), nontrivial: false });
        }
        T::Opts => {
            let n = 1 + ch.below(3);
            let mut vs: Vec<&str> = vec![];
            for _ in 0..n {
                let v = *ch.pick(OPTS);
                if !vs.contains(&v) {
                    vs.push(v);
                }
            }
            ch.label("const-flag-set");
            return Some(Slot { prop, text: vs.iter().map(|v| format!("VSrc.{v}")).collect::<Vec<_>>().join(" | "), expect: Exp::EnumSet(vs.iter().map(|v| format!("VSrc::{v}")).collect(), true), nontrivial: vs.len() > 1 });
        }
        T::ListStr => {
            let n = ch.below(4);
            let tr = n > 0 && ch.chance(1, 3);
            let mut items = vec![];
            let mut texts = vec![];
            for _ in 0..n {
                let s = gen_lit_string_in(ch, true, true);
                let sp = spell_string(ch, &s);
                texts.push(if tr { format!("qsTr({sp})") } else { sp });
                items.push(s);
            }
            ch.label("const-string-list");
            return Some(Slot { prop, text: format!("[{}]", texts.join(", ")), expect: Exp::StrList(items, tr), nontrivial: true });
        }
        T::Ptr(_) => {
            ch.label("const-object-ref");
            return Some(Slot { prop, text: "other".into(), expect: Exp::Cstring("other".into()), nontrivial: false });
        }
        _ => return None,
    };
    let mut g = G { ch, undefined: false };
    let e = g.expr(k, depth);
    let v = match ceval(&e) {
        Ok(v) => v,
        Err(_) => return None, // undefined or skipped: not a valid slot
    };
    // range discipline of the target type: the statement speaks about the value; keep uint >= 0
    if let (T::Uint, CV::Int(x)) = (ty, &v) {
        if *x < 0 {
            return None;
        }
    }
    let (text, tr) = if k == K::Str && matches!(e, E::Str(..)) && ch.chance(1, 4) {
        ch.label("const-qsTr");
        (format!("qsTr({})", text_of(&e)), true)
    } else {
        (text_of(&e), false)
    };
    let mut classes = BTreeSet::new();
    op_classes(&e, &mut classes);
    let nontrivial = classes.len() >= 2 || (classes.is_empty() && !is_plain_literal(&e));
    match k {
        K::Int => ch.label("const-int"),
        K::Double => ch.label("const-double"),
        K::Str => ch.label("const-string"),
        K::Bool => ch.label("const-bool"),
    }
    Some(Slot { prop, text, expect: Exp::Value(v, tr), nontrivial })
}

const SLOTS: &[(&str, T)] = &[
    ("i0", T::Int), ("i1", T::Int), ("ov", T::Int), ("u0", T::Uint), ("d0", T::Double), ("d1", T::Double), ("r0", T::Double), ("b0", T::Bool), ("b1", T::Bool),
    ("s0", T::Str), ("s1", T::Str), ("e0", T::Mode), ("f0", T::Opts), ("sl0", T::ListStr), ("p0", T::Ptr("VSrc")),
];

fn run_valid(ch: &mut Chooser) -> Outcome {
    // 1-3 VSrc objects with up to 15 constant bindings each
    let nobj = 1 + ch.below(3);
    let mut root = Obj::new("QWidget");
    root.children.push(Obj::new("VSrc").with_id("other"));
    let mut slots: Vec<Vec<Slot>> = vec![];
    for _ in 0..nobj {
        let mut o = Obj::new("VSrc");
        let mut ss = vec![];
        for (p, t) in SLOTS {
            if ch.chance(2, 3) {
                if let Some(s) = gen_valid_slot(ch, p, t) {
                    o.binds.push(Bind::new(*p, s.text.clone()));
                    ss.push(s);
                }
            }
        }
        slots.push(ss);
        root.children.push(o);
    }
    let printed = print_doc(DEFAULT_IMPORTS, &root, Style::default());
    let t = translate(&printed.text, "T", Mode::Generate);
    let detail = |why: &str| json!({"qml": printed.text, "why": why, "ui": t.ui_str(), "diagnostics": t.diag_summary(), "panic": t.panic});
    if let Some(p) = &t.panic {
        return Outcome::fail("c03-panic", format!("translator panicked: {p}"), detail(p));
    }
    let n: u64 = slots.iter().map(|s| s.len() as u64).sum();
    if !t.accepted() {
        // a rejected spelling/expression is not C03's business (C05 judges acceptance); count it
        if std::env::var_os("QV_DEBUG_REJECT").is_some() {
            eprintln!("REJECTED: {:?}\n{}", t.diag_summary(), printed.text);
        }
        return Outcome::skip("valid constant document rejected (judged by C05)").count("bindings", n);
    }
    let f = match form::decode(t.ui.as_deref().unwrap_or_default()) {
        Ok(f) => f,
        Err(e) => return Outcome::fail("c03-undecodable", e.clone(), detail(&e)),
    };
    let mut nontrivial = false;
    let mut not_embedded = 0u64;
    for (i, ss) in slots.iter().enumerate() {
        let fo = &f.root.children[i + 1].obj;
        for s in ss {
            nontrivial |= s.nontrivial;
            if let Some((aspect, why)) = check_slot(fo, s) {
                if aspect == "not-embedded" {
                    not_embedded += 1;
                    continue;
                }
                return Outcome::fail(format!("c03-wrong-{aspect}"), why.clone(), detail(&why));
            }
        }
    }
    Outcome::pass(nontrivial.then(|| stable_hash(&printed.text)))
        .count("bindings", n)
        .count("not_embedded_as_constant", not_embedded)
        .with_sample(ch.want_sample.then(|| json!({"qml": printed.text})))
}

/// (c) undefined constants and (d) integer-vs-float typing: exactly one offending binding.
fn run_invalid(ch: &mut Chooser) -> Outcome {
    let (prop, text, why): (&str, String, &'static str) = if ch.chance(3, 4) {
        // search the generator for an undefined value
        let mut found = None;
        for _ in 0..40 {
            let mut g = G { ch, undefined: true };
            let d = 1 + g.ch.below(3);
            let e = g.expr(K::Int, d);
            match ceval(&e) {
                Err(Rej::DivByZero) => {
                    found = Some((text_of(&e), "division by zero"));
                    break;
                }
                Err(Rej::Overflow64) => {
                    found = Some((text_of(&e), "64-bit overflow"));
                    break;
                }
                Err(Rej::BadShift) => {
                    found = Some((text_of(&e), "negative or too large shift count"));
                    break;
                }
                _ => {}
            }
        }
        let Some((t, w)) = found else { return Outcome::skip("no undefined constant found in 40 draws") };
        match w {
            "division by zero" => ch.label("undefined-division-by-zero"),
            "64-bit overflow" => ch.label("undefined-64-bit-overflow"),
            _ => ch.label("undefined-shift"),
        }
        ("i0", t, w)
    } else {
        // integer-vs-float typing
        let mut g = G { ch, undefined: false };
        if g.ch.chance(1, 2) {
            let d = g.ch.below(2);
            let e = g.expr(K::Int, d);
            if ceval(&e).is_err() {
                return Outcome::skip("draw was undefined");
            }
            g.ch.label("typing-int-for-double");
            ("d0", text_of(&e), "integer constant bound to a double property")
        } else {
            let d = g.ch.below(2);
            let e = g.expr(K::Double, d);
            if ceval(&e).is_err() {
                return Outcome::skip("draw was undefined");
            }
            g.ch.label("typing-double-for-int");
            ("i0", text_of(&e), "floating-point constant bound to an int property")
        }
    };
    let root = Obj::new("QWidget").child(Obj::new("VSrc").bind("b0", "true").bind(prop, text.clone()).bind("s0", "\"x\""));
    let printed = print_doc(DEFAULT_IMPORTS, &root, Style::default());
    let t = translate(&printed.text, "T", Mode::Generate);
    let detail = |w: &str| json!({"qml": printed.text, "why": w, "ui": t.ui_str(), "diagnostics": t.diag_summary(), "panic": t.panic});
    if let Some(p) = &t.panic {
        return Outcome::fail("c03-panic", format!("translator panicked: {p}"), detail(p));
    }
    let key = match why {
        "division by zero" => "c03-embeds-division-by-zero",
        "64-bit overflow" => "c03-embeds-64-bit-overflow",
        "negative or too large shift count" => "c03-embeds-bad-shift",
        _ => "c03-mixes-int-and-double",
    };
    if t.accepted() {
        let emb = t.ui_str().unwrap_or("").to_owned();
        return Outcome::fail(key, format!("{prop}: {text} ({why}) is accepted instead of rejected"), detail(&emb));
    }
    let span = &printed.bind_spans[&(vec![0], 1)];
    if !t.errors().any(|d| span.start <= d.start && d.end <= span.end) {
        return Outcome::fail(format!("{key}-no-diagnostic"), format!("{prop}: {text} ({why}): no error inside the binding; diagnostics {:?}", t.diag_summary()), detail(why));
    }
    Outcome::pass(Some(stable_hash(&text))).with_sample(ch.want_sample.then(|| json!({"binding": format!("{prop}: {text}"), "expected": format!("rejected: {why}")})))
}

/// Probe for the known finding in the parser dependency: `x REL y < z` nests to the right.
fn run_relational_chain_probe(ch: &mut Chooser) -> Outcome {
    let lits = ["1", "2", "3", "0", "true", "false"];
    let ints = ch.chance(1, 2);
    let pick = |ch: &mut Chooser| -> &str { if ints { lits[ch.below(4)] } else { lits[4 + ch.below(2)] } };
    let (x, y, z) = (pick(ch).to_owned(), pick(ch).to_owned(), pick(ch).to_owned());
    let op1 = *ch.pick(&["<", "<=", ">", ">="]);
    let op2 = *ch.pick(&["<", "<=", ">", ">="]);
    // ECMAScript: relational operators associate to the left
    let val = |a: &str| -> CV { match a { "true" => CV::Bool(true), "false" => CV::Bool(false), n => CV::Int(n.parse().unwrap()) } };
    let rel = |op: &str, a: &CV, b: &CV| -> Option<bool> {
        let o = match (a, b) { (CV::Int(p), CV::Int(q)) => p.cmp(q), (CV::Bool(p), CV::Bool(q)) => p.cmp(q), _ => return None };
        use std::cmp::Ordering::*;
        Some(match op { "<" => o == Less, "<=" => o != Greater, ">" => o == Greater, _ => o != Less })
    };
    let Some(first) = rel(op1, &val(&x), &val(&y)) else { return Outcome::skip("ill-typed draw") };
    let Some(expected) = rel(op2, &CV::Bool(first), &val(&z)) else {
        // (x REL y) is bool: z must be bool for a well-typed chain
        return Outcome::skip("ill-typed chain (bool compared with int)");
    };
    let text = format!("{x} {op1} {y} {op2} {z}");
    let root = Obj::new("QWidget").child(Obj::new("VSrc").bind("b0", text.clone()));
    let printed = print_doc(DEFAULT_IMPORTS, &root, Style::default());
    let t = translate(&printed.text, "T", Mode::Generate);
    let detail = json!({"qml": printed.text, "ui": t.ui_str(), "diagnostics": t.diag_summary(), "expected": expected});
    if !t.accepted() {
        // typed differently because of the wrong nesting: also the finding
        return Outcome::fail("c03-relational-chain-nests-right", format!("b0: {text} is rejected: the chain is not read as ({x} {op1} {y}) {op2} {z}"), detail);
    }
    let got = t.ui_str().map(|u| u.contains("<bool>true</bool>"));
    if got != Some(expected) {
        let key = if op2 == "<" { "c03-relational-chain-nests-right" } else { "c03-relational-chain-other" };
        return Outcome::fail(key, format!("b0: {text} embeds {:?}; ECMAScript reads it as ({x} {op1} {y}) {op2} {z} = {expected}", got), detail);
    }
    Outcome::pass(Some(stable_hash(&text)))
}

pub fn replay(v: &Value) -> Outcome {
    let part = v["part"].as_str().unwrap_or("");
    match choices_from_json(v) {
        Some(c) => {
            let mut ch = Chooser::new(&c);
            if part == "undefined-and-typing" {
                run_invalid(&mut ch)
            } else if part == "relational-chain-probe" {
                run_relational_chain_probe(&mut ch)
            } else {
                run_valid(&mut ch)
            }
        }
        None => {
            // text replay: {"binding_prop": "i0", "binding_text": "1 << 63", "expect": "rejected"}
            let (Some(p), Some(t)) = (v["binding_prop"].as_str(), v["binding_text"].as_str()) else {
                return Outcome::skip("replay file without choices or binding");
            };
            let root = Obj::new("QWidget").child(Obj::new("VSrc").bind(p, t));
            let printed = print_doc(DEFAULT_IMPORTS, &root, Style::default());
            let tr = translate(&printed.text, "T", Mode::Generate);
            let detail = json!({"qml": printed.text, "ui": tr.ui_str(), "diagnostics": tr.diag_summary()});
            match v["expect"].as_str() {
                Some("rejected") => {
                    if tr.accepted() {
                        Outcome::fail(v["key"].as_str().unwrap_or("c03-embeds-undefined").to_owned(), format!("{p}: {t} is accepted"), detail)
                    } else {
                        Outcome::pass(None)
                    }
                }
                Some(num) => {
                    let got = tr.ui_str().and_then(|u| form::decode(u.as_bytes()).ok()).and_then(|f| f.root.children[0].obj.prop(p).map(|x| format!("{:?}", x.value)));
                    if tr.accepted() && got.as_deref() != Some(&format!("Number({num:?})")) {
                        Outcome::fail(v["key"].as_str().unwrap_or("c03-wrong-int").to_owned(), format!("{p}: {t} embeds {:?}, expected {num}", got), detail)
                    } else {
                        Outcome::pass(None)
                    }
                }
                None => Outcome::skip("replay file without expectation"),
            }
        }
    }
}

/// String escape forms that ECMAScript defines but the translator may not support (it may reject
/// them): identity escapes, line continuations, legacy octal escapes. If a literal using them is
/// accepted, the embedded value must be the ECMAScript value.
fn run_optional_escapes(ch: &mut Chooser) -> Outcome {
    let q = if ch.chance(1, 3) { '\'' } else { '"' };
    let mut text = String::new();
    let mut value = String::new();
    text.push(q);
    let n = 1 + ch.below(4);
    let mut forms = 0u64;
    for _ in 0..n {
        // plain run
        for _ in 0..ch.below(3) {
            let c = *ch.pick(&['a', 'Z', '0', '7', '8', ' ', '-', '/', 'é', '%']);
            text.push(c);
            value.push(c);
        }
        forms += 1;
        match ch.below(6) {
            0 => {
                // identity escape (NonEscapeCharacter): the character itself
                ch.label("escape-identity");
                let c = *ch.pick(&['/', '-', 'q', 'A', ' ', '%', '8', '9', '#', 'é', 'z', 'c', 'e', 'a']);
                text.push('\\');
                text.push(c);
                value.push(c);
            }
            1 => {
                // line continuation: contributes nothing
                ch.label("escape-line-continuation");
                text.push('\\');
                text.push_str(*ch.pick(&["\n", "\r\n", "\r", "\u{2028}", "\u{2029}"]));
            }
            2 => {
                // legacy octal, one digit, not followed by an octal digit
                ch.label("escape-legacy-octal");
                let d = 1 + ch.below(7) as u32;
                text.push_str(&format!("\\{d}"));
                value.push(char::from_u32(d).unwrap());
                let follow = *ch.pick(&['8', '9', 'a', ' ', '"']);
                if follow != q && follow != '"' {
                    text.push(follow);
                    value.push(follow);
                }
            }
            3 => {
                // legacy octal, two or three digits (ZeroToThree OctalDigit OctalDigit / FourToSeven OctalDigit)
                ch.label("escape-legacy-octal");
                let v = *ch.pick(&[0o12u32, 0o101, 0o377, 0o40, 0o7, 0o77, 0o141, 0o60]);
                let sp = if v >= 0o100 || ch.chance(1, 2) { format!("\\{v:o}") } else { format!("\\{v:02o}") };
                // \400 is \40 followed by '0': keep values below 0o400 and terminate with a non-octal character
                text.push_str(&sp);
                value.push(char::from_u32(v).unwrap());
                text.push('x');
                value.push('x');
            }
            4 => {
                // \0 followed by 8 or 9: NUL then the digit (\0 with lookahead not a decimal digit is the only strict form)
                ch.label("escape-nul-before-non-octal-digit");
                let d = *ch.pick(&['8', '9']);
                text.push_str("\\0");
                text.push(d);
                value.push('\0');
                value.push(d);
                if ch.chance(1, 2) {
                    // NUL is not an XML character: keep this variant apart from the XML-clean ones
                    ch.label("escape-value-contains-nul");
                }
            }
            _ => {
                // standard forms as control
                ch.label("escape-standard-control-case");
                text.push_str("\\x41\\u0042\\u{43}\\t");
                value.push_str("ABC\t");
            }
        }
    }
    text.push(q);
    let qml = format!("import qmluic.QtWidgets\nQWidget {{\n    VSrc {{\n        s0: {text}\n    }}\n}}\n");
    let t = translate(&qml, "T", Mode::Generate);
    let detail = |why: &str| json!({"qml": qml, "why": why, "ui": t.ui_str(), "diagnostics": t.diag_summary(), "panic": t.panic});
    if let Some(p) = &t.panic {
        return Outcome::fail("c03-panic", format!("translator panicked: {p}"), detail(p));
    }
    if !t.accepted() {
        ch.label("optional-escape-form-rejected");
        return Outcome::pass(None).count("optional_escape_literals_rejected", 1);
    }
    if value.contains('\0') {
        // the .ui cannot carry U+0000 (known finding of C09); nothing to compare
        return Outcome::skip("value contains U+0000 (not an XML character)");
    }
    let f = match form::decode(t.ui.as_deref().unwrap_or_default()) {
        Ok(f) => f,
        Err(e) => return Outcome::fail("c03-undecodable", e.clone(), detail(&e)),
    };
    let got = f.root.children.first().and_then(|c| c.obj.prop("s0")).map(|p| p.value.clone());
    match got {
        Some(FValue::Str { text: g, .. }) if g == value => Outcome::pass(Some(stable_hash(&text))).count("optional_escape_forms_accepted_and_checked", forms),
        other => {
            let why = format!("s0: {text} embeds {other:?}, the literal denotes {value:?}");
            Outcome::fail("c03-wrong-string-escape", why.clone(), detail(&why))
        }
    }
}

/// Operators ECMAScript defines but the translator need not support (`>>>`, `**`): rejecting them is
/// fine, accepting them requires the ECMAScript value.
fn run_optional_operators(ch: &mut Chooser) -> Outcome {
    let (text, value): (String, i64) = match ch.below(3) {
        0 | 1 => {
            ch.label("operator-unsigned-right-shift");
            let a = *ch.pick(&[-8i64, -1, -2147483648, -123456, 64, 7, 0, 2147483647, -3]);
            let n = ch.below(32) as i64;
            // ToUint32(a) >>> (n & 31)
            let v = ((a as i32) as u32 >> n) as i64;
            let a_txt = if a < 0 { format!("({a})") } else { a.to_string() };
            (if ch.chance(1, 2) { format!("{a_txt} >>> {n}") } else { format!("({a_txt} >>> {n}) + 0") }, v)
        }
        _ => {
            ch.label("operator-exponentiation");
            let a = ch.range(-4, 6);
            let n = ch.below(6) as u32;
            (format!("({a}) ** {n}"), a.pow(n))
        }
    };
    let qml = format!("import qmluic.QtWidgets\nQWidget {{\n    VSrc {{\n        d0: 0.5\n        i1: {text}\n    }}\n}}\n");
    let t = translate(&qml, "T", Mode::Generate);
    let detail = |why: &str| json!({"qml": qml, "why": why, "ui": t.ui_str(), "diagnostics": t.diag_summary(), "panic": t.panic});
    if let Some(p) = &t.panic {
        return Outcome::fail("c03-panic", format!("translator panicked: {p}"), detail(p));
    }
    if !t.accepted() {
        ch.label("optional-operator-rejected");
        return Outcome::pass(None).count("optional_operator_expressions_rejected", 1);
    }
    let f = match form::decode(t.ui.as_deref().unwrap_or_default()) {
        Ok(f) => f,
        Err(e) => return Outcome::fail("c03-undecodable", e.clone(), detail(&e)),
    };
    let got = f.root.children.first().and_then(|c| c.obj.prop("i1")).map(|p| p.value.clone());
    match got {
        Some(FValue::Number(n)) if n.trim().parse::<f64>().ok() == Some(value as f64) => Outcome::pass(Some(stable_hash(&text))).count("optional_operator_expressions_accepted_and_checked", 1),
        other => {
            let why = format!("i1: {text} embeds {other:?}, the expression denotes {value}");
            Outcome::fail("c03-wrong-optional-operator", why.clone(), detail(&why))
        }
    }
}

pub fn run(env: &Env, known: &Known, started: Instant, replayed: u64, replay_violations: Vec<Violation>) -> i32 {
    let cfg = ChoiceRun { env, pid: PID, part: "constants", cases: env.tier.pick(96_000, 700_000), max_len: 1500, known };
    let mut rr = run_choices(&cfg, run_valid);
    let cfg = ChoiceRun { env, pid: PID, part: "undefined-and-typing", cases: env.tier.pick(48_000, 300_000), max_len: 200, known };
    let r2 = run_choices(&cfg, run_invalid);
    rr.stats.merge(r2.stats);
    rr.violations.extend(r2.violations);
    let cfg = ChoiceRun { env, pid: PID, part: "relational-chain-probe", cases: env.tier.pick(2_000, 20_000), max_len: 16, known };
    let r3 = run_choices(&cfg, run_relational_chain_probe);
    rr.stats.merge(r3.stats);
    rr.violations.extend(r3.violations);
    let cfg = ChoiceRun { env, pid: PID, part: "optional-escapes", cases: env.tier.pick(24_000, 200_000), max_len: 64, known };
    let r4 = run_choices(&cfg, run_optional_escapes);
    rr.stats.merge(r4.stats);
    rr.violations.extend(r4.violations);
    let cfg = ChoiceRun { env, pid: PID, part: "optional-operators", cases: env.tier.pick(3_000, 30_000), max_len: 16, known };
    let r5 = run_choices(&cfg, run_optional_operators);
    rr.stats.merge(r5.stats);
    rr.violations.extend(r5.violations);
    let ev = Evidence {
        env, pid: PID, level: "exploration",
        rule: "(f) the operators >>> and ** (defined by ECMAScript, not supported by the translator): rejecting is fine, accepting requires the ECMAScript value. (e) string literals built from escape forms ECMAScript defines but the translator need not support (identity escapes such as \\/ and \\-, line continuations with LF/CRLF/CR/LS/PS, legacy octal escapes of one to three digits, \\0 before 8/9): rejecting them is fine, accepting them requires the ECMAScript value in the .ui. (a) literal spellings generated value-first: integers 0..2^63-1 as decimal, 0x/0X, 0o/0O, 0b/0B, legacy octal, legacy leading-zero decimal, with _ separators; doubles as d.d / .d / d. / exponent forms; strings with raw characters and \\n-style, \\xHH, \\uHHHH, \\u{H} escapes in both quote styles, over ASCII, quotes, backslashes, controls, Latin-1, BMP, astral; (b) constant expressions of depth <= 4 over those literals with unary + - ~ !, + - * / %, & ^ |, << >>, all comparisons on ints/doubles/strings/bools, string +, flag sets, string lists with/without qsTr, object references, each on a property of matching type (int, uint, double, bool, QString, enum, flags, QStringList, pointer; ~15 bindings per object); (c) undefined constants (division/remainder by zero, results beyond i64 incl. by << and unary minus, negative or >= 64 shift counts) and (d) integer constants on double properties / double constants on int properties, one per document, which must be rejected with an error inside the binding. Oracle: the harness' own evaluator (checked i64, IEEE doubles, Unicode strings) vs. the value decoded from the .ui (integers as exact decimal numerals, doubles bit-equal after parsing). Non-trivial = non-canonical spelling, >= 2 operator classes, or an undefined/typing case; distinct by text hash.",
        assumptions: vec![
            "documents the translator rejects are counted, not judged (acceptance is C05's subject); expressions the translator does not treat as constant are counted as not embedded (C04's subject)".into(),
            "non-finite double results and string orderings where UTF-16 and code-point order differ are skipped".into(),
        ],
        extra: json!({}),
    };
    finish(&ev, rr.stats, rr.violations, replayed, replay_violations, started)
}
