//! C11 — the object tree and child order of the QML document are preserved
//! (DESIGN.md section 3, C11).

use super::finish;
use crate::common::*;
use crate::doc::*;
use crate::form::{self, FKind, FObj};
use crate::gen::*;
use crate::translate::{translate, Mode};
use serde_json::{json, Value};
use std::collections::BTreeMap;
use std::time::Instant;

const PID: &str = "C11";

/// What an explicit `actions: [...]` entry refers to.
#[derive(Clone, Debug, PartialEq, Eq, Hash)]
pub enum ARef {
    Obj(Vec<usize>),
    Separator,
}

/// Expected addaction sequence of the object at `path`: the explicit list if there is one,
/// else action-like children in declaration order.
pub fn expected_addactions(root: &Obj, path: &[usize], explicit: &BTreeMap<Vec<usize>, Vec<Vec<usize>>>) -> Vec<ARef> {
    let o = root.at(path);
    if let Some(list) = explicit.get(path) {
        return list
            .iter()
            .map(|p| if is_separator(root.at(p)) { ARef::Separator } else { ARef::Obj(p.clone()) })
            .collect();
    }
    o.children
        .iter()
        .enumerate()
        .filter_map(|(i, c)| {
            let mut p = path.to_vec();
            p.push(i);
            if is_separator(c) {
                Some(ARef::Separator)
            } else if kind_of(&c.class) == Kind::Action || is_menu(&c.class) {
                Some(ARef::Obj(p))
            } else {
                None
            }
        })
        .collect()
}

/// Compares the model tree with the decoded form. Returns Err((aspect, description)).
pub fn compare_tree(root: &Obj, f: &form::Form, explicit: &BTreeMap<Vec<usize>, Vec<Vec<usize>>>) -> Result<BTreeMap<Vec<usize>, String>, (String, String)> {
    // pass 1: structure, kinds, classes, ids; collect path -> emitted name
    let mut names: BTreeMap<Vec<usize>, String> = BTreeMap::new();
    fn walk(o: &Obj, fo: &FObj, path: &mut Vec<usize>, parent_is_layout: Option<bool>, item: bool, names: &mut BTreeMap<Vec<usize>, String>) -> Result<(), (String, String)> {
        let want_kind = match kind_of(&o.class) {
            Kind::Widget => FKind::Widget,
            Kind::Layout => FKind::Layout,
            Kind::Spacer => FKind::Spacer,
            Kind::Action => FKind::Action,
            Kind::Other => return Err(("model".into(), format!("class {} has no element kind", o.class))),
        };
        if fo.kind != want_kind {
            return Err(("element-kind".into(), format!("object {:?} ({}) written as {:?}, expected {:?}", path, o.class, fo.kind, want_kind)));
        }
        if matches!(want_kind, FKind::Widget | FKind::Layout) && fo.class.as_deref() != Some(o.class.as_str()) {
            return Err(("class-attribute".into(), format!("object {:?}: class attribute {:?}, expected {}", path, fo.class, o.class)));
        }
        if let Some(pl) = parent_is_layout {
            if pl != item {
                return Err(("item-wrapper".into(), format!("object {:?} ({}): wrapped in <item> = {item}, parent is a layout = {pl}", path, o.class)));
            }
        }
        if let Some(id) = &o.id {
            if &fo.name != id {
                return Err(("id-as-name".into(), format!("object {:?} has id {id} but name {:?}", path, fo.name)));
            }
        }
        names.insert(path.clone(), fo.name.clone());
        let model_children: Vec<(usize, &Obj)> = o.children.iter().enumerate().filter(|(_, c)| !is_separator(c)).collect();
        if model_children.len() != fo.children.len() {
            return Err(("child-count".into(), format!("object {:?} ({}): {} child elements {:?}, expected {} {:?}", path, o.class, fo.children.len(),
                fo.children.iter().map(|c| c.obj.class.clone().unwrap_or(format!("{:?}", c.obj.kind))).collect::<Vec<_>>(),
                model_children.len(), model_children.iter().map(|(_, c)| c.class.clone()).collect::<Vec<_>>())));
        }
        let is_layout = want_kind == FKind::Layout;
        for ((i, c), fc) in model_children.iter().zip(&fo.children) {
            path.push(*i);
            // a wrong sibling order shows as a kind/class/id mismatch at some position
            let r = walk(c, &fc.obj, path, Some(is_layout), fc.item.is_some(), names);
            path.pop();
            r.map_err(|(a, d)| if a == "class-attribute" || a == "element-kind" || a == "id-as-name" { (format!("order-or-{a}"), d) } else { (a, d) })?;
        }
        Ok(())
    }
    walk(root, &f.root, &mut vec![], None, false, &mut names)?;
    // pass 2: addaction sequences
    for (path, o) in root.flat() {
        if kind_of(&o.class) != Kind::Widget {
            continue;
        }
        let fo = {
            // re-find by walking the same indices (skipping separators)
            let mut cur = &f.root;
            let mut m = root;
            for i in &path {
                let pos = m.children.iter().enumerate().filter(|(_, c)| !is_separator(c)).position(|(k, _)| k == *i).unwrap();
                cur = &cur.children[pos].obj;
                m = &m.children[*i];
            }
            cur
        };
        let want: Vec<String> = expected_addactions(root, &path, explicit)
            .into_iter()
            .map(|r| match r {
                ARef::Separator => "separator".to_owned(),
                ARef::Obj(p) => names.get(&p).cloned().unwrap_or_else(|| "<unnamed>".into()),
            })
            .collect();
        if fo.addactions != want {
            let aspect = if explicit.contains_key(&path) { "explicit-actions-list" } else { "implicit-addactions" };
            return Err((aspect.into(), format!("object {:?} ({}): addaction sequence {:?}, expected {:?}", path, o.class, fo.addactions, want)));
        }
    }
    Ok(names)
}

pub struct Case {
    pub root: Obj,
    pub explicit: BTreeMap<Vec<usize>, Vec<Vec<usize>>>,
    pub illegal: Option<&'static str>,
}

pub fn gen_case(ch: &mut Chooser) -> Case {
    let cfg = TreeCfg::default();
    let mut root = gen_tree(ch, &cfg);
    assign_plain_ids(ch, &mut root, 1, 2);
    let mut expects = vec![];
    decorate_simple(ch, &mut root, 2, StrMode::Plain, &mut expects);
    let _ = expects;
    // explicit actions lists
    let mut explicit = BTreeMap::new();
    let flat: Vec<(Vec<usize>, String, bool)> = root.flat().into_iter().map(|(p, o)| (p, o.class.clone(), is_separator(o))).collect();
    let actionlike: Vec<Vec<usize>> = flat.iter().filter(|(_, c, _)| kind_of(c) == Kind::Action || is_menu(c)).map(|(p, _, _)| p.clone()).collect();
    if !actionlike.is_empty() {
        let widgets: Vec<Vec<usize>> = flat.iter().filter(|(_, c, _)| kind_of(c) == Kind::Widget).map(|(p, _, _)| p.clone()).collect();
        let n = ch.weighted(&[55, 35, 10]);
        for _ in 0..n {
            let w = ch.pick(&widgets).clone();
            if explicit.contains_key(&w) || root.at(&w).binds.iter().any(|b| b.path == "actions") {
                continue;
            }
            let len = ch.below(6);
            let mut list = vec![];
            let mut texts = vec![];
            for _ in 0..len {
                let p = ch.pick(&actionlike).clone();
                let o = root.at_mut(&p);
                if o.id.is_none() {
                    o.id = Some(format!("r{}", p.iter().map(|i| i.to_string()).collect::<Vec<_>>().join("_")));
                }
                let id = o.id.clone().unwrap();
                texts.push(if is_menu(&o.class) { format!("{id}.menuAction()") } else { id });
                list.push(p);
            }
            ch.label("explicit-actions-list");
            root.at_mut(&w).binds.push(Bind::new("actions", format!("[{}]", texts.join(", "))));
            explicit.insert(w, list);
        }
    }
    // illegal nesting (low weight): if the translator accepts it anyway the tree oracle applies
    let mut illegal = None;
    if ch.chance(1, 12) {
        let flat: Vec<(Vec<usize>, Kind)> = root.flat().into_iter().map(|(p, o)| (p, kind_of(&o.class))).collect();
        let k = ch.below(4);
        let (want_parent, child, what): (Kind, Obj, &'static str) = match k {
            0 => (Kind::Widget, Obj::new("QSpacerItem"), "spacer-under-widget"),
            1 => (Kind::Layout, Obj::new("QAction"), "action-under-layout"),
            2 => (Kind::Action, Obj::new("QLabel"), "child-under-action"),
            // a separator entry has no element that could hold a child
            _ => (Kind::Action, Obj::new(*ch.pick(&["QAction", "QMenu", "QLabel"])).with_id("lostChild"), "child-under-separator"),
        };
        let cands: Vec<&Vec<usize>> = flat.iter().filter(|(p, k)| *k == want_parent && (is_separator(root.at(p)) == (what == "child-under-separator"))).map(|(p, _)| p).collect();
        if !cands.is_empty() {
            let p = (*ch.pick(&cands)).clone();
            root.at_mut(&p).children.push(child);
            illegal = Some(what);
            ch.label("illegal-nesting");
        }
    }
    Case { root, explicit, illegal }
}

fn run_case(ch: &mut Chooser) -> Outcome {
    let case = gen_case(ch);
    let style = Style { group: false, semicolons: ch.chance(1, 5), comments: ch.chance(1, 8), children_first: ch.chance(1, 6) };
    let printed = print_doc(DEFAULT_IMPORTS, &case.root, style);
    let t = translate(&printed.text, "T", Mode::Generate);
    let detail = |why: &str| json!({"qml": printed.text, "why": why, "ui": t.ui_str(), "diagnostics": t.diag_summary(), "panic": t.panic});
    if let Some(p) = &t.panic {
        return Outcome::fail("c11-panic", format!("translator panicked: {p}"), detail(p));
    }
    if !t.accepted() {
        if case.illegal.is_some() {
            return Outcome::pass(None);
        }
        return Outcome::fail("c11-rejects-legal-tree", format!("legal tree rejected: {:?}", t.diag_summary()), detail("rejected"));
    }
    let f = match form::decode(t.ui.as_deref().unwrap_or_default()) {
        Ok(f) => f,
        Err(e) => return Outcome::fail("c11-undecodable", e.clone(), detail(&e)),
    };
    if case.illegal == Some("child-under-separator") && f.root.find("lostChild").is_none() {
        let why = "the document is accepted but the object `lostChild`, declared as a child of a separator action, appears nowhere in the .ui".to_owned();
        return Outcome::fail("c11-object-missing", why.clone(), detail(&why));
    }
    if case.illegal == Some("child-under-separator") {
        return Outcome::pass(None);
    }
    let n = case.root.count();
    let depth = case.root.depth();
    let mixed_parent = case.root.flat().iter().any(|(_, o)| {
        o.children.len() >= 3 && o.children.iter().map(|c| kind_of(&c.class)).collect::<std::collections::BTreeSet<_>>().len() >= 2
    });
    let nt = (depth >= 3 && mixed_parent).then(|| stable_hash(&case.root));
    match compare_tree(&case.root, &f, &case.explicit) {
        Ok(_) => Outcome::pass(nt)
            .count("objects", n as u64)
            .with_sample(ch.want_sample.then(|| json!({"qml": printed.text, "objects": n, "depth": depth}))),
        Err((aspect, why)) => Outcome::fail(format!("c11-{aspect}"), why.clone(), detail(&why)),
    }
}

pub fn replay(v: &Value) -> Outcome {
    match choices_from_json(v) {
        Some(c) => run_case(&mut Chooser::new(&c)),
        None => Outcome::skip("replay file without choices"),
    }
}

pub fn run(env: &Env, known: &Known, started: Instant, replayed: u64, replay_violations: Vec<Violation>) -> i32 {
    verify_catalogue();
    let cfg = ChoiceRun { env, pid: PID, part: "trees", cases: env.tier.pick(120_000, 1_200_000), max_len: 600, known };
    let rr = run_choices(&cfg, run_case);
    let ev = Evidence {
        env, pid: PID, level: "exploration",
        rule: "legal object trees (1-60 objects, depth<=6, fan-out<=7) over widgets, the four layouts, spacers, actions, separators, menus, menu/tool/status bars, tab widgets and main windows, with uniformly shuffled sibling order, ids on half of the objects, explicit `actions: [...]` lists (subset, reordered, repeated, with separators and menu.menuAction()), and a low-weight illegal-nesting family; oracle = expected element tree computed from the model (element kind from the metatypes' inheritance, class attribute, <item> iff parent is a layout, sibling order, addaction sequence) compared with the .ui decoded by the independent XML reader. Non-trivial = depth>=3 and some parent with >=3 children of >=2 kinds; distinct by tree hash.",
        assumptions: vec![
            "QML type name of a Qt class equals its C++ class name".into(),
            "illegal nestings are only checked when the translator accepts them (the statement speaks about accepted documents)".into(),
        ],
        extra: json!({}),
    };
    finish(&ev, rr.stats, rr.violations, replayed, replay_violations, started)
}
