//! C04 — every binding is embedded, generated, or diagnosed; errors write nothing
//! (DESIGN.md section 3, C04).

use super::c11::compare_tree;
use super::finish;
use crate::common::*;
use crate::doc::*;
use crate::form::{self};
use crate::gen::*;
use crate::hdr;
use crate::translate::{self, translate, Mode};
use rayon::prelude::*;
use serde_json::{json, Value};
use std::collections::BTreeMap;
use std::os::unix::fs::MetadataExt;
use std::time::Instant;

const PID: &str = "C04";

pub struct Case {
    pub root: Obj,
    pub expects: Vec<Expect>,
    pub dyns: Vec<Dyn>,
    /// mixed gadget bindings: (object path, gadget property, setter, constant member names)
    pub mixed: Vec<(Vec<usize>, &'static str, &'static str, Vec<String>)>,
}

pub fn gen_accepted(ch: &mut Chooser) -> Case {
    let cfg = TreeCfg { max_objects: 25, ..TreeCfg::default() };
    let mut root = gen_tree(ch, &cfg);
    plant_sources(ch, &mut root, 1, 2);
    assign_plain_ids(ch, &mut root, 1, 3);
    let mut expects = vec![];
    decorate(ch, &mut root, 4, StrMode::Plain, true, &mut expects);
    let mut dyns = vec![];
    add_dynamic(ch, &mut root, 1, 2, &mut dyns);
    // mixed gadget: constant and dynamic members in one grouped value
    let mut mixed = vec![];
    let srcs = sources_in(&root);
    if !srcs.is_empty() {
        let paths: Vec<Vec<usize>> = root.flat().into_iter().filter(|(_, o)| kind_of(&o.class) == Kind::Widget).map(|(p, _)| p).collect();
        for p in paths {
            if !ch.chance(1, 8) {
                continue;
            }
            let o = root.at(&p);
            if o.binds.iter().any(|b| b.path == "font" || b.path.starts_with("font.")) {
                continue;
            }
            let Some(e) = gen_dyn_expr(ch, &srcs, "int") else { continue };
            let Some(b) = gen_dyn_expr(ch, &srcs, "bool") else { continue };
            let o = root.at_mut(&p);
            let mut consts = vec![];
            if ch.chance(2, 3) {
                o.binds.push(Bind::new("font.bold", "true"));
                consts.push("bold".to_owned());
            }
            o.binds.push(Bind::new("font.pointSize", e));
            if ch.chance(1, 2) {
                o.binds.push(Bind::new("font.italic", b));
            }
            ch.label("gadget-mixed-members");
            mixed.push((p.clone(), "font", "setFont", consts));
        }
    }
    Case { root, expects, dyns, mixed }
}

fn access(names: &BTreeMap<Vec<usize>, String>, p: &[usize]) -> String {
    if p.is_empty() {
        "this->root_".to_owned()
    } else {
        format!("this->ui_->{}", names[p])
    }
}

/// Checks "in exactly one place" for an accepted document.
pub fn check_accepted(case: &Case, ui: &[u8], header: &str) -> Result<usize, (String, String)> {
    let f = form::decode(ui).map_err(|e| ("undecodable".to_owned(), e))?;
    let names = compare_tree(&case.root, &f, &BTreeMap::new()).map_err(|(a, w)| (format!("tree-{a}"), w))?;
    let h = hdr::scan(header).map_err(|e| ("header-unscannable".to_owned(), e))?;
    // constant bindings: in the .ui with the right value ...
    check_expects(&case.root, &f, &case.expects).map_err(|(a, w)| (format!("constant-not-in-ui-{a}"), w))?;
    // ... and not in the header
    let updates: Vec<&hdr::Func> = h.funcs.iter().filter(|fu| fu.name.starts_with("update")).collect();
    let setter_calls = |acc: &str, setter: &str| -> usize { updates.iter().filter(|fu| fu.body.iter().any(|l| l.trim().starts_with(&format!("{acc}->{setter}(")))).count() };
    let m = crate::meta::meta();
    // several properties may share one setter (QLCDNumber.value / intValue -> display): count per (object, setter)
    let dyn_with_setter = |obj: &[usize], w: &str| -> usize { case.dyns.iter().filter(|d| d.obj == obj && matches!(&d.kind, DynKind::Binding { setter, .. } if setter == w)).count() };
    for e in &case.expects {
        if let Surface::Prop(n) = &e.surface {
            let o = case.root.at(&e.obj);
            if let Some(pi) = m.prop(&o.class, n) {
                if let Some(w) = &pi.write {
                    if setter_calls(&access(&names, &e.obj), w) > dyn_with_setter(&e.obj, w) && !case.mixed.iter().any(|(p, g, _, _)| *p == e.obj && g == n) {
                        return Err(("constant-also-in-header".into(), format!("constant binding {n} of {:?} is in the .ui and also has an update function", e.obj)));
                    }
                }
            }
        }
    }
    // dynamic bindings: exactly one update function, a BindingIndex entry, and no value in the .ui
    let mut n_checked = case.expects.len();
    for d in &case.dyns {
        let o = case.root.at(&d.obj);
        let acc = access(&names, &d.obj);
        let b = &o.binds[d.bind];
        match &d.kind {
            DynKind::Binding { prop, setter } => {
                let k = setter_calls(&acc, setter);
                if k != dyn_with_setter(&d.obj, setter) {
                    return Err((if k == 0 { "dynamic-binding-in-neither" } else { "dynamic-binding-twice" }.into(), format!("dynamic binding `{}: {}` of {:?}: {k} update functions call {acc}->{setter}(...)", b.path, b.value, d.obj)));
                }
                if let Some(fo) = fobj_at(&case.root, &f, &d.obj) {
                    if fo.prop(prop).is_some() {
                        return Err(("dynamic-binding-also-in-ui".into(), format!("dynamic binding `{}: {}` also has a <property> in the .ui", b.path, b.value)));
                    }
                }
            }
            DynKind::Handler { signal } => {
                let setups: Vec<&hdr::Func> = h.funcs.iter().filter(|fu| fu.name.starts_with("setup")).collect();
                let k = setups
                    .iter()
                    .filter(|fu| hdr::Header::connects(fu).iter().any(|c| c.sender == acc && c.signal.ends_with(&format!("::{signal}")) && c.lambda.contains("this->on")))
                    .count();
                if k != 1 {
                    return Err((if k == 0 { "handler-in-neither" } else { "handler-twice" }.into(), format!("handler `{}` of {:?}: {k} setup functions connect {acc} ... ::{signal}", b.path, d.obj)));
                }
            }
        }
        n_checked += 1;
    }
    for (p, gadget, setter, consts) in &case.mixed {
        let acc = access(&names, p);
        if setter_calls(&acc, setter) != 1 {
            return Err(("mixed-gadget-in-neither".into(), format!("mixed gadget binding {gadget} of {:?}: no single update function calls {acc}->{setter}(...)", p)));
        }
        // constant members may be repeated in the .ui; if so with the same value (bold: true)
        if let Some(fo) = fobj_at(&case.root, &f, p) {
            if let Some(pr) = fo.prop(gadget) {
                if let form::FValue::Other(el) = &pr.value {
                    for c in consts {
                        if let Some(x) = el.first(&c.to_ascii_lowercase()) {
                            if x.text() != "true" {
                                return Err(("mixed-gadget-constant-differs".into(), format!("constant member {c} of {gadget} is repeated in the .ui with another value: {}", x.text())));
                            }
                        }
                    }
                }
            }
        }
        n_checked += 1;
    }
    // the number of BindingIndex entries equals the number of update functions
    if h.binding_indices.len() != updates.len() {
        return Err(("binding-index-count".into(), format!("{} BindingIndex entries for {} update functions", h.binding_indices.len(), updates.len())));
    }
    Ok(n_checked)
}

fn run_accepted(ch: &mut Chooser) -> Outcome {
    let case = gen_accepted(ch);
    let style = Style { group: ch.chance(1, 3), semicolons: false, comments: false, children_first: false };
    let printed = print_doc(DEFAULT_IMPORTS, &case.root, style);
    let t = translate(&printed.text, "T", Mode::Generate);
    let detail = |why: &str| json!({"qml": printed.text, "why": why, "ui": t.ui_str(), "header": t.header_str(), "diagnostics": t.diag_summary(), "panic": t.panic});
    if let Some(p) = &t.panic {
        return Outcome::fail("c04-panic", format!("translator panicked: {p}"), detail(p));
    }
    if !t.accepted() {
        return Outcome::fail("c04-rejects-valid", format!("valid document rejected: {:?}", t.diag_summary()), detail("rejected"));
    }
    match check_accepted(&case, t.ui.as_deref().unwrap_or_default(), t.header_str().unwrap_or("")) {
        Ok(n) => {
            let kinds: std::collections::BTreeSet<&str> = case.expects.iter().map(|e| e.kind).collect();
            let nt = (kinds.len() >= 3 && !case.dyns.is_empty()).then(|| stable_hash(&printed.text));
            Outcome::pass(nt).count("bindings_checked", n as u64).with_sample(ch.want_sample.then(|| json!({"qml": printed.text, "constant_bindings": case.expects.len(), "dynamic_bindings_and_handlers": case.dyns.len()})))
        }
        Err((a, why)) => Outcome::fail(format!("c04-{a}"), why.clone(), detail(&why)),
    }
}

pub struct Faulted {
    pub root: Obj,
    pub fault: Fault,
}

pub fn gen_faulted(ch: &mut Chooser) -> Option<Faulted> {
    let case = gen_accepted(ch);
    let mut root = case.root;
    let kinds: Vec<&'static str> = BINDING_FAULTS.iter().chain(OBJECT_FAULTS).copied().collect();
    let fault = plant_fault(ch, &mut root, &kinds)?;
    Some(Faulted { root, fault })
}

fn fault_spans(printed: &Printed, fault: &Fault) -> Vec<std::ops::Range<usize>> {
    match &fault.site {
        FaultSite::Bind { obj, bind } => {
            let mut v = vec![];
            if let Some(g) = printed.group_spans.get(&(obj.clone(), *bind)) {
                v.push(g.clone());
            }
            v.push(printed.bind_spans[&(obj.clone(), *bind)].clone());
            if (fault.kind.starts_with("duplicate") || fault.kind == "nested-dynamic-in-group") && *bind > 0 {
                v.push(printed.bind_spans[&(obj.clone(), bind - 1)].clone());
            }
            v
        }
        FaultSite::Object { path } => vec![printed.obj_spans[path].clone()],
    }
}

fn run_faulted(ch: &mut Chooser) -> Outcome {
    let Some(case) = gen_faulted(ch) else { return Outcome::skip("fault kind had no host in this document") };
    ch.label(case.fault.kind);
    let style = Style { group: ch.chance(1, 4), semicolons: false, comments: false, children_first: false };
    let printed = print_doc(DEFAULT_IMPORTS, &case.root, style);
    let t = translate(&printed.text, "T", Mode::Generate);
    let detail = |why: &str| json!({"qml": printed.text, "fault": format!("{:?}", case.fault), "why": why, "diagnostics": t.diag_summary(), "panic": t.panic});
    if let Some(p) = &t.panic {
        return Outcome::fail("c04-panic", format!("translator panicked: {p}"), detail(p));
    }
    if t.accepted() {
        return Outcome::fail(format!("c04-accepts-{}", case.fault.kind), format!("document with a planted {} is accepted", case.fault.kind), detail("accepted"));
    }
    let spans = fault_spans(&printed, &case.fault);
    if !t.errors().any(|d| spans.iter().any(|s| s.start <= d.start && d.end <= s.end)) {
        return Outcome::fail(format!("c04-diagnostic-outside-{}", case.fault.kind), format!("planted {}: no error diagnostic lies within the text of the faulty binding {:?}; diagnostics {:?}", case.fault.kind, spans, t.diag_summary()), detail("span"));
    }
    let path = match &case.fault.site {
        FaultSite::Bind { obj, .. } => obj.clone(),
        FaultSite::Object { path } => path.clone(),
    };
    let nt = (!path.is_empty() || case.root.count() >= 4).then(|| stable_hash(&printed.text));
    Outcome::pass(nt).with_sample(ch.want_sample.then(|| json!({"fault": case.fault.kind, "first_error": t.errors().next().map(|d| d.message.clone())})))
}

/// Through the real binary: exit status 1, existing outputs untouched, nothing created.
fn check_cli_faulted(qml: &str, kind: &str) -> Result<(), Failure> {
    let dir = scratch_dir("c04");
    let d = dir.path();
    std::fs::write(d.join("Doc.qml"), qml).unwrap();
    std::fs::write(d.join("doc.ui"), b"OLD UI CONTENT\n").unwrap();
    std::fs::write(d.join("uisupport_doc.h"), b"// OLD HEADER CONTENT\n").unwrap();
    let snap = |p: &std::path::Path| -> BTreeMap<String, (u64, i64, i64, u64, Vec<u8>)> {
        let mut m = BTreeMap::new();
        for e in std::fs::read_dir(p).unwrap().flatten() {
            let md = e.metadata().unwrap();
            m.insert(e.file_name().to_string_lossy().into_owned(), (md.ino(), md.mtime(), md.mtime_nsec(), md.len(), std::fs::read(e.path()).unwrap_or_default()));
        }
        m
    };
    let before = snap(d);
    let r = translate::run_cli(d, &translate::foreign_types(), &["Doc.qml".to_owned()], 60);
    if r.timed_out {
        return Ok(());
    }
    let after = snap(d);
    let mk = |k: &str, why: String| Failure { key: format!("c04-cli-{k}"), what: why, detail: json!({"qml": qml, "fault": kind, "status": r.status, "stderr": r.stderr, "files_before": before.keys().collect::<Vec<_>>(), "files_after": after.keys().collect::<Vec<_>>()}) };
    if r.status != Some(1) {
        return Err(mk("status", format!("planted {kind}: exit status {:?} (signal {:?}), expected 1", r.status, r.signal)));
    }
    if before != after {
        let changed: Vec<&String> = after.keys().filter(|k| before.get(*k) != after.get(*k)).chain(before.keys().filter(|k| !after.contains_key(*k))).collect();
        return Err(mk("outputs-touched", format!("planted {kind}: files created or modified although the command failed: {:?}", changed)));
    }
    // the same faulty source next to a valid one, in both orders: the command still exits non-zero and
    // the faulty source's outputs stay untouched (whether the valid source is translated is not specified)
    for faulty_first in [true, false] {
        let dir2 = scratch_dir("c04m");
        let d2 = dir2.path();
        std::fs::write(d2.join("Doc.qml"), qml).unwrap();
        std::fs::write(d2.join("Other.qml"), "import qmluic.QtWidgets\nQWidget {\n    QLabel { text: \"fine\" }\n}\n").unwrap();
        std::fs::write(d2.join("doc.ui"), b"OLD UI CONTENT\n").unwrap();
        std::fs::write(d2.join("uisupport_doc.h"), b"// OLD HEADER CONTENT\n").unwrap();
        let args: Vec<String> = if faulty_first { vec!["Doc.qml".into(), "Other.qml".into()] } else { vec!["Other.qml".into(), "Doc.qml".into()] };
        let r2 = translate::run_cli(d2, &translate::foreign_types(), &args, 60);
        if r2.timed_out {
            continue;
        }
        let mk2 = |k: &str, why: String| Failure { key: format!("c04-cli-{k}"), what: why, detail: json!({"qml": qml, "fault": kind, "args": args, "status": r2.status, "stderr": r2.stderr.chars().take(1500).collect::<String>()}) };
        if r2.status != Some(1) {
            return Err(mk2("multi-source-status", format!("planted {kind} in Doc.qml, invoked as {:?}: exit status {:?}, expected 1", args, r2.status)));
        }
        if std::fs::read(d2.join("doc.ui")).ok().as_deref() != Some(b"OLD UI CONTENT\n".as_slice()) || std::fs::read(d2.join("uisupport_doc.h")).ok().as_deref() != Some(b"// OLD HEADER CONTENT\n".as_slice()) {
            return Err(mk2("multi-source-outputs-touched", format!("planted {kind} in Doc.qml, invoked as {:?}: doc.ui or uisupport_doc.h was modified although Doc.qml has an error", args)));
        }
    }
    Ok(())
}

pub fn replay(v: &Value) -> Outcome {
    let part = v["part"].as_str().unwrap_or("");
    match choices_from_json(v) {
        Some(c) if part == "faulted" || part == "cli" => run_faulted(&mut Chooser::new(&c)),
        Some(c) => run_accepted(&mut Chooser::new(&c)),
        None => Outcome::skip("replay file without choices"),
    }
}

pub fn run(env: &Env, known: &Known, started: Instant, replayed: u64, replay_violations: Vec<Violation>) -> i32 {
    verify_catalogue();
    let cfg = ChoiceRun { env, pid: PID, part: "accepted", cases: env.tier.pick(40_000, 400_000), max_len: 1200, known };
    let mut rr = run_choices(&cfg, run_accepted);
    let cfg = ChoiceRun { env, pid: PID, part: "faulted", cases: env.tier.pick(24_000, 250_000), max_len: 1200, known };
    let r2 = run_choices(&cfg, run_faulted);
    rr.stats.merge(r2.stats);
    rr.violations.extend(r2.violations);
    // faulted documents through the real binary
    let n_cli = env.tier.pick(200, 3000);
    let seqs = sample_choices(env, PID, "cli", n_cli, 1200);
    let results: Vec<Option<Result<(), Failure>>> = seqs
        .par_iter()
        .map(|c| {
            let mut ch = Chooser::new(c);
            let case = gen_faulted(&mut ch)?;
            let printed = print_doc(DEFAULT_IMPORTS, &case.root, Style::default());
            Some(check_cli_faulted(&printed.text, case.fault.kind))
        })
        .collect();
    let mut cli_runs = 0u64;
    for (r, c) in results.into_iter().zip(&seqs) {
        let Some(r) = r else { continue };
        cli_runs += 1;
        rr.stats.evaluations += 1;
        rr.stats.nontrivial.insert(stable_hash(c));
        if let Err(f) = r {
            if known.is_listed_known(PID, &f.key) {
                known.announce(PID, &f.key);
            } else if rr.violations.len() < 6 {
                rr.violations.push(Violation { failure: f, choices: Some(c.clone()), part: "cli".into() });
            }
        }
    }
    rr.stats.counters.insert("faulted_documents_through_the_binary".into(), cli_runs);
    translate::remove_foreign_types_file();
    // probe of the known finding: a lone `separator: false` is in neither output
    {
        let qml = "import qmluic.QtWidgets\nQMenu {\n    QAction { separator: false }\n}\n";
        let t = translate(qml, "T", Mode::Generate);
        rr.stats.evaluations += 1;
        if t.accepted() {
            let in_ui = t.ui_str().map(|u| u.contains("eparator")).unwrap_or(false);
            let in_header = t.header_str().map(|h| h.contains("setSeparator")).unwrap_or(false);
            if !in_ui && !in_header {
                let key = "c04-lone-separator-false-dropped";
                if known.is_listed_known(PID, key) {
                    known.announce(PID, key);
                    *rr.stats.known_hits.entry(key.to_owned()).or_default() += 1;
                } else {
                    rr.violations.push(Violation { failure: Failure { key: key.into(), what: "binding `separator: false` of a lone action is in neither output and not diagnosed".into(), detail: json!({"qml": qml}) }, choices: None, part: "probe".into() });
                }
            }
        }
    }
    let ev = Evidence {
        env, pid: PID, level: "exploration",
        rule: "accepted family: object trees of 1-25 objects decorated with up to 4 constant bindings per object from the whole catalogue (scalars, gadgets, palettes, brushes, icons, cursors, pixmaps, key sequences, string lists, model, default_, header maps, contents margins, attached tab properties), dynamic bindings and 1-3 handlers on half of the eligible objects, and mixed gadget maps (constant + dynamic members); oracle: every constant binding is in the decoded .ui with exactly its value and has no update function; every dynamic binding has exactly one update function calling its setter on exactly its object, a BindingIndex entry and no <property>; every handler has exactly one connect on its object and signal; BindingIndex count = update function count. Faulted family: the same documents with one planted fault of 17 kinds (unknown property/signal/attached type/object type, attached type without attached class, unconsumed attached property, ill-typed constant, ill-typed dynamic expression, unsupported expression, dynamic binding to a read-only property, handler on a non-signal, handler as map, invalid colour, duplicate property/attached binding, non-class object type): not accepted and an error diagnostic within the text of the faulty binding; through the real binary in a scratch project with pre-existing outputs: exit status 1 and every file byte-, inode- and mtime-identical, nothing created. Non-trivial: accepted = >= 3 catalogue kinds plus a dynamic binding; faulted = fault not on the root or document with >= 4 objects; distinct by text hash.",
        assumptions: vec!["'within the text of that binding' includes the enclosing group statement for grouped notation and either of the two bindings for a duplicate".into()],
        extra: json!({}),
    };
    finish(&ev, rr.stats, rr.violations, replayed, replay_violations, started)
}
