//! C18 — QML components in directories resolve as custom widgets, in any order
//! (DESIGN.md section 3, C18).

use super::finish;
use crate::common::*;
use crate::form::{self, FObj, FValue};
use crate::translate;
use rayon::prelude::*;
use serde_json::{json, Value};
use std::collections::{BTreeMap, BTreeSet};
use std::path::Path;
use std::time::Instant;

const PID: &str = "C18";

const DIRS: &[&str] = &["", "sub", "lib", "lib/inner"];
const STEMS: &[&str] = &["Alpha", "Beta", "Gamma", "Delta", "MyButton", "Panel", "Row", "FormBase", "X2", "Omega"];
/// (Qt class, a property of that class, value text, expected decoded)
const QT_BASES: &[(&str, &str, &str)] = &[
    ("QWidget", "toolTip", "\"tip\""),
    ("QDialog", "sizeGripEnabled", "true"),
    ("QFrame", "lineWidth", "3"),
    ("QPushButton", "text", "\"push\""),
    ("QLabel", "text", "\"label\""),
    ("QGroupBox", "title", "\"group\""),
];

#[derive(Clone, Debug, PartialEq, Eq)]
pub enum RootTy {
    Qt(usize),
    Comp(String),
}

#[derive(Clone, Debug)]
pub struct File {
    pub dir: usize,
    pub stem: String,
    pub root: RootTy,
    /// import strings, relative to the file's directory
    pub imports: Vec<String>,
    /// instantiated component types (in order, repeats allowed)
    pub uses: Vec<String>,
    pub is_source: bool,
}

#[derive(Clone, Debug)]
pub struct Project {
    pub dirs: Vec<&'static str>,
    pub files: Vec<File>,
    /// the project is built to contain an invalid use (cycle / not imported / missing)
    pub invalid: Option<&'static str>,
}

fn rel_import(from: &str, to: &str) -> String {
    // relative path from directory `from` to directory `to` (both relative to the project root)
    let f: Vec<&str> = from.split('/').filter(|s| !s.is_empty()).collect();
    let t: Vec<&str> = to.split('/').filter(|s| !s.is_empty()).collect();
    let mut common = 0;
    while common < f.len() && common < t.len() && f[common] == t[common] {
        common += 1;
    }
    let mut parts: Vec<String> = vec!["..".to_owned(); f.len() - common];
    parts.extend(t[common..].iter().map(|s| (*s).to_owned()));
    if parts.is_empty() {
        ".".to_owned()
    } else {
        parts.join("/")
    }
}

pub fn gen_project(ch: &mut Chooser) -> Project {
    let nd = 1 + ch.weighted(&[35, 35, 20, 10]);
    let mut dirs: Vec<&'static str> = vec![""];
    let mut pool: Vec<&'static str> = DIRS[1..].to_vec();
    while dirs.len() < nd && !pool.is_empty() {
        let d = pool.remove(ch.below(pool.len()));
        // a nested directory needs its parent to exist as a directory, which it does implicitly
        dirs.push(d);
    }
    // directory imports: arbitrary, including mutual ones and "."
    let mut dir_imports: Vec<Vec<usize>> = vec![vec![]; dirs.len()];
    for (i, imp) in dir_imports.iter_mut().enumerate() {
        for j in 0..dirs.len() {
            if i != j && ch.chance(1, 2) {
                imp.push(j);
            }
        }
    }
    if dir_imports.iter().enumerate().any(|(i, v)| v.iter().any(|j| dir_imports[*j].contains(&i))) {
        ch.label("mutually-importing-directories");
    }
    // components: unique stems over the whole project (precedence between directories is not specified)
    let ncomp = ch.below(7);
    let mut stems: Vec<&str> = STEMS.to_vec();
    let mut files: Vec<File> = vec![];
    for _ in 0..ncomp {
        let stem = stems.remove(ch.below(stems.len())).to_owned();
        let dir = ch.below(dirs.len());
        files.push(File { dir, stem, root: RootTy::Qt(ch.below(QT_BASES.len())), imports: vec![], uses: vec![], is_source: false });
    }
    // every file of a directory carries the directory's imports (per-file imports are what count)
    let visible = |files: &Vec<File>, dir: usize, dir_imports: &Vec<Vec<usize>>| -> Vec<String> { files.iter().filter(|f| f.dir == dir || dir_imports[dir].contains(&f.dir)).map(|f| f.stem.clone()).collect() };
    // chains: some components derive from earlier visible components (acyclic by index order)
    for i in 0..files.len() {
        if i > 0 && ch.chance(1, 3) {
            let vis: Vec<String> = visible(&files, files[i].dir, &dir_imports).into_iter().filter(|s| files[..i].iter().any(|f| &f.stem == s)).collect();
            if !vis.is_empty() {
                files[i].root = RootTy::Comp(ch.pick(&vis).clone());
                ch.label("component-derived-from-component");
            }
        }
    }
    // unused troublemakers living in the directories: cycles, self reference, missing base
    let mut noise = vec![];
    if ch.chance(1, 3) && stems.len() >= 2 {
        let a = stems.remove(0).to_owned();
        let b = stems.remove(0).to_owned();
        let d = ch.below(dirs.len());
        noise.push(File { dir: d, stem: a.clone(), root: RootTy::Comp(b.clone()), imports: vec![], uses: vec![], is_source: false });
        noise.push(File { dir: d, stem: b, root: RootTy::Comp(a), imports: vec![], uses: vec![], is_source: false });
        ch.label("mutually-inheriting-components-present");
    }
    if ch.chance(1, 4) && !stems.is_empty() {
        let a = stems.remove(0).to_owned();
        noise.push(File { dir: ch.below(dirs.len()), stem: a.clone(), root: RootTy::Comp(a), imports: vec![], uses: vec![], is_source: false });
        ch.label("self-inheriting-component-present");
    }
    if ch.chance(1, 4) && !stems.is_empty() {
        let a = stems.remove(0).to_owned();
        noise.push(File { dir: ch.below(dirs.len()), stem: a, root: RootTy::Comp("NoSuchBase".into()), imports: vec![], uses: vec![], is_source: false });
    }
    // sources
    let ns = 1 + ch.weighted(&[40, 30, 20, 10]);
    let mut sources = vec![];
    for k in 0..ns {
        let dir = ch.below(dirs.len());
        let vis = visible(&files, dir, &dir_imports);
        let mut uses = vec![];
        if !vis.is_empty() {
            for _ in 0..ch.below(6) {
                uses.push(ch.pick(&vis).clone());
            }
        }
        let root = if !vis.is_empty() && ch.chance(1, 4) { RootTy::Comp(ch.pick(&vis).clone()) } else { RootTy::Qt(ch.below(3)) };
        sources.push(File { dir, stem: format!("Main{k}"), root, imports: vec![], uses, is_source: true });
    }
    // an invalid use in one source (quarter of the projects)
    let mut invalid = None;
    if ch.chance(1, 3) {
        let s = ch.below(sources.len());
        let first = ch.below(4);
        // try the kinds in rotated order until one fits this project
        for kind in (0..4).map(|k| (k + first) % 4) {
            match kind {
                0 => {
                    // instantiate a cyclic / self-inheriting / baseless component (made visible: same dir)
                    if let Some(bad) = noise.iter().find(|f| matches!(&f.root, RootTy::Comp(_))).cloned() {
                        sources[s].dir = bad.dir;
                        sources[s].uses = vec![bad.stem.clone()];
                        sources[s].root = RootTy::Qt(0);
                        invalid = Some("uses-component-without-widget-base");
                    }
                }
                1 => {
                    // a component that exists, but in a directory that is not imported
                    if let Some(f) = files.iter().find(|f| f.dir != sources[s].dir && !dir_imports[sources[s].dir].contains(&f.dir)) {
                        sources[s].uses.push(f.stem.clone());
                        invalid = Some("uses-component-of-directory-not-imported");
                    }
                }
                2 => {
                    sources[s].uses.push("NoSuchComponent".to_owned());
                    invalid = Some("uses-missing-component");
                }
                _ => {
                    sources[s].imports.push("nosuchdir".to_owned());
                    invalid = Some("imports-missing-directory");
                }
            }
            if invalid.is_some() {
                break;
            }
        }
    }
    if let Some(k) = invalid { ch.label(k); }
    files.extend(noise);
    files.extend(sources);
    // write the directory imports into every file
    for f in files.iter_mut() {
        let mut imps: Vec<String> = dir_imports[f.dir].iter().map(|j| rel_import(dirs[f.dir], dirs[*j])).collect();
        if ch.chance(1, 6) {
            imps.push(".".to_owned());
        }
        imps.append(&mut f.imports);
        f.imports = imps;
    }
    Project { dirs, files, invalid }
}

fn file_text(p: &Project, f: &File) -> String {
    let mut s = String::from("import qmluic.QtWidgets\n");
    for i in &f.imports {
        s.push_str(&format!("import \"{i}\"\n"));
    }
    let root = match &f.root {
        RootTy::Qt(k) => QT_BASES[*k].0.to_owned(),
        RootTy::Comp(c) => c.clone(),
    };
    s.push_str(&format!("{root} {{\n"));
    if !f.uses.is_empty() {
        s.push_str("    QVBoxLayout {\n");
        for (k, u) in f.uses.iter().enumerate() {
            // a property of the component's Qt base class, when the model can name one
            let prop = base_of(p, u).map(|b| format!("{}: {}; ", QT_BASES[b].1, QT_BASES[b].2)).unwrap_or_default();
            s.push_str(&format!("        {u} {{ {prop}windowTitle: \"w{k}\" }}\n"));
        }
        s.push_str("    }\n");
    }
    s.push_str("}\n");
    s
}

/// Qt base (index into QT_BASES) of a component through an acyclic chain, by stem
fn base_of(p: &Project, stem: &str) -> Option<usize> {
    let mut cur = stem.to_owned();
    let mut seen = BTreeSet::new();
    loop {
        if !seen.insert(cur.clone()) {
            return None;
        }
        let f = p.files.iter().find(|f| f.stem == cur)?;
        match &f.root {
            RootTy::Qt(k) => return Some(*k),
            RootTy::Comp(c) => cur = c.clone(),
        }
    }
}

fn write_project(root: &Path, p: &Project) {
    for d in &p.dirs {
        std::fs::create_dir_all(root.join(d)).unwrap();
    }
    for f in &p.files {
        std::fs::write(root.join(p.dirs[f.dir]).join(format!("{}.qml", f.stem)), file_text(p, f)).unwrap();
    }
}

fn source_arg(p: &Project, f: &File) -> String {
    if p.dirs[f.dir].is_empty() {
        format!("{}.qml", f.stem)
    } else {
        format!("{}/{}.qml", p.dirs[f.dir], f.stem)
    }
}

fn permutations(n: usize, ch: &mut Chooser) -> Vec<Vec<usize>> {
    let mut all = vec![];
    fn rec(cur: &mut Vec<usize>, used: &mut Vec<bool>, n: usize, out: &mut Vec<Vec<usize>>) {
        if cur.len() == n {
            out.push(cur.clone());
            return;
        }
        for i in 0..n {
            if !used[i] {
                used[i] = true;
                cur.push(i);
                rec(cur, used, n, out);
                cur.pop();
                used[i] = false;
            }
        }
    }
    rec(&mut vec![], &mut vec![false; n], n, &mut all);
    if all.len() > 6 {
        // identity + 5 drawn ones
        let mut picked = vec![all[0].clone()];
        for _ in 0..5 {
            picked.push(ch.pick(&all).clone());
        }
        picked
    } else {
        all
    }
}

struct RunOut {
    status: Option<i32>,
    stderr: String,
    /// per source index: (ui bytes, header bytes) if written
    outputs: Vec<Option<(Vec<u8>, Option<Vec<u8>>)>>,
    timed_out: bool,
}

fn run_order(p: &Project, sources: &[&File], order: &[usize]) -> RunOut {
    let dir = scratch_dir("c18");
    write_project(dir.path(), p);
    let args: Vec<String> = order.iter().map(|i| source_arg(p, sources[*i])).collect();
    let r = translate::run_cli(dir.path(), &translate::foreign_types(), &args, 20);
    let mut timed_out = r.timed_out;
    let r = if r.timed_out {
        // confirm alone, generously, before calling it a hang
        let r2 = translate::run_cli(dir.path(), &translate::foreign_types(), &args, 60);
        timed_out = r2.timed_out;
        r2
    } else {
        r
    };
    let outputs = sources
        .iter()
        .map(|f| {
            let d = dir.path().join(p.dirs[f.dir]);
            let ui = std::fs::read(d.join(format!("{}.ui", f.stem.to_ascii_lowercase()))).ok()?;
            let h = std::fs::read(d.join(format!("uisupport_{}.h", f.stem.to_ascii_lowercase()))).ok();
            Some((ui, h))
        })
        .collect();
    RunOut { status: r.status, stderr: r.stderr, outputs, timed_out }
}

fn find_widgets<'a>(o: &'a FObj, out: &mut Vec<&'a FObj>) {
    out.push(o);
    for c in &o.children {
        find_widgets(&c.obj, out);
    }
}

pub fn check_project(ch_seq: &[u32]) -> Result<(bool, u64), Failure> {
    let mut ch = Chooser::new(ch_seq);
    let p = gen_project(&mut ch);
    let sources: Vec<&File> = p.files.iter().filter(|f| f.is_source).collect();
    let orders = permutations(sources.len(), &mut ch);
    let describe = || {
        json!({"dirs": p.dirs, "invalid": p.invalid, "files": p.files.iter().map(|f| json!({"path": source_arg(&p, f), "source": f.is_source, "text": file_text(&p, f)})).collect::<Vec<_>>()})
    };
    let fail = |k: &str, what: String, extra: Value| Failure { key: format!("c18-{k}"), what, detail: json!({"project": describe(), "extra": extra}) };
    let runs: Vec<RunOut> = orders.iter().map(|o| run_order(&p, &sources, o)).collect();
    let nruns = runs.len() as u64;
    for (r, o) in runs.iter().zip(&orders) {
        if r.timed_out {
            return Err(fail("does-not-terminate", format!("generate-ui did not finish within 60 s for the source order {:?} (normal: < 0.5 s)", o), json!(null)));
        }
        if !matches!(r.status, Some(0) | Some(1)) {
            return Err(fail("abnormal-exit", format!("exit status {:?} for the source order {:?}", r.status, o), json!({"stderr": r.stderr.chars().take(1500).collect::<String>()})));
        }
    }
    // the exit status does not depend on the order
    for (r, o) in runs.iter().zip(&orders).skip(1) {
        if r.status != runs[0].status {
            return Err(fail("status-depends-on-order", format!("exit status {:?} for order {:?} but {:?} for order {:?}", runs[0].status, orders[0], r.status, o), json!(null)));
        }
    }
    // whatever was written for a source is the same in every order
    for si in 0..sources.len() {
        let mut first: Option<(&(Vec<u8>, Option<Vec<u8>>), &Vec<usize>)> = None;
        for (r, o) in runs.iter().zip(&orders) {
            if let Some(out) = &r.outputs[si] {
                match first {
                    None => first = Some((out, o)),
                    Some((f, fo)) => {
                        if f != out {
                            return Err(fail("output-depends-on-order", format!("the outputs of {} differ between the source orders {:?} and {:?}", source_arg(&p, sources[si]), fo, o), json!({"a": String::from_utf8_lossy(&f.0), "b": String::from_utf8_lossy(&out.0)})));
                        }
                    }
                }
            }
        }
    }
    let expect_ok = p.invalid.is_none();
    let status0 = runs[0].status;
    if expect_ok && status0 != Some(0) {
        return Err(fail("rejects-valid-project", format!("a project in which every used component resolves is rejected (status {:?})", status0), json!({"stderr": runs[0].stderr.chars().take(2000).collect::<String>()})));
    }
    if !expect_ok && status0 == Some(0) {
        return Err(fail("accepts-invalid-project", format!("a project with an invalid use ({}) is accepted", p.invalid.unwrap()), json!(null)));
    }
    if expect_ok {
        for (si, s) in sources.iter().enumerate() {
            let Some((ui, _)) = &runs[0].outputs[si] else {
                return Err(fail("output-missing", format!("no .ui was written for {}", source_arg(&p, s)), json!(null)));
            };
            let f = form::decode(ui).map_err(|e| fail("undecodable", e, json!(null)))?;
            // expected custom widgets: every instantiated component (also as root), exactly once
            let mut used: BTreeSet<String> = s.uses.iter().cloned().collect();
            if let RootTy::Comp(c) = &s.root {
                used.insert(c.clone());
            }
            let want: BTreeSet<(String, String, String)> = used
                .iter()
                .map(|u| {
                    let cf = p.files.iter().find(|f| &f.stem == u).unwrap();
                    let ext = match &cf.root {
                        RootTy::Qt(k) => QT_BASES[*k].0.to_owned(),
                        RootTy::Comp(c) => c.clone(),
                    };
                    (u.clone(), ext, format!("{}.h", u.to_ascii_lowercase()))
                })
                .collect();
            let got: BTreeSet<(String, String, String)> = f.custom_widgets.iter().cloned().collect();
            if got.len() != f.custom_widgets.len() {
                return Err(fail("customwidget-listed-twice", format!("{}: a custom widget is listed twice: {:?}", source_arg(&p, s), f.custom_widgets), json!(null)));
            }
            if got != want {
                return Err(fail("customwidgets", format!("{}: <customwidgets> is {:?}, expected {:?}", source_arg(&p, s), got, want), json!({"ui": String::from_utf8_lossy(ui)})));
            }
            // instances accept the properties of the base class
            let mut ws = vec![];
            find_widgets(&f.root, &mut ws);
            for (k, u) in s.uses.iter().enumerate() {
                let title = format!("w{k}");
                let Some(w) = ws.iter().find(|w| w.class.as_deref() == Some(u.as_str()) && matches!(w.prop("windowTitle").map(|p| &p.value), Some(FValue::Str { text, .. }) if *text == title)) else {
                    return Err(fail("instance-missing", format!("{}: instance #{k} of {u} (windowTitle {title:?}) is not in the form", source_arg(&p, s)), json!({"ui": String::from_utf8_lossy(ui)})));
                };
                if let Some(b) = base_of(&p, u) {
                    if w.prop(QT_BASES[b].1).is_none() {
                        return Err(fail("base-class-property-lost", format!("{}: instance of {u} (base {}) lost its property {}", source_arg(&p, s), QT_BASES[b].0, QT_BASES[b].1), json!(null)));
                    }
                }
            }
        }
    }
    let from_imported = sources.iter().any(|s| s.uses.iter().any(|u| p.files.iter().any(|f| &f.stem == u && f.dir != s.dir)));
    let any_cycle = p.files.iter().any(|f| !f.is_source && base_of(&p, &f.stem).is_none());
    Ok(((p.dirs.len() >= 2 && from_imported) || any_cycle, nruns))
}

/// Name clashes between a directory and a directory it imports: the statement does not say which
/// `Base.qml` wins, but whichever does must win consistently — the base class that the component's
/// own .ui shows for its root type is the class whose properties its instances accept.
fn run_clash_consistency(env: &Env, stats: &mut Stats) -> Vec<Violation> {
    let n = env.tier.pick(48, 600);
    let seqs = sample_choices(env, PID, "clash-consistency", n, 32);
    let results: Vec<Option<Failure>> = seqs.par_iter().map(|c| clash_case(c)).collect();
    let mut out = vec![];
    for (r, c) in results.into_iter().zip(&seqs) {
        stats.evaluations += 1;
        stats.nontrivial.insert(stable_hash(&("clash", c)));
        *stats.counters.entry("clash_consistency_projects".into()).or_default() += 1;
        if let Some(f) = r {
            if out.is_empty() {
                out.push(Violation { failure: f, choices: Some(c.clone()), part: "clash-consistency".into() });
            }
        }
    }
    out
}

fn clash_case(c: &[u32]) -> Option<Failure> {
    // (Qt class, a property only that class has among the four, value text)
    const EXCL: &[(&str, &str, &str)] = &[("QDialog", "sizeGripEnabled", "true"), ("QFrame", "lineWidth", "3"), ("QPushButton", "text", "\"push\""), ("QGroupBox", "title", "\"group\"")];
    {
        {
            let mut ch = Chooser::new(c);
            let a = ch.below(EXCL.len());
            let b = (a + 1 + ch.below(EXCL.len() - 1)) % EXCL.len();
            // the component Fancy lives in `own`; `own` imports `other`; both hold a Base.qml
            let (own, other) = *ch.pick(&[("app", "lib"), ("lib", "app"), ("app", "app/inner"), ("app/inner", "app")]);
            let main_in_own = ch.chance(2, 3);
            let files = |dir: &Path| {
                std::fs::create_dir_all(dir.join(own)).unwrap();
                std::fs::create_dir_all(dir.join(other)).unwrap();
                std::fs::write(dir.join(own).join("Base.qml"), format!("import qmluic.QtWidgets\n{} {{}}\n", EXCL[a].0)).unwrap();
                std::fs::write(dir.join(other).join("Base.qml"), format!("import qmluic.QtWidgets\n{} {{}}\n", EXCL[b].0)).unwrap();
                let imp = rel_import(own, other);
                std::fs::write(dir.join(own).join("Fancy.qml"), format!("import qmluic.QtWidgets\nimport \"{imp}\"\nBase {{}}\n")).unwrap();
            };
            let fail = |k: &str, what: String, extra: Value| Some(Failure { key: format!("c18-{k}"), what, detail: json!({"own_dir": own, "imported_dir": other, "own_base": EXCL[a].0, "imported_base": EXCL[b].0, "extra": extra}) });
            // 1. the component as a document: which Base does its own .ui show?
            let d1 = scratch_dir("c18c");
            files(d1.path());
            let r1 = translate::run_cli(d1.path(), &translate::foreign_types(), &[format!("{own}/Fancy.qml")], 30);
            if r1.timed_out || r1.status != Some(0) {
                // rejecting the clash altogether would be consistent too, as long as instances are rejected as well
                return None;
            }
            let ui = std::fs::read(d1.path().join(own).join("fancy.ui")).ok()?;
            let f = form::decode(&ui).ok()?;
            let ext = f.custom_widgets.iter().find(|c| c.0 == "Base").map(|c| c.1.clone());
            let Some(ext) = ext else { return fail("clash-no-customwidget", "fancy.ui does not list the custom widget Base".into(), json!(String::from_utf8_lossy(&ui))) };
            let Some(winner) = EXCL.iter().position(|e| e.0 == ext) else { return fail("clash-extends", format!("Base extends {ext}, which is neither candidate"), json!(null)) };
            let loser = if winner == a { b } else { a };
            // 2. instances of Fancy accept the winner's property and not the loser's
            for (which, idx, must_accept) in [("winner", winner, true), ("loser", loser, false)] {
                let d2 = scratch_dir("c18c");
                files(d2.path());
                let (mdir, imp) = if main_in_own { (own.to_owned(), String::new()) } else { (other.to_owned(), format!("import \"{}\"\n", rel_import(other, own))) };
                let main = format!("import qmluic.QtWidgets\n{imp}QWidget {{\n    Fancy {{ {}: {} }}\n}}\n", EXCL[idx].1, EXCL[idx].2);
                std::fs::write(d2.path().join(&mdir).join("Main.qml"), &main).unwrap();
                let r2 = translate::run_cli(d2.path(), &translate::foreign_types(), &[format!("{mdir}/Main.qml")], 30);
                let accepted = r2.status == Some(0);
                if accepted != must_accept {
                    return fail(
                        "clash-inconsistent",
                        format!("{own}/Fancy.qml (root type Base, Base.qml in {own} is a {}, in the imported {other} a {}): its own .ui says Base extends {ext}, but an instance with the {which}'s property `{}` is {}", EXCL[a].0, EXCL[b].0, EXCL[idx].1, if accepted { "accepted" } else { "rejected" }),
                        json!({"main": main, "stderr": r2.stderr.chars().take(800).collect::<String>()}),
                    );
                }
            }
            None
        }
    }
}

pub fn replay(v: &Value) -> Outcome {
    match choices_from_json(v) {
        Some(c) if v["part"].as_str() == Some("clash-consistency") => match clash_case(&c) {
            None => Outcome::pass(None),
            Some(f) => Outcome { verdict: Verdict::Fail(f), nontrivial: None, sample: None, counters: vec![] },
        },
        Some(c) => match check_project(&c) {
            Ok(_) => Outcome::pass(None),
            Err(f) => Outcome { verdict: Verdict::Fail(f), nontrivial: None, sample: None, counters: vec![] },
        },
        None => Outcome::skip("replay file without choices"),
    }
}

pub fn run(env: &Env, known: &Known, started: Instant, replayed: u64, replay_violations: Vec<Violation>) -> i32 {
    let n = env.tier.pick(1200, 30000);
    let seqs = sample_choices(env, PID, "projects", n, 200);
    // once some project has failed the remaining ones are skipped: a change that makes every run slow
    // (or every project fail) must end in a report, not in the watchdog
    let failures = std::sync::atomic::AtomicUsize::new(0);
    let res: Vec<(usize, Result<(bool, u64), Failure>, Vec<&'static str>)> = seqs
        .par_iter()
        .enumerate()
        .filter_map(|(i, c)| {
            if failures.load(std::sync::atomic::Ordering::Relaxed) >= 3 {
                return None;
            }
            let mut ch = Chooser::new(c);
            let _ = gen_project(&mut ch);
            let r = check_project(c);
            if r.is_err() {
                failures.fetch_add(1, std::sync::atomic::Ordering::Relaxed);
            }
            Some((i, r, ch.labels.iter().copied().collect()))
        })
        .collect();
    let mut stats = Stats::default();
    let mut violations = vec![];
    let mut cli_runs = 0u64;
    if res.len() < seqs.len() {
        stats.counters.insert("projects_skipped_after_first_failures".into(), (seqs.len() - res.len()) as u64);
    }
    for (i, r, labels) in res {
        let c = &seqs[i];
        stats.evaluations += 1;
        for l in labels {
            *stats.labels.entry(l.to_owned()).or_default() += 1;
        }
        match r {
            Ok((nt, k)) => {
                cli_runs += k;
                if nt {
                    stats.nontrivial.insert(stable_hash(c));
                }
                if stats.samples.len() < 2 {
                    let p = gen_project(&mut Chooser::new(c));
                    stats.samples.push(json!({"dirs": p.dirs, "files": p.files.iter().map(|f| json!({"path": source_arg(&p, f), "source": f.is_source, "text": file_text(&p, f)})).collect::<Vec<_>>()}));
                }
            }
            Err(f) => {
                if known.is_listed_known(PID, &f.key) {
                    known.announce(PID, &f.key);
                } else if violations.len() < 6 {
                    let key = f.key.clone();
                    // (a failure that takes minutes to observe is reported as found, not shrunk)
                    let slow = key.contains("does-not-terminate");
                    let small = if slow { c.clone() } else { shrink_choices(c.clone(), 30, |cand| matches!(check_project(cand), Err(ff) if ff.key == key)) };
                    violations.push(Violation { failure: f, choices: Some(small), part: "projects".into() });
                }
            }
        }
    }
    stats.counters.insert("runs_of_the_real_binary".into(), cli_runs);
    let mut clash = run_clash_consistency(env, &mut stats);
    violations.append(&mut clash);
    translate::remove_foreign_types_file();
    let ev = Evidence {
        env, pid: PID, level: "exploration",
        rule: "projects of 1-4 directories (nested or siblings) with arbitrary mutual import-by-string relations (also \".\"), 0-6 component files whose root type is a Qt widget class or an earlier visible component (chains), unused troublemakers in the directories (mutually inheriting pair, self-inheriting component, component with a missing base), and 1-4 sources that instantiate 0-5 visible components (repeats, also as their own root type) with a property of the component's Qt base class; a quarter of the projects carry one invalid use (component without widget base through a cycle, component of a directory that is not imported, missing component, import of a missing directory). The real binary is run for every order of the source arguments (all permutations up to 3 sources, 6 drawn ones beyond), each in a fresh copy of the project. Oracle: every run terminates (20 s watchdog, confirmed with 60 s) with status 0/1; the status and the bytes written for a source are the same in every order; valid projects are accepted and for every source <customwidgets> as a set equals {(X, type of X.qml's root object, lower(X).h)} over the distinct instantiated components, each once, every instance is in the form with its base-class property; projects with an invalid use are rejected. Separate part: when a directory and a directory it imports both hold `Base.qml` with different Qt bases (precedence is not specified), the base that the component's own .ui shows for `Base` must be the one whose exclusive property its instances accept, and the other one's exclusive property must be rejected. Non-trivial = >= 2 directories with a component used from an imported directory, or a cyclic component present; distinct by choice sequence.",
        assumptions: vec!["name clashes between an imported directory and the own directory are not generated (precedence is not specified)".into(), "with a failing source the tool stops at it by design, so presence of later outputs is only compared for successful invocations; contents are compared whenever written".into()],
        extra: json!({}),
    };
    finish(&ev, stats, violations, replayed, replay_violations, started)
}
