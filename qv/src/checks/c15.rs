//! C15 — generate-ui writes only where it should, atomically, and only when needed
//! (DESIGN.md section 3, C15).

use super::finish;
use crate::common::*;
use crate::translate::{self, translate_opts, Mode, Opts};
use rayon::prelude::*;
use serde_json::{json, Value};
use std::collections::BTreeMap;
use std::os::unix::fs::MetadataExt;
use std::path::{Path, PathBuf};
use std::time::Instant;

const PID: &str = "C15";

const STEMS: &[&str] = &["MainWindow", "dialog", "SettingsForm", "ABC_def", "X1", "日本", "aB", "Widget2"];

#[derive(Clone, Debug)]
pub struct Src {
    /// path as given on the command line
    pub arg: String,
    pub stem: String,
    /// constant and dynamic parameter of the text
    pub const_v: u32,
    pub dyn_v: u32,
}

#[derive(Clone, Debug)]
pub struct Proj {
    pub sources: Vec<Src>,
    /// cwd relative to the project root ("" or "sub")
    pub cwd: String,
    /// -O argument
    pub outdir: Option<String>,
    pub no_lower: bool,
    pub no_dyn: bool,
}

pub fn source_text(s: &Src) -> String {
    format!(
        "import qmluic.QtWidgets\nQDialog {{\n    id: root\n    windowTitle: \"title {}\"\n    QVBoxLayout {{\n        QSpinBox {{ id: spin }}\n        QLabel {{ text: \"v%1\".arg(spin.value + {}) }}\n        QPushButton {{ text: \"Close\"; onClicked: root.close() }}\n    }}\n}}\n",
        s.const_v, s.dyn_v
    )
}

fn gen_proj(ch: &mut Chooser) -> Proj {
    let cwd = if ch.chance(1, 3) { "sub".to_owned() } else { String::new() };
    let n = 1 + ch.weighted(&[50, 25, 15, 7, 3]);
    let mut stems: Vec<&str> = STEMS.to_vec();
    let mut sources = vec![];
    for _ in 0..n {
        let stem = stems.remove(ch.below(stems.len())).to_owned();
        let shape = ch.weighted(&[30, 12, 18, 12, 10, 10, 8]);
        let arg = match shape {
            0 => format!("{stem}.qml"),
            1 => format!("./{stem}.qml"),
            2 => format!("d/{stem}.qml"),
            3 => format!("d/./e/{stem}.qml"),
            4 => format!("d/../{stem}.qml"),
            5 => format!("../{stem}.qml"),
            _ => format!("ABS/{stem}.qml"), // replaced by the absolute project path at run time
        };
        ch.label(["path-plain", "path-dot", "path-subdir", "path-dot-inside", "path-dotdot-inside", "path-parent", "path-absolute"][shape]);
        sources.push(Src { arg, stem, const_v: ch.below(5) as u32, dyn_v: ch.below(5) as u32 });
    }
    let outdir = match ch.weighted(&[40, 20, 15, 10, 15]) {
        0 => None,
        1 => Some("out".to_owned()),
        2 => Some("out/deep/er".to_owned()),
        3 => Some("./out".to_owned()),
        _ => Some("ABSOUT".to_owned()),
    };
    if outdir.is_some() { ch.label("with-output-directory"); }
    Proj { sources, cwd, outdir, no_lower: ch.chance(1, 4), no_dyn: ch.chance(1, 4) }
}

/// component-wise syntactic check the statement prescribes for -O: relative, no ".."
fn escapes(arg: &str) -> bool {
    arg.starts_with('/') || arg.split('/').any(|c| c == "..")
}

struct Layout {
    root: PathBuf,
    cwd: PathBuf,
}

impl Layout {
    fn new(root: &Path, p: &Proj) -> Layout {
        let proj = root.join("proj");
        let cwd = if p.cwd.is_empty() { proj.clone() } else { proj.join(&p.cwd) };
        Layout { root: root.to_owned(), cwd }
    }
    fn arg(&self, s: &Src) -> String {
        s.arg.replace("ABS", &self.cwd.join("abs").display().to_string())
    }
    fn outdir(&self, p: &Proj) -> Option<String> {
        p.outdir.as_ref().map(|o| o.replace("ABSOUT", &self.root.join("absout").display().to_string()))
    }
    fn source_path(&self, s: &Src) -> PathBuf {
        normalize(&self.cwd.join(self.arg(s)))
    }
    /// expected (ui, header) paths of a source
    fn outputs(&self, p: &Proj, s: &Src) -> (PathBuf, PathBuf) {
        let arg = self.arg(s);
        let dir = Path::new(&arg).parent().map(|d| d.to_owned()).unwrap_or_default();
        let base = match self.outdir(p) {
            Some(o) => self.cwd.join(o).join(&dir),
            None => self.cwd.join(&dir),
        };
        let name = |n: String| if p.no_lower { n } else { n.to_ascii_lowercase() };
        (normalize(&base.join(name(format!("{}.ui", s.stem)))), normalize(&base.join(name(format!("uisupport_{}.h", s.stem)))))
    }
}

/// lexical normalisation of an absolute path (the scratch tree has no symlinks)
fn normalize(p: &Path) -> PathBuf {
    let mut out = PathBuf::new();
    for c in p.components() {
        match c {
            std::path::Component::CurDir => {}
            std::path::Component::ParentDir => {
                out.pop();
            }
            c => out.push(c),
        }
    }
    out
}

type Snap = BTreeMap<PathBuf, (char, u64, i64, i64, u64, u64)>;

fn snapshot(root: &Path) -> Snap {
    let mut m = BTreeMap::new();
    let mut stack = vec![root.to_owned()];
    while let Some(d) = stack.pop() {
        let Ok(rd) = std::fs::read_dir(&d) else { continue };
        for e in rd.flatten() {
            let Ok(md) = e.path().symlink_metadata() else { continue };
            let kind = if md.is_dir() { 'd' } else if md.is_file() { 'f' } else { 'o' };
            let hash = if md.is_file() { stable_hash(&std::fs::read(e.path()).unwrap_or_default()) } else { 0 };
            m.insert(e.path(), (kind, md.ino(), md.mtime(), md.mtime_nsec(), md.len(), hash));
            if md.is_dir() {
                stack.push(e.path());
            }
        }
    }
    m
}

fn write_sources(l: &Layout, p: &Proj) {
    std::fs::create_dir_all(&l.cwd).unwrap();
    for s in &p.sources {
        let path = l.source_path(s);
        std::fs::create_dir_all(path.parent().unwrap()).unwrap();
        // `d/../X.qml` needs the directory d to exist
        let arg = l.arg(s);
        if let Some(dir) = Path::new(&arg).parent() {
            let _ = std::fs::create_dir_all(l.cwd.join(dir));
        }
        std::fs::write(&path, source_text(s)).unwrap();
    }
}

fn cli_args(l: &Layout, p: &Proj) -> Vec<String> {
    let mut a = vec![];
    if let Some(o) = l.outdir(p) {
        a.push("-O".to_owned());
        a.push(o);
    }
    if p.no_lower {
        a.push("--no-lowercase-file-name".to_owned());
    }
    if p.no_dyn {
        a.push("--no-dynamic-binding".to_owned());
    }
    for s in &p.sources {
        a.push(l.arg(s));
    }
    a
}

/// bytes the command must write for a source: (ui, header or None)
fn expected_bytes(p: &Proj, s: &Src) -> Option<(Vec<u8>, Option<Vec<u8>>)> {
    let mode = if p.no_dyn { Mode::Reject } else { Mode::Generate };
    let t = translate_opts(&source_text(s), &s.stem, Opts { mode, build_despite_syntax_errors: false, render: false, lowercase: !p.no_lower });
    if !t.accepted() {
        return None; // (with --no-dynamic-binding the text has dynamic bindings: rejected)
    }
    Some((t.ui.clone().unwrap(), t.header.clone()))
}

fn fail(key: &str, what: String, detail: Value) -> Failure {
    Failure { key: format!("c15-{key}"), what, detail }
}

fn describe(l: &Layout, p: &Proj) -> Value {
    json!({"cwd": l.cwd.strip_prefix(&l.root).unwrap().display().to_string(), "args": cli_args(l, p).iter().map(|a| a.replace(&l.root.display().to_string(), "<ROOT>")).collect::<Vec<_>>(), "no_dynamic_binding": p.no_dyn})
}

/// One run of the command on a fresh project; checks the path model.
fn check_layout(p: &Proj) -> Result<bool, Failure> {
    let dir = scratch_dir("c15");
    let l = Layout::new(dir.path(), p);
    write_sources(&l, p);
    let before = snapshot(dir.path());
    let r = translate::run_cli(&l.cwd, &translate::foreign_types(), &cli_args(&l, p), 60);
    if r.timed_out {
        return Ok(false);
    }
    let after = snapshot(dir.path());
    let d = |extra: Value| json!({"project": describe(&l, p), "status": r.status, "stderr": r.stderr.chars().take(1500).collect::<String>(), "extra": extra});
    let created: Vec<&PathBuf> = after.keys().filter(|k| before.get(*k) != after.get(*k)).collect();
    let rel = |x: &Path| x.strip_prefix(dir.path()).unwrap_or(x).display().to_string();
    // refusal: absolute or parent-escaping sources with an output directory
    let must_refuse = p.outdir.is_some() && p.sources.iter().any(|s| escapes(&l.arg(s)));
    if must_refuse {
        if r.status != Some(1) {
            return Err(fail("escaping-source-not-refused", format!("a source path that is absolute or contains `..` was given with --output-directory, exit status is {:?}", r.status), d(json!(null))));
        }
        if !created.is_empty() || before.len() != after.len() {
            return Err(fail("refused-but-wrote", format!("the command refused the sources but changed the tree: {:?}", created.iter().map(|x| rel(x)).collect::<Vec<_>>()), d(json!(null))));
        }
        return Ok(true);
    }
    // with --no-dynamic-binding the sample text is rejected (it has dynamic bindings): nothing is written
    let exp: Vec<Option<(Vec<u8>, Option<Vec<u8>>)>> = p.sources.iter().map(|s| expected_bytes(p, s)).collect();
    if exp.iter().any(|e| e.is_none()) {
        if r.status != Some(1) {
            return Err(fail("rejected-source-status", format!("a rejected source gives exit status {:?}", r.status), d(json!(null))));
        }
        // outputs of sources before the failing one may exist (the tool stops at the first failure)
        return Ok(false);
    }
    if r.status != Some(0) {
        return Err(fail("valid-project-fails", format!("exit status {:?} for a valid project", r.status), d(json!(null))));
    }
    let mut expected: BTreeMap<PathBuf, Vec<u8>> = BTreeMap::new();
    for (s, e) in p.sources.iter().zip(&exp) {
        let (ui, h) = l.outputs(p, s);
        let (ub, hb) = e.clone().unwrap();
        expected.insert(ui, ub);
        if let Some(hb) = hb {
            expected.insert(h, hb);
        }
    }
    for (path, bytes) in &expected {
        match std::fs::read(path) {
            Ok(b) if &b == bytes => {}
            Ok(_) => return Err(fail("wrong-content", format!("{} does not hold the translation of its source", rel(path)), d(json!(null)))),
            Err(_) => return Err(fail("output-missing", format!("expected output {} was not created; created: {:?}", rel(path), created.iter().map(|x| rel(x)).collect::<Vec<_>>()), d(json!(null)))),
        }
    }
    for c in &created {
        let is_dir = after[*c].0 == 'd';
        let ok = if is_dir { expected.keys().any(|e| e.starts_with(c)) } else { expected.contains_key(*c) };
        if !ok {
            let key = if l.outdir(p).is_some() && !c.starts_with(normalize(&l.cwd.join(l.outdir(p).unwrap()))) { "wrote-outside-output-directory" } else { "unexpected-file" };
            return Err(fail(key, format!("the command created or modified {}, which is not an expected output", rel(c)), d(json!({"expected": expected.keys().map(|e| rel(e)).collect::<Vec<_>>()}))));
        }
    }
    Ok(p.outdir.is_some() && p.sources.iter().any(|s| l.arg(s).contains('/')))
}

// ---------------------------------------------------------------------------------------------
// histories

#[derive(Clone, Debug)]
enum Op {
    Run,
    EditConst(usize),
    EditDyn(usize),
    EditBoth(usize),
    RewriteSame(usize),
    Touch(usize),
    DeleteOutput(usize, bool),
    ToggleNoLower,
}

fn check_history(ch_seq: &[u32]) -> Result<bool, Failure> {
    let mut ch = Chooser::new(ch_seq);
    let mut p = gen_proj(&mut ch);
    // histories are about re-runs: keep the sources acceptable
    p.no_dyn = false;
    for s in p.sources.iter_mut() {
        if p.outdir.is_some() && escapes(&s.arg) {
            s.arg = format!("d/{}.qml", s.stem);
        }
        if s.arg.starts_with("ABS") {
            s.arg = format!("{}.qml", s.stem);
        }
    }
    let n_ops = 2 + ch.below(7);
    let mut ops = vec![Op::Run];
    for _ in 0..n_ops {
        let i = ch.below(p.sources.len());
        ops.push(match ch.weighted(&[35, 12, 12, 8, 10, 10, 8, 5]) {
            0 => Op::Run,
            1 => Op::EditConst(i),
            2 => Op::EditDyn(i),
            3 => Op::EditBoth(i),
            4 => Op::RewriteSame(i),
            5 => Op::Touch(i),
            6 => Op::DeleteOutput(i, ch.chance(1, 2)),
            _ => Op::ToggleNoLower,
        });
    }
    ops.push(Op::Run);
    let dir = scratch_dir("c15h");
    let l = Layout::new(dir.path(), &p);
    write_sources(&l, &p);
    let mut noop_after_change = false;
    let mut changed_since_run = true;
    let mut had_real_change = false;
    for (step, op) in ops.iter().enumerate() {
        match op {
            Op::Run => {
                let before = snapshot(dir.path());
                // what every output should hold after this run
                let mut expected: BTreeMap<PathBuf, Vec<u8>> = BTreeMap::new();
                for s in &p.sources {
                    let (ui, h) = l.outputs(&p, s);
                    let (ub, hb) = expected_bytes(&p, s).expect("history sources are acceptable");
                    expected.insert(ui, ub);
                    expected.insert(h, hb.unwrap());
                }
                std::thread::sleep(std::time::Duration::from_millis(3));
                let r = translate::run_cli(&l.cwd, &translate::foreign_types(), &cli_args(&l, &p), 60);
                if r.timed_out {
                    return Ok(false);
                }
                let after = snapshot(dir.path());
                let d = json!({"project": describe(&l, &p), "history": format!("{:?}", &ops[..=step]), "status": r.status, "stderr": r.stderr.chars().take(1000).collect::<String>()});
                if r.status != Some(0) {
                    return Err(fail("history-run-fails", format!("step {step}: exit status {:?}", r.status), d));
                }
                for (path, bytes) in &expected {
                    let rel = path.strip_prefix(dir.path()).unwrap().display().to_string();
                    let now = std::fs::read(path).ok();
                    if now.as_deref() != Some(bytes.as_slice()) {
                        return Err(fail("history-stale-output", format!("step {step}: {rel} does not hold the translation of the current source"), d));
                    }
                    if let (Some(b), Some(a)) = (before.get(path), after.get(path)) {
                        let was_current = b.5 == stable_hash(bytes);
                        if was_current && (b.1, b.2, b.3) != (a.1, a.2, a.3) {
                            return Err(fail("unchanged-output-rewritten", format!("step {step}: {rel} already held the right bytes but was rewritten (inode {} -> {}, mtime {}.{:09} -> {}.{:09})", b.1, a.1, b.2, b.3, a.2, a.3), d));
                        }
                    }
                }
                if !changed_since_run && had_real_change {
                    noop_after_change = true;
                }
                changed_since_run = false;
            }
            Op::EditConst(i) => {
                p.sources[*i].const_v += 10;
                std::fs::write(l.source_path(&p.sources[*i]), source_text(&p.sources[*i])).unwrap();
                changed_since_run = true;
                had_real_change = true;
            }
            Op::EditDyn(i) => {
                p.sources[*i].dyn_v += 10;
                std::fs::write(l.source_path(&p.sources[*i]), source_text(&p.sources[*i])).unwrap();
                changed_since_run = true;
                had_real_change = true;
            }
            Op::EditBoth(i) => {
                p.sources[*i].const_v += 10;
                p.sources[*i].dyn_v += 10;
                std::fs::write(l.source_path(&p.sources[*i]), source_text(&p.sources[*i])).unwrap();
                changed_since_run = true;
                had_real_change = true;
            }
            Op::RewriteSame(i) | Op::Touch(i) => {
                std::fs::write(l.source_path(&p.sources[*i]), source_text(&p.sources[*i])).unwrap();
            }
            Op::DeleteOutput(i, header) => {
                let (ui, h) = l.outputs(&p, &p.sources[*i]);
                let _ = std::fs::remove_file(if *header { h } else { ui });
                changed_since_run = true;
            }
            Op::ToggleNoLower => {
                p.no_lower = !p.no_lower;
                changed_since_run = true;
            }
        }
    }
    Ok(noop_after_change)
}

// ---------------------------------------------------------------------------------------------
// kill points

fn strace_ok() -> bool {
    std::process::Command::new("strace").args(["-o", "/dev/null", "true"]).status().map(|s| s.success()).unwrap_or(false)
}

const TRACED: &str = "openat,write,fchmod,chmod,rename,renameat,renameat2,unlink,unlinkat,mkdir,mkdirat,link,linkat";

/// Runs the command under strace; `inject` = Some((syscall, ordinal)) kills it on entry to that call.
fn run_traced(l: &Layout, p: &Proj, log: &Path, inject: Option<(&str, usize)>) -> Option<std::process::ExitStatus> {
    let mut cmd = std::process::Command::new("strace");
    cmd.arg("-f").arg("-o").arg(log).arg("-e").arg(format!("trace={TRACED}"));
    if let Some((sc, k)) = inject {
        cmd.arg("-e").arg(format!("inject={sc}:signal=KILL:when={k}"));
    }
    cmd.arg(translate::cli_path()).arg("generate-ui");
    for f in translate::foreign_types() {
        cmd.arg("--foreign-types").arg(f);
    }
    cmd.args(cli_args(l, p)).current_dir(&l.cwd).env("NO_COLOR", "").stdin(std::process::Stdio::null()).stdout(std::process::Stdio::null()).stderr(std::process::Stdio::null());
    cmd.status().ok()
}

/// (syscall name, ordinal among calls of that name) of every call that touches an output
fn kill_points(log: &str, root: &str) -> Vec<(String, usize)> {
    let mut counts: BTreeMap<String, usize> = BTreeMap::new();
    let mut fds: std::collections::BTreeSet<String> = Default::default();
    let mut out = vec![];
    for line in log.lines() {
        // "<pid> name(args) = ret"
        let rest = line.split_once(' ').map(|x| x.1).unwrap_or(line).trim_start();
        let Some(par) = rest.find('(') else { continue };
        let name = &rest[..par];
        if !TRACED.split(',').any(|n| n == name) {
            continue;
        }
        let k = counts.entry(name.to_owned()).or_default();
        *k += 1;
        let args = &rest[par + 1..];
        let interesting = match name {
            "openat" => {
                let creates = args.contains("O_CREAT") && args.contains(root);
                if creates {
                    if let Some(fd) = rest.rsplit(" = ").next() {
                        fds.insert(fd.trim().to_owned());
                    }
                }
                creates
            }
            "write" => {
                let fd = args.split(',').next().unwrap_or("").trim().to_owned();
                fds.contains(&fd)
            }
            "fchmod" => true,
            _ => args.contains(root),
        };
        if interesting {
            out.push((name.to_owned(), *k));
        }
    }
    out
}

fn check_kills(ch_seq: &[u32]) -> Result<(u64, bool), Failure> {
    let mut ch = Chooser::new(ch_seq);
    let mut p = gen_proj(&mut ch);
    p.no_dyn = false;
    for s in p.sources.iter_mut() {
        if p.outdir.is_some() && escapes(&s.arg) || s.arg.starts_with("ABS") {
            s.arg = format!("{}.qml", s.stem);
        }
    }
    p.sources.truncate(2);
    // scenario: outputs of the OLD sources exist (or not); the sources change; the run is killed
    let fresh = ch.chance(1, 4);
    let build = |dir: &Path| -> (Layout, BTreeMap<PathBuf, Option<Vec<u8>>>, BTreeMap<PathBuf, Vec<u8>>, Proj) {
        let l = Layout::new(dir, &p);
        write_sources(&l, &p);
        let mut old: BTreeMap<PathBuf, Option<Vec<u8>>> = BTreeMap::new();
        for s in &p.sources {
            let (ui, h) = l.outputs(&p, s);
            if fresh {
                old.insert(ui, None);
                old.insert(h, None);
            } else {
                let (ub, hb) = expected_bytes(&p, s).unwrap();
                std::fs::create_dir_all(ui.parent().unwrap()).unwrap();
                std::fs::write(&ui, &ub).unwrap();
                std::fs::write(&h, hb.as_ref().unwrap()).unwrap();
                old.insert(ui, Some(ub));
                old.insert(h, hb);
            }
        }
        let mut p2 = p.clone();
        for s in p2.sources.iter_mut() {
            s.const_v += 100;
            s.dyn_v += 100;
        }
        write_sources(&l, &p2);
        let mut new = BTreeMap::new();
        for s in &p2.sources {
            let (ui, h) = l.outputs(&p2, s);
            let (ub, hb) = expected_bytes(&p2, s).unwrap();
            new.insert(ui, ub);
            new.insert(h, hb.unwrap());
        }
        (l, old, new, p2)
    };
    // tracing run
    let dir0 = scratch_dir("c15k");
    let (l0, _, _, p2) = build(dir0.path());
    let log0 = dir0.path().join("trace.log");
    let st = run_traced(&l0, &p2, &log0, None);
    if st.map(|s| s.code()) != Some(Some(0)) {
        return Ok((0, false));
    }
    let points = kill_points(&std::fs::read_to_string(&log0).unwrap_or_default(), &dir0.path().display().to_string());
    drop(dir0);
    let mut runs = 0u64;
    let mut after_first_write = false;
    for (sc, k) in &points {
        let dir = scratch_dir("c15k");
        let (l, old, new, p2) = build(dir.path());
        let log = dir.path().join("trace.log");
        let st = run_traced(&l, &p2, &log, Some((sc, *k)));
        runs += 1;
        let killed = st.map(|s| !s.success()).unwrap_or(true);
        if sc == "rename" || sc == "renameat" || sc == "renameat2" || sc == "fchmod" {
            after_first_write = true;
        }
        for (path, newb) in &new {
            let rel = path.strip_prefix(dir.path()).unwrap().display().to_string();
            let now = std::fs::read(path).ok();
            let oldb = old.get(path).cloned().flatten();
            let ok = now.as_deref() == Some(newb.as_slice()) || now == oldb;
            if !ok {
                return Err(fail(
                    "torn-output-after-kill",
                    format!("killed on entry to {sc} #{k}: {rel} holds neither its complete old nor its complete new content ({} bytes; old {:?}, new {} bytes)", now.as_ref().map(|b| b.len()).unwrap_or(0), oldb.as_ref().map(|b| b.len()), newb.len()),
                    json!({"project": describe(&l, &p2), "kill_point": format!("{sc} #{k}"), "killed": killed, "content_now": now.map(|b| String::from_utf8_lossy(&b).chars().take(400).collect::<String>())}),
                ));
            }
        }
    }
    Ok((runs, after_first_write))
}

pub fn replay(v: &Value) -> Outcome {
    let Some(c) = choices_from_json(v) else { return Outcome::skip("replay file without choices") };
    let r = match v["part"].as_str() {
        Some("histories") => check_history(&c).map(|_| ()),
        Some("kills") => check_kills(&c).map(|_| ()),
        _ => check_layout(&gen_proj(&mut Chooser::new(&c))).map(|_| ()),
    };
    match r {
        Ok(()) => Outcome::pass(None),
        Err(f) => Outcome { verdict: Verdict::Fail(f), nontrivial: None, sample: None, counters: vec![] },
    }
}

pub fn run(env: &Env, known: &Known, started: Instant, replayed: u64, replay_violations: Vec<Violation>) -> i32 {
    let mut stats = Stats::default();
    let mut violations: Vec<Violation> = vec![];
    let mut record = |part: &str, c: &Vec<u32>, r: Result<bool, Failure>, stats: &mut Stats, violations: &mut Vec<Violation>| {
        stats.evaluations += 1;
        match r {
            Ok(nt) => {
                if nt {
                    stats.nontrivial.insert(stable_hash(&(part, c)));
                }
            }
            Err(f) => {
                if known.is_listed_known(PID, &f.key) {
                    known.announce(PID, &f.key);
                } else if violations.len() < 8 {
                    // shrink with the single-case oracle (bounded)
                    let key = f.key.clone();
                    let part_s = part.to_owned();
                    let small = shrink_choices(c.clone(), 24, |cand| {
                        let r = match part_s.as_str() {
                            "histories" => check_history(cand).map(|_| ()),
                            "kills" => check_kills(cand).map(|_| ()),
                            _ => check_layout(&gen_proj(&mut Chooser::new(cand))).map(|_| ()),
                        };
                        matches!(r, Err(ff) if ff.key == key)
                    });
                    violations.push(Violation { failure: f, choices: Some(small), part: part.to_owned() });
                }
            }
        }
    };
    // (1) path model
    let n = env.tier.pick(1000, 20000);
    let seqs = sample_choices(env, PID, "layouts", n, 64);
    let mut labels_acc: BTreeMap<String, u64> = BTreeMap::new();
    let res: Vec<(Result<bool, Failure>, Vec<&'static str>)> = seqs
        .par_iter()
        .map(|c| {
            let mut ch = Chooser::new(c);
            let p = gen_proj(&mut ch);
            (check_layout(&p), ch.labels.iter().copied().collect())
        })
        .collect();
    for ((r, labels), c) in res.into_iter().zip(&seqs) {
        for lb in labels {
            *labels_acc.entry(lb.to_owned()).or_default() += 1;
        }
        record("layouts", c, r, &mut stats, &mut violations);
    }
    stats.labels = labels_acc;
    stats.counters.insert("layout_runs".into(), n as u64);
    stats.samples.push(json!({"layout": {"sources": ["d/./e/MainWindow.qml", "../X1.qml"], "cwd": "sub", "args": ["-O", "out/deep/er", "--no-lowercase-file-name"]}}));
    // (2) histories
    let n = env.tier.pick(240, 6000);
    let seqs = sample_choices(env, PID, "histories", n, 64);
    let res: Vec<Result<bool, Failure>> = seqs.par_iter().map(|c| check_history(c)).collect();
    for (r, c) in res.into_iter().zip(&seqs) {
        record("histories", c, r, &mut stats, &mut violations);
    }
    stats.counters.insert("histories".into(), n as u64);
    stats.samples.push(json!({"history": "Run, EditConst(0), Run, Run, DeleteOutput(0, header), Touch(0), Run, ToggleNoLower, Run"}));
    // (3) enumerated kill points
    if strace_ok() {
        let n = env.tier.pick(96, 2000);
        let seqs = sample_choices(env, PID, "kills", n, 64);
        let res: Vec<Result<(u64, bool), Failure>> = seqs.par_iter().map(|c| check_kills(c)).collect();
        let mut kill_runs = 0u64;
        for (r, c) in res.into_iter().zip(&seqs) {
            let r2 = r.map(|(k, nt)| {
                kill_runs += k;
                nt
            });
            record("kills", c, r2, &mut stats, &mut violations);
        }
        stats.counters.insert("kill_scenarios".into(), n as u64);
        stats.counters.insert("killed_runs".into(), kill_runs);
        stats.samples.push(json!({"kill": "every openat(O_CREAT) / write to a created fd / fchmod / rename / unlink / mkdir below the project, SIGKILL on entry (strace inject); old outputs present, sources changed"}));
    } else {
        eprintln!("[qv] C15: strace cannot trace here; the kill-point part is skipped (recorded in the evidence)");
        stats.counters.insert("kill_scenarios".into(), 0);
    }
    translate::remove_foreign_types_file();
    let ev = Evidence {
        env, pid: PID, level: "fault_enumeration",
        rule: "scratch projects with 1-5 sources in the path shapes X.qml, ./X.qml, d/X.qml, d/./e/X.qml, d/../X.qml, ../X.qml and absolute, stems in mixed case and with caseless non-ASCII letters, -O out | out/deep/er | ./out | absolute | none, --no-lowercase-file-name, --no-dynamic-binding, cwd at the project root or in a sub-directory. (1) path model from the statement: after a successful run the tree difference is exactly the expected outputs (x.ui, uisupport_x.h next to the source or under the same relative path inside -O), each byte-equal to the in-process translation; escaping sources with -O => exit 1 and empty difference. (2) histories of 3-10 steps over {run, edit so that only the .ui / only the header / both change, rewrite identical bytes, touch, delete an output, toggle the file-name rule}: after every run each output holds the current translation, and an output that already held it keeps inode and mtime. (3) kill points: a tracing run lists every openat(O_CREAT)/write to a created descriptor/fchmod/rename/unlink/mkdir below the project; for each of them the run is repeated with SIGKILL on entry to exactly that call (strace inject); afterwards every output path holds its complete old or complete new bytes (or is absent if it was). Non-trivial: layout = -O with a nested source directory; history = a no-op re-run after a real change; kill scenario = kill lands after the first temp-file write.",
        assumptions: vec!["crash points are system-call boundaries of the qmluic process; durability across power loss (no fsync) is outside the statement".into(), "stray temporary files after a kill are outside the statement".into()],
        extra: json!({}),
    };
    finish(&ev, stats, violations, replayed, replay_violations, started)
}
