//! C17 — type lookups agree with the class graph and always terminate
//! (DESIGN.md section 3, C17).

use super::finish;
use crate::common::*;
use qmluic::metatype::{AccessSpecifier, Class as MClass, Enum as MEnum, Method as MMethod, Property as MProperty, SuperClassSpecifier};
use qmluic::typemap::{ModuleData, ModuleId, NamedType, TypeMap, TypeSpace};
use serde_json::{json, Value};
use std::collections::{BTreeMap, BTreeSet};
use std::time::{Duration, Instant};

const PID: &str = "C17";

#[derive(Clone, Debug, PartialEq, Eq, Hash)]
pub struct GEnum {
    pub name: String,
    pub scoped: bool,
    pub flag_alias: Option<String>,
    pub variants: Vec<String>,
}

#[derive(Clone, Debug, PartialEq, Eq, Hash)]
pub struct GClass {
    pub name: String,
    /// (name, access: 0 public, 1 protected, 2 private)
    pub supers: Vec<(String, u8)>,
    pub props: Vec<String>,
    /// (name, arity, access)
    pub methods: Vec<(String, usize, u8)>,
    pub enums: Vec<GEnum>,
}

#[derive(Clone, Debug, PartialEq, Eq, Hash)]
pub struct Graph {
    pub classes: Vec<GClass>,
}

const PROPS: &[&str] = &["p0", "p1", "p2", "p3", "p4", "p5"];
const METHS: &[&str] = &["m0", "m1", "m2", "m3", "m4", "m5"];
const ENUMS: &[&str] = &["E0", "E1", "E2", "E3"];
const VARIANTS: &[&str] = &["V0", "V1", "V2", "V3", "V4", "V5", "V6", "V7"];

pub fn gen_graph(ch: &mut Chooser) -> Graph {
    let n = 1 + ch.below(14);
    let mut classes: Vec<GClass> = vec![];
    for i in 0..n {
        let name = format!("C{i}");
        let mut supers = vec![];
        let ns = ch.weighted(&[25, 40, 25, 10]);
        for _ in 0..ns {
            let target = match ch.weighted(&[55, 15, 10, 6, 8, 6]) {
                // earlier class: DAGs and diamonds
                0 if i > 0 => format!("C{}", ch.below(i)),
                // any class, also later ones: cycles
                1 => {
                    ch.label("edge-to-any-class");
                    format!("C{}", ch.below(n))
                }
                2 => {
                    ch.label("dangling-super");
                    format!("Missing{}", ch.below(3))
                }
                3 => {
                    ch.label("self-super");
                    name.clone()
                }
                4 if i > 0 => {
                    // an enum as super class: invalid super class type. Known finding: a scoped
                    // super name whose head class has to search ITS bases (and reaches this class
                    // again) recurses without bound; only heads that answer without touching
                    // their bases are generated here, the probe covers the rest in a child process.
                    let k = ch.below(i);
                    let en = (*ch.pick(ENUMS)).to_owned();
                    let head: &GClass = &classes[k];
                    if head.enums.iter().any(|e| e.name == en) || head.supers.is_empty() {
                        ch.label("enum-as-super");
                        format!("C{k}::{en}")
                    } else {
                        format!("C{k}")
                    }
                }
                _ => format!("C{}", ch.below(i.max(1))),
            };
            let access = ch.weighted(&[75, 12, 13]) as u8;
            if access != 0 {
                ch.label("non-public-super");
            }
            supers.push((target, access));
        }
        let mut props = vec![];
        for _ in 0..ch.below(5) {
            let p = (*ch.pick(PROPS)).to_owned();
            if !props.contains(&p) {
                props.push(p);
            }
        }
        let mut methods = vec![];
        for _ in 0..ch.below(5) {
            let m = (*ch.pick(METHS)).to_owned();
            let arity = ch.below(3);
            let access = ch.weighted(&[80, 10, 10]) as u8;
            if !methods.contains(&(m.clone(), arity, access)) {
                methods.push((m, arity, access));
            }
        }
        let mut enums: Vec<GEnum> = vec![];
        let mut used_variants: BTreeSet<String> = BTreeSet::new();
        for _ in 0..ch.below(3) {
            let en = (*ch.pick(ENUMS)).to_owned();
            if enums.iter().any(|e| e.name == en) {
                continue;
            }
            let mut variants = vec![];
            for _ in 0..1 + ch.below(3) {
                let v = (*ch.pick(VARIANTS)).to_owned();
                if used_variants.insert(v.clone()) {
                    variants.push(v);
                }
            }
            if variants.is_empty() {
                continue;
            }
            let scoped = ch.chance(1, 5);
            enums.push(GEnum { name: en, scoped, flag_alias: None, variants });
        }
        classes.push(GClass { name, supers, props, methods, enums });
    }
    Graph { classes }
}

fn access(a: u8) -> AccessSpecifier {
    match a {
        0 => AccessSpecifier::Public,
        1 => AccessSpecifier::Protected,
        _ => AccessSpecifier::Private,
    }
}

pub fn to_meta(g: &Graph) -> Vec<MClass> {
    g.classes
        .iter()
        .map(|c| {
            let mut m = MClass::new(c.name.clone());
            m.super_classes = c.supers.iter().map(|(n, a)| SuperClassSpecifier { name: n.clone(), access: access(*a) }).collect();
            m.properties = c.props.iter().map(|p| MProperty { read: Some(p.clone()), ..MProperty::new(p.clone(), "int") }).collect();
            for (name, arity, acc) in &c.methods {
                let mut mm = MMethod::with_argument_types(name.clone(), "void", (0..*arity).map(|_| "int"));
                mm.access = access(*acc);
                m.methods.push(mm);
            }
            m.enums = c
                .enums
                .iter()
                .map(|e| MEnum { name: e.name.clone(), alias: e.flag_alias.clone(), is_class: e.scoped, is_flag: e.flag_alias.is_some(), values: e.variants.clone() })
                .collect();
            m
        })
        .collect()
}

/// Independent graph oracle over public, resolvable edges.
pub struct Oracle<'g> {
    g: &'g Graph,
    idx: BTreeMap<&'g str, usize>,
}

#[derive(Clone, Copy, PartialEq, Eq, Debug)]
enum Edge {
    Class(usize),
    /// unknown name, or a name that denotes something that is not a class
    Bad,
}

impl<'g> Oracle<'g> {
    pub fn new(g: &'g Graph) -> Self {
        Oracle { g, idx: g.classes.iter().enumerate().map(|(i, c)| (c.name.as_str(), i)).collect() }
    }
    fn edges(&self, a: usize) -> Vec<Edge> {
        self.g.classes[a].supers.iter().filter(|(_, acc)| *acc == 0).map(|(n, _)| self.idx.get(n.as_str()).map(|i| Edge::Class(*i)).unwrap_or(Edge::Bad)).collect()
    }
    /// ancestors-or-self through public resolvable edges, and whether a bad reference is reachable
    pub fn closure(&self, a: usize) -> (BTreeSet<usize>, bool) {
        let mut seen = BTreeSet::new();
        let mut tainted = false;
        let mut stack = vec![a];
        while let Some(x) = stack.pop() {
            if !seen.insert(x) {
                continue;
            }
            for e in self.edges(x) {
                match e {
                    Edge::Class(y) => stack.push(y),
                    Edge::Bad => tainted = true,
                }
            }
        }
        (seen, tainted)
    }
    fn declarers(&self, a: usize, f: &dyn Fn(&GClass) -> bool) -> BTreeSet<usize> {
        self.closure(a).0.into_iter().filter(|i| f(&self.g.classes[*i])).collect()
    }
}

type Q = Result<(), (String, String)>;

fn check_lookup(what: &str, a: &GClass, name: &str, result: Option<Result<String, String>>, declarers: &BTreeSet<usize>, own: bool, tainted: bool, g: &Graph) -> Q {
    let dn: Vec<&str> = declarers.iter().map(|i| g.classes[*i].name.as_str()).collect();
    match result {
        Some(Ok(owner)) => {
            if !dn.contains(&owner.as_str()) {
                return Err((format!("{what}-wrong-owner"), format!("{}.{what}({name}) returns the declaration of {owner}; declaring ancestors-or-self: {:?}", a.name, dn)));
            }
            if own && owner != a.name {
                return Err((format!("{what}-own-declaration-not-preferred"), format!("{} declares {name} itself, but {what} returns the declaration of {owner}", a.name)));
            }
            Ok(())
        }
        None => {
            if !declarers.is_empty() {
                return Err((format!("{what}-not-found"), format!("{}.{what}({name}) finds nothing although {:?} declare it", a.name, dn)));
            }
            Ok(())
        }
        Some(Err(e)) => {
            if !tainted {
                return Err((format!("{what}-error-on-consistent-graph"), format!("{}.{what}({name}) returns the error {e:?} although every public super class reference reachable from it resolves", a.name)));
            }
            Ok(())
        }
    }
}

/// Runs every query of the graph against the oracle. Returns the number of queries.
pub fn check_graph(g: &Graph) -> Result<u64, (String, String)> {
    let mut type_map = TypeMap::with_primitive_types();
    let mut module_data = ModuleData::with_builtins();
    module_data.extend(to_meta(g));
    type_map.insert_module(ModuleId::Named("m"), module_data);
    let module = type_map.get_module(ModuleId::Named("m")).ok_or(("setup".to_owned(), "module not found".to_owned()))?;
    let o = Oracle::new(g);
    let mut classes = vec![];
    for c in &g.classes {
        match module.get_type(&c.name) {
            Some(Ok(NamedType::Class(k))) => classes.push(k),
            other => return Err(("class-not-found".into(), format!("class {} loaded as type information is not found as a class: {:?}", c.name, other.map(|r| r.map(|_| "non-class"))))),
        }
    }
    let mut queries = 0u64;
    let closures: Vec<(BTreeSet<usize>, bool)> = (0..g.classes.len()).map(|i| o.closure(i)).collect();
    for (i, a) in g.classes.iter().enumerate() {
        let (anc, tainted) = &closures[i];
        // derives-from and common base for every pair
        for (j, b) in g.classes.iter().enumerate() {
            queries += 2;
            let got = classes[i].is_derived_from(&classes[j]);
            let want = anc.contains(&j);
            if got && !want {
                return Err(("derives-wrong-positive".into(), format!("{}.is_derived_from({}) is true, but {} is not reachable through public inheritance", a.name, b.name, b.name)));
            }
            if !got && want && !tainted {
                return Err(("derives-wrong-negative".into(), format!("{}.is_derived_from({}) is false, but {} is a public ancestor-or-self", a.name, b.name, b.name)));
            }
            let (anc_b, tainted_b) = &closures[j];
            let common: BTreeSet<usize> = anc.intersection(anc_b).copied().collect();
            match classes[i].common_base_class(&classes[j]) {
                Some(Ok(c)) => {
                    let Some(k) = g.classes.iter().position(|x| x.name == c.name()) else {
                        return Err(("common-base-unknown".into(), format!("common_base_class({}, {}) returns unknown class {}", a.name, b.name, c.name())));
                    };
                    if !common.contains(&k) {
                        return Err(("common-base-not-an-ancestor".into(), format!("common_base_class({}, {}) = {}, which is not an ancestor-or-self of both", a.name, b.name, c.name())));
                    }
                }
                None => {
                    if !common.is_empty() && !tainted && !tainted_b {
                        return Err(("common-base-missed".into(), format!("common_base_class({}, {}) finds nothing although {:?} are common ancestors", a.name, b.name, common.iter().map(|k| &g.classes[*k].name).collect::<Vec<_>>())));
                    }
                }
                Some(Err(e)) => {
                    if !tainted && !tainted_b {
                        return Err(("common-base-error-on-consistent-graph".into(), format!("common_base_class({}, {}) returns {e:?} on a consistent graph", a.name, b.name)));
                    }
                }
            }
        }
        for p in PROPS.iter().chain(&["nosuch"]) {
            queries += 1;
            let d = o.declarers(i, &|c| c.props.iter().any(|x| x == p));
            let r = classes[i].get_property(p).map(|r| r.map(|p| p.object_class().name().to_owned()).map_err(|e| e.to_string()));
            check_lookup("get_property", a, p, r, &d, a.props.iter().any(|x| x == p), *tainted, g)?;
        }
        for m in METHS.iter().chain(&["nosuch"]) {
            queries += 1;
            let d = o.declarers(i, &|c| c.methods.iter().any(|(n, _, acc)| n == m && *acc == 0));
            let r = classes[i].get_public_method(m).map(|r| r.map(|ms| ms.iter().next().map(|x| x.object_class().name().to_owned()).unwrap_or_default()).map_err(|e| e.to_string()));
            check_lookup("get_public_method", a, m, r, &d, a.methods.iter().any(|(n, _, acc)| n == m && *acc == 0), *tainted, g)?;
        }
        for e in ENUMS.iter().chain(&["NoSuch"]) {
            queries += 1;
            let d = o.declarers(i, &|c| c.enums.iter().any(|x| x.name == *e));
            let r = classes[i].get_type(e).map(|r| {
                r.map_err(|e| e.to_string()).and_then(|t| match t {
                    NamedType::Enum(en) => Ok(en.lexical_parent().map(|p| p.name().to_owned()).unwrap_or_default()),
                    _ => Err("not an enum".to_owned()),
                })
            });
            check_lookup("get_type", a, e, r, &d, a.enums.iter().any(|x| x.name == *e), *tainted, g)?;
        }
        for v in VARIANTS.iter().chain(&["NoSuch"]) {
            queries += 1;
            let d = o.declarers(i, &|c| c.enums.iter().any(|x| !x.scoped && x.variants.iter().any(|y| y == v)));
            let own = a.enums.iter().any(|x| !x.scoped && x.variants.iter().any(|y| y == v));
            let mut listed = true;
            let r = classes[i].get_enum_by_variant(v).map(|r| {
                r.map(|en| {
                    listed = en.contains_variant(v);
                    en.lexical_parent().map(|p| p.name().to_owned()).unwrap_or_default()
                })
                .map_err(|e| e.to_string())
            });
            if !listed {
                return Err(("variant-resolves-to-enum-without-it".into(), format!("{}.get_enum_by_variant({v}) returns an enum that does not list {v}", a.name)));
            }
            check_lookup("get_enum_by_variant", a, v, r, &d, own, *tainted, g)?;
        }
    }
    Ok(queries)
}

fn with_watchdog<T: Send + 'static>(limit: Duration, f: impl FnOnce() -> T + Send + 'static) -> Option<T> {
    let (tx, rx) = std::sync::mpsc::channel();
    std::thread::Builder::new()
        .stack_size(64 << 20)
        .spawn(move || {
            let _ = tx.send(f());
        })
        .ok()?;
    rx.recv_timeout(limit).ok()
}

pub fn run_case(ch: &mut Chooser) -> Outcome {
    let g = gen_graph(ch);
    let o = Oracle::new(&g);
    let has_diamond = (0..g.classes.len()).any(|i| {
        let e: Vec<usize> = o.edges(i).into_iter().filter_map(|e| if let Edge::Class(c) = e { Some(c) } else { None }).collect();
        e.len() >= 2 && e.iter().enumerate().any(|(k, x)| e[k + 1..].iter().any(|y| x != y && !o.closure(*x).0.is_disjoint(&o.closure(*y).0)))
    });
    let has_cycle = (0..g.classes.len()).any(|i| o.edges(i).into_iter().any(|e| matches!(e, Edge::Class(c) if o.closure(c).0.contains(&i))));
    let has_dangling = (0..g.classes.len()).any(|i| o.edges(i).contains(&Edge::Bad));
    let shadowed = PROPS.iter().any(|p| g.classes.iter().filter(|c| c.props.iter().any(|x| x == p)).count() >= 2);
    if has_diamond { ch.label("graph-with-diamond"); }
    if has_cycle { ch.label("graph-with-cycle"); }
    if has_dangling { ch.label("graph-with-unresolved-super"); }
    if std::env::var_os("QV_C17_DEBUG").is_some() {
        eprintln!("GRAPH {}", serde_json::to_string(&g.classes.iter().map(|c| (c.name.clone(), c.supers.clone())).collect::<Vec<_>>()).unwrap());
    }
    let r = catch(|| check_graph(&g));
    let detail = |why: &str| json!({"graph": g.classes.iter().map(|c| json!({"name": c.name, "supers": c.supers, "props": c.props, "methods": c.methods, "enums": c.enums.iter().map(|e| json!({"name": e.name, "scoped": e.scoped, "variants": e.variants})).collect::<Vec<_>>() })).collect::<Vec<_>>(), "why": why});
    match r {
        Err(p) => Outcome::fail("c17-panic", format!("type map query panicked: {p}"), detail(&p)),
        Ok(Err((a, why))) => Outcome::fail(format!("c17-{a}"), why.clone(), detail(&why)),
        Ok(Ok(q)) => {
            let nt = ((has_diamond || has_cycle || has_dangling) && shadowed).then(|| stable_hash(&g));
            Outcome::pass(nt).count("queries", q).with_sample(ch.want_sample.then(|| detail("sample")))
        }
    }
}

/// Runs in a child process (`qv c17-probe`): a scoped super-class name that needs its own
/// class's bases. Known finding: unbounded recursion, the process dies of stack exhaustion.
pub fn probe_main() -> i32 {
    let g = Graph {
        classes: vec![
            GClass { name: "A".into(), supers: vec![("B".into(), 0)], props: vec![], methods: vec![], enums: vec![] },
            GClass { name: "B".into(), supers: vec![("A::E0".into(), 0)], props: vec!["p0".into()], methods: vec![], enums: vec![] },
        ],
    };
    match check_graph(&g) {
        Ok(_) => 0,
        Err((a, why)) => {
            eprintln!("{a}: {why}");
            3
        }
    }
}

fn run_probe_in_child(known: &Known) -> Option<Violation> {
    use std::os::unix::process::ExitStatusExt;
    let exe = std::env::current_exe().ok()?;
    let out = std::process::Command::new(exe).arg("c17-probe").stdin(std::process::Stdio::null()).output().ok()?;
    if out.status.success() {
        return None; // terminates and agrees with the oracle: the finding is gone
    }
    let died = out.status.signal().is_some();
    let key = if died { "c17-scoped-super-name-recursion" } else { "c17-probe-disagrees" };
    if known.is_listed_known(PID, key) {
        known.announce(PID, key);
        return None;
    }
    Some(Violation {
        failure: Failure { key: key.into(), what: format!("class graph A:[B], B:[A::E0]: child process ended with {:?} / signal {:?}: {}", out.status.code(), out.status.signal(), String::from_utf8_lossy(&out.stderr).lines().last().unwrap_or("")), detail: json!({"graph": "A: [B]; B: [A::E0] (public)", "stderr": String::from_utf8_lossy(&out.stderr)}) },
        choices: None,
        part: "probe".into(),
    })
}

pub fn replay(v: &Value) -> Outcome {
    match choices_from_json(v) {
        Some(c) => run_case(&mut Chooser::new(&c)),
        None => Outcome::skip("replay file without choices"),
    }
}

pub fn run(env: &Env, known: &Known, started: Instant, replayed: u64, replay_violations: Vec<Violation>) -> i32 {
    let cfg = ChoiceRun { env, pid: PID, part: "graphs", cases: env.tier.pick(120_000, 1_500_000), max_len: 600, known };
    // in child processes: unbounded recursion or allocation must become a violation, not a dead harness
    let iso = crate::isolate::run_choices_isolated(&cfg);
    let mut rr = iso.result;
    if iso.inconclusive && rr.violations.is_empty() {
        eprintln!("[qv] C17: a worker died and the death could not be reproduced: inconclusive");
        return 2;
    }
    if let Some(v) = run_probe_in_child(known) {
        rr.violations.push(v);
    }
    let ev = Evidence {
        env, pid: PID, level: "exploration",
        rule: "class graphs of 1-14 classes; each class has 0-3 super-class specifiers chosen among earlier classes (DAGs, diamonds), any class (cycles), unknown names, its own name and names of enums (invalid super class type), with public/protected/private access; 0-4 properties, 0-4 methods (overloads, non-public ones) and 0-2 enums (scoped and unscoped) from small name pools so that shadowing and multiple inheritance of one name are common; loaded through ModuleData::extend / TypeMap::insert_module. Queries: every pair for is_derived_from and common_base_class, every (class, pool name + absent name) for get_property, get_public_method, get_type, get_enum_by_variant. Oracle: reachability over public resolvable edges written in the harness: no wrong positive ever; exactness whenever no unresolvable/invalid public super reference is reachable from the queried class (else the error arm is also accepted); Ok results must be owned by a declaring ancestor-or-self and by the class itself when it declares the name; enum returned for a variant lists it; every query set finishes (10 s watchdog = 1000x normal, confirmed alone with 120 s). Non-trivial = graph with a diamond, cycle or dangling reference and a shadowed property name; distinct by graph hash.",
        assumptions: vec!["when an unresolvable or invalid public super-class reference is reachable from the queried class, the API's error result (and `false` for the boolean query) is accepted: TypeMapError is the documented way an inconsistent type map is reported".into(),
            "termination is judged by a watchdog with margin and confirmation, not proved".into()],
        extra: json!({}),
    };
    finish(&ev, rr.stats, rr.violations, replayed, replay_violations, started)
}
