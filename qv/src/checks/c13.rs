//! C13 — signal callbacks are wired to the right signal and do what the source says
//! (DESIGN.md section 3, C13): handlers are compiled and run; the trace of setter / method / log
//! calls after each emission is compared with the reference interpreter's trace.

use super::finish;
use crate::common::*;
use crate::cxx::{self, DocUnit, Step};
use crate::cxxrun::*;
use crate::doc::*;
use crate::form;
use crate::hdr;
use crate::lang::*;
use crate::langdoc::*;
use crate::langgen::*;
use crate::translate::{translate, Mode};
use serde_json::{json, Value};
use std::time::Instant;

const PID: &str = "C13";

fn gen_opts() -> GenOpts {
    let mut o = super::c01::gen_opts();
    o.max_stmt_depth = 3;
    o
}

fn cxx_type(t: &T) -> String {
    match t {
        T::Int => "int".into(),
        T::Uint => "uint".into(),
        T::Double => "double".into(),
        T::Bool => "bool".into(),
        T::Str => "const QString &".into(),
        T::Ptr(c) => format!("{c}*"),
        T::Mode => "VSrc::Mode".into(),
        T::Opts => "VSrc::Opts".into(),
        T::ListInt => "const QList<int> &".into(),
        T::ListStr => "const QStringList &".into(),
        T::Variant => "const QVariant &".into(),
        T::Void => "void".into(),
    }
}

fn squash(s: &str) -> String {
    s.chars().filter(|c| !c.is_whitespace()).collect()
}

pub fn trace_lines(trace: &[TraceItem], names: &[String]) -> Vec<String> {
    trace
        .iter()
        .map(|t| match t {
            TraceItem::Set(i, p, v) => format!("set {} {} {}", names[*i], p, cxx::enc_value(v, names)),
            TraceItem::Call(i, m, vs) => {
                let mut s = format!("call {} {}", names[*i], m);
                for v in vs {
                    s.push(' ');
                    s.push_str(&cxx::enc_value(v, names));
                }
                s
            }
            TraceItem::Log(lv, vs) => {
                let level = match *lv {
                    "log" | "debug" => "debug",
                    "info" => "info",
                    "warn" => "warning",
                    _ => "critical",
                };
                let mut s = format!("log {level}");
                for v in vs {
                    s.push(' ');
                    s.push_str(&cxx::enc_value(v, names));
                }
                s
            }
        })
        .collect()
}

/// static part: exactly one connect per handler, on the declaring object, naming the longest
/// overload, with the declared parameters as lambda parameters
fn check_wiring(doc: &LangDoc, h: &hdr::Header) -> Result<(), (String, String)> {
    let setups: Vec<&hdr::Func> = h.funcs.iter().filter(|f| f.name.starts_with("setup")).collect();
    let all: Vec<hdr::Connect> = setups.iter().flat_map(|f| hdr::Header::connects(f)).collect();
    for hs in &doc.handlers {
        let obj = &doc.world.objs[hs.host].id;
        let sender = format!("this->ui_->{obj}");
        let mine: Vec<&hdr::Connect> = all.iter().filter(|c| c.sender == sender && c.signal == format!("VSig::{}", hs.signal)).collect();
        if mine.len() != 1 {
            return Err(("connect-count".into(), format!("handler on{} of {obj}: {} connect statements name {sender} and VSig::{}", cap(hs.signal), mine.len(), hs.signal)));
        }
        let c = mine[0];
        let want: Vec<String> = hs.signal_params.iter().map(cxx_type).collect();
        let got: Vec<String> = hdr::split_top(&c.overload).iter().map(|s| squash(s)).filter(|s| !s.is_empty()).collect();
        if got != want.iter().map(|s| squash(s)).collect::<Vec<_>>() {
            return Err(("overload".into(), format!("handler on{} of {obj}: connected to QOverload<{}>, the variant carrying the most arguments is <{}>", cap(hs.signal), c.overload, want.join(", "))));
        }
        // lambda parameters: the declared ones, in order
        let lam = c.lambda.trim();
        let params = lam.strip_prefix("[this](").and_then(|r| r.split_once(')')).map(|(p, _)| p.to_owned()).unwrap_or_default();
        // (by value or by const reference is the same to the caller)
        let bare = |s: &str| squash(&s.replace("const ", "").replace('&', ""));
        let got: Vec<String> = hdr::split_top(&params).iter().map(|p| bare(p.trim().rsplit_once(' ').map(|(t, _)| t).unwrap_or(""))).filter(|s| !s.is_empty()).collect();
        let want: Vec<String> = hs.signal_params.iter().take(hs.program.params).map(|t| bare(&cxx_type(t))).collect();
        if got != want {
            return Err(("lambda-parameters".into(), format!("handler on{} of {obj}: lambda takes ({params}), declared parameter types are ({})", cap(hs.signal), want.join(", "))));
        }
        if !c.lambda.contains("this->on") {
            return Err(("lambda-target".into(), format!("handler on{} of {obj}: the lambda does not forward to an on…() function: {}", cap(hs.signal), c.lambda)));
        }
    }
    // nothing else is connected to a callback
    let callbacks = all.iter().filter(|c| c.lambda.contains("this->on")).count();
    if callbacks != doc.handlers.len() {
        return Err(("connect-count".into(), format!("{} callback connections for {} handlers", callbacks, doc.handlers.len())));
    }
    Ok(())
}

fn dst_expect(world: &World, state: &[ObjState], names: &[String]) -> Vec<(String, String, String)> {
    let mut out = vec![];
    for (i, o) in world.objs.iter().enumerate() {
        if o.class != "VDst" {
            continue;
        }
        for (p, t) in DST_PROPS {
            if matches!(t, T::Variant) {
                continue; // default-constructed QVariant has no model value
            }
            out.push((names[i].clone(), (*p).to_owned(), cxx::enc_value(&state[i].props[p], names)));
        }
    }
    out
}

pub fn build_case(ch: &mut Chooser, name: &str) -> Built {
    let nh = 1 + ch.below(4);
    let doc = gen_lang_doc(ch, 0, nh, &gen_opts());
    if doc.handlers.is_empty() {
        return Built::Skip("no handler generated");
    }
    let printed = print_doc(DEFAULT_IMPORTS, &doc.root, Style::default());
    let t = translate(&printed.text, name, Mode::Generate);
    if let Some(p) = &t.panic {
        return Built::Fail(Failure { key: "c13-panic".into(), what: format!("translator panicked: {p}"), detail: json!({"qml": printed.text}) });
    }
    if !t.accepted() {
        return Built::Skip("generated program rejected (judged by C05)");
    }
    let (Some(ui), Some(header)) = (t.ui.as_deref(), t.header.clone()) else { return Built::Skip("no output") };
    let Ok(form) = form::decode(ui) else { return Built::Skip("ui not decodable (judged by C09)") };
    let Ok(h) = hdr::scan(&String::from_utf8_lossy(&header)) else { return Built::Skip("header not scannable (judged by C06/C16)") };
    if let Err((aspect, why)) = check_wiring(&doc, &h) {
        return Built::Fail(Failure { key: format!("c13-{aspect}"), what: why.clone(), detail: json!({"qml": printed.text, "why": why, "header": String::from_utf8_lossy(&header)}) });
    }
    let world = &doc.world;
    let names = obj_names(world);
    let mut state = gen_world_state(ch, world);
    let init = cxx_init(world, &state);
    let mut steps = vec![Step { desc: "setup()".into(), cxx: "support.setup();".into(), tracing: true, expect: dst_expect(world, &state, &names), expect_trace: vec![] }];
    let mut dropped = 0u64;
    let mut emissions = 0u64;
    let mut effects = 0u64;
    let mut distinct_traces = std::collections::BTreeSet::new();
    let n_rounds = 2 + ch.below(4);
    for _ in 0..n_rounds {
        // optional change of a source property between emissions
        if ch.chance(1, 2) {
            let srcs = world.of_class("VSrc");
            let o = *ch.pick(&srcs);
            let (p, ty) = ch.pick(SRC_PROPS).clone();
            let v = gen_value_of(ch, &ty, world);
            state[o].props.insert(p, v.clone());
            steps.push(Step { desc: format!("{}.{} = {}", names[o], p, cxx::enc_value(&v, &names)), cxx: cxx_set(world, o, p, &v), tracing: false, expect: vec![], expect_trace: vec![] });
        }
        for hs in &doc.handlers {
            if !ch.chance(3, 4) {
                continue;
            }
            let args: Vec<V> = hs.signal_params.iter().map(|t| gen_value_of(ch, t, world)).collect();
            let mut objs = state.clone();
            let mut it = Interp { objs: &mut objs, this: hs.host, locals: vec![], trace: vec![], reads: vec![], steps: 0 };
            match it.run(&hs.program, &args) {
                Ok(_) => {
                    let lines = trace_lines(&it.trace, &names);
                    effects += lines.len() as u64;
                    distinct_traces.insert((hs.signal, lines.clone()));
                    state = objs;
                    let call = format!("{}->{}({});", names[hs.host], hs.signal, args.iter().map(|a| cxx::cxx_value(a, &names)).collect::<Vec<_>>().join(", "));
                    steps.push(Step {
                        desc: format!("emit {}.{}({})", names[hs.host], hs.signal, args.iter().map(|a| cxx::enc_value(a, &names)).collect::<Vec<_>>().join(", ")),
                        cxx: call,
                        tracing: true,
                        expect: dst_expect(world, &state, &names),
                        expect_trace: lines,
                    });
                    emissions += 1;
                }
                Err(_) => dropped += 1,
            }
        }
        // a signal nobody handles: nothing may happen
        if ch.chance(1, 2) {
            let sigs = world.exactly("VSig");
            let g = *ch.pick(&sigs);
            let (sig, params) = *ch.pick(SIG_SIGNALS);
            if !doc.handlers.iter().any(|h| h.host == g && h.signal == sig) {
                let args: Vec<V> = params.iter().map(|t| gen_value_of(ch, t, world)).collect();
                steps.push(Step {
                    desc: format!("emit unhandled {}.{}", names[g], sig),
                    cxx: format!("{}->{}({});", names[g], sig, args.iter().map(|a| cxx::cxx_value(a, &names)).collect::<Vec<_>>().join(", ")),
                    tracing: true,
                    expect: dst_expect(world, &state, &names),
                    expect_trace: vec![],
                });
            }
        }
    }
    if emissions == 0 {
        return Built::Skip("no defined emission");
    }
    let fewer_params = doc.handlers.iter().any(|h| h.program.params < h.signal_params.len());
    let nontrivial = (distinct_traces.len() >= 2 || fewer_params).then(|| stable_hash(&printed.text));
    if fewer_params {
        ch.label("fewer-parameters-than-signal-arguments");
    }
    let unit = DocUnit { name: name.to_owned(), header, form, init, steps };
    let sample = json!({"qml": printed.text, "steps": unit.steps.iter().map(|s| json!({"step": s.desc, "trace": s.expect_trace})).collect::<Vec<_>>()});
    Built::Case(Box::new(CxxCase {
        qml: printed.text,
        nontrivial,
        labels: ch.labels.clone(),
        counters: vec![("handlers", doc.handlers.len() as u64), ("emissions", emissions), ("effects_compared", effects), ("emissions_dropped_undefined", dropped)],
        sample,
        unit,
    }))
}

fn key_of(_c: &CxxCase, kind: &str, _msg: &str) -> String {
    format!("c13-{kind}")
}

/// handlers that must be rejected
const BAD_HANDLERS: &[(&str, &str)] = &[
    ("overloaded-signal", "onOv: t0.ti = 1"),
    ("non-signal-slot", "onDoIt: t0.ti = 1"),
    ("non-signal-property", "onWindowTitle: t0.ti = 1"),
    ("too-many-parameters", "onFiredI: function(a: int, b: int) { t0.ti = a }"),
    ("too-many-parameters-for-none", "onFired: function(a: int) { t0.ti = a }"),
    ("incompatible-parameter", "onFiredI: function(a: QString) { t0.ts = a }"),
    ("incompatible-second-parameter", "onFiredIS: function(a: int, b: int) { t0.ti = b }"),
    ("unannotated-parameter", "onFiredI: function(a) { t0.ti = 1 }"),
    ("handler-as-map", "onFired.x: 1"),
    ("unknown-signal", "onNoSuchThing: t0.ti = 1"),
    // types that a static_cast or a variant cast would convert are not "compatible" either
    ("castable-parameter-double-for-int", "onFiredI: function(a: double) { t0.td = a }"),
    ("castable-parameter-uint-for-int", "onFiredI: function(a: uint) { t0.tu = a }"),
    ("castable-parameter-bool-for-int", "onFiredI: function(a: bool) { t0.tb = a }"),
    ("castable-parameter-int-for-bool", "onFiredB: function(a: int) { t0.ti = a }"),
    ("castable-parameter-int-for-double", "onFiredD: function(a: int) { t0.ti = a }"),
    ("castable-parameter-int-for-string", "onFiredIS: function(a: int, b: int) { t0.ti = b }"),
    ("default-argument-pair-plus-overload", "onMix: t0.ti = 1"),
    ("default-argument-pair-plus-overload-with-parameter", "onMix: function(a: int) { t0.ti = a }"),
    ("too-many-parameters-for-two", "onRng: function(a: int, b: int, c: int) { t0.ti = a }"),
];

fn run_rejections(stats: &mut Stats) -> Vec<Violation> {
    let mut out = vec![];
    for (kind, text) in BAD_HANDLERS {
        let qml = format!("import qmluic.QtWidgets\nQWidget {{\n    VDst {{ id: t0 }}\n    VSig {{\n        id: g0\n        {text}\n    }}\n}}\n");
        let t = translate(&qml, "T", Mode::Generate);
        stats.evaluations += 1;
        *stats.counters.entry("rejection_cases".into()).or_default() += 1;
        let start = qml.find(text).unwrap();
        let inside = t.errors().any(|d| d.start >= start && d.end <= start + text.len() + 1);
        if t.panic.is_some() || t.accepted() || !inside {
            let why = if t.accepted() { "accepted".to_owned() } else if let Some(p) = &t.panic { format!("panic: {p}") } else { "no error diagnostic inside the handler".to_owned() };
            out.push(Violation { failure: Failure { key: format!("c13-accepts-{kind}"), what: format!("handler `{text}` must be rejected with an error at the handler: {why}"), detail: json!({"qml": qml, "diagnostics": t.diag_summary()}) }, choices: None, part: "rejections".into() });
        }
    }
    out
}

/// Known finding: a string literal passed directly to console.*() is emitted as a C string, so
/// U+0000 ends it. Excluded from the generator; this fixed document keeps confirming it.
fn probe_log_literal_nul(known: &Known, rr: &mut RunResult) {
    let qml = "import qmluic.QtWidgets\nQWidget {\n    VSig {\n        id: g0\n        onFired: console.log(\"a\\0b\")\n    }\n}\n";
    let t = translate(qml, "P0", Mode::Generate);
    let (Some(ui), Some(header)) = (t.ui.as_deref(), t.header.clone()) else { return };
    let Ok(form) = form::decode(ui) else { return };
    let names = vec!["g0".to_owned()];
    let want = trace_lines(&[TraceItem::Log("log", vec![V::Str("a\0b".into())])], &names);
    let steps = vec![
        Step { desc: "setup()".into(), cxx: "support.setup();".into(), tracing: true, expect: vec![], expect_trace: vec![] },
        Step { desc: "emit g0.fired()".into(), cxx: "g0->fired();".into(), tracing: true, expect: vec![], expect_trace: want },
    ];
    let unit = DocUnit { name: "P0".into(), header, form, init: vec![], steps };
    rr.stats.evaluations += 1;
    if let Some((kind, msg)) = run_single(&unit, "C13p") {
        let key = if kind == "trace-differs" { "c13-log-literal-with-nul".to_owned() } else { format!("c13-{kind}") };
        if known.matches(PID, &key).is_some() {
            known.announce(PID, &key);
            *rr.stats.known_hits.entry(key).or_default() += 1;
        } else {
            rr.violations.push(Violation { failure: Failure { key, what: msg, detail: json!({"qml": qml}) }, choices: None, part: "probe".into() });
        }
    }
}

pub fn replay(v: &Value) -> Outcome {
    if v["qml"].is_string() && v["steps"].is_array() {
        return match unit_from_json(v) {
            Ok((u, qml)) => match run_single(&u, "C13r") {
                None => Outcome::pass(None),
                Some((kind, msg)) => Outcome::fail(format!("c13-{kind}"), msg.clone(), json!({"qml": qml, "why": msg, "header": String::from_utf8_lossy(&u.header)})),
            },
            Err(_) => Outcome::pass(None),
        };
    }
    match choices_from_json(v) {
        Some(c) => {
            let mut ch = Chooser::new(&c);
            match build_case(&mut ch, "R0") {
                Built::Case(case) => match run_single(&case.unit, "C13r") {
                    None => Outcome::pass(None),
                    Some((kind, msg)) => Outcome::fail(key_of(&case, &kind, &msg), msg.clone(), case_detail(&case, &msg)),
                },
                Built::Skip(w) => Outcome::skip(w),
                Built::Fail(f) => Outcome { verdict: Verdict::Fail(f), nontrivial: None, sample: None, counters: vec![] },
            }
        }
        None => Outcome::skip("replay file without choices"),
    }
}

pub fn run(env: &Env, known: &Known, started: Instant, replayed: u64, replay_violations: Vec<Violation>) -> i32 {
    let cfg = Campaign { env, pid: PID, part: "handlers", cases: env.tier.pick(384, 12000), max_len: 4000, per_tu: 6, known, shrink_steps: 24 };
    let mut rr = campaign(&cfg, build_case, &key_of);
    probe_log_literal_nul(known, &mut rr);
    let mut rej = run_rejections(&mut rr.stats);
    rr.violations.append(&mut rej);
    let ev = Evidence {
        env, pid: PID, level: "exploration",
        rule: "documents with 1-4 generated on<Signal> handlers on VSig objects (signals with 0, 1 and 2 arguments, a default-argument pair trig()/trig(bool)) in all body forms (bare expression, block, function / arrow with 0..n typed parameters), bodies from the statement grammar (property writes on other objects, slot and invokable calls with computed arguments incl. a call result as argument, console.log/debug/info/warn/error, if/else, switch, early return, locals). Static: exactly one connect per handler in a setup function, sender = the declaring object, QOverload<all argument types of the longest variant>, lambda parameters = the declared parameter types in order. Dynamic: the header is compiled against the API model and run; after setup() and after each of up to ~20 steps (signal emissions with generated arguments, source-property changes, emissions of signals nobody handles) the trace of setter/method/log calls recorded by the mock must equal the reference interpreter's trace of the handler body exactly (object, member, argument values, order), be empty where no handler applies, and every VDst property must have the interpreter's value. A fixed catalogue of 19 invalid handlers (overloaded signal, non-signal, too many / incompatible / castable-but-different / unannotated parameters, handler as map, unknown signal) must be rejected with an error inside the handler. Non-trivial = document whose emissions produced two different traces or that has a handler declaring fewer parameters than the signal carries.",
        assumptions: vec!["signal emission order and direct-connection semantics of the mock follow Qt's documented behaviour for same-thread connections".into()],
        extra: json!({}),
    };
    finish(&ev, rr.stats, rr.violations, replayed, replay_violations, started)
}
