//! C12 — layout items land in the documented cells; per-row/column settings follow
//! (DESIGN.md section 3, C12).

use super::finish;
use crate::common::*;
use crate::doc::{print_doc, Bind, Obj, Printed, Style, DEFAULT_IMPORTS};
use crate::form::{self, FKind, FObj};
use crate::translate::{translate, Mode};
use serde_json::{json, Value};
use std::collections::BTreeMap;
use std::time::Instant;

const PID: &str = "C12";

#[derive(Clone, Copy, Debug, PartialEq, Eq, Hash)]
pub enum LKind {
    Grid,
    Form,
    VBox,
    HBox,
}

#[derive(Clone, Copy, Debug, PartialEq, Eq, Hash)]
pub enum Flow {
    Absent,
    LeftToRight,
    TopToBottom,
}

#[derive(Clone, Debug, Default, PartialEq, Eq, Hash)]
pub struct Child {
    pub class: &'static str,
    pub row: Option<i64>,
    pub column: Option<i64>,
    pub row_span: Option<i64>,
    pub column_span: Option<i64>,
    pub alignment: Option<Vec<&'static str>>,
    pub row_stretch: Option<i64>,
    pub column_stretch: Option<i64>,
    pub row_min_height: Option<i64>,
    pub column_min_width: Option<i64>,
}

#[derive(Clone, Debug, PartialEq, Eq, Hash)]
pub struct Layout {
    pub kind: LKind,
    pub flow: Flow,
    pub columns: Option<i64>,
    pub rows: Option<i64>,
    pub children: Vec<Child>,
}

/// What the statement predicts.
#[derive(Clone, Debug, PartialEq, Eq)]
pub enum Expected {
    /// rejected; culprits = (child index or None for the layout itself, binding name)
    Rejected(Vec<(Option<usize>, &'static str)>),
    Accepted {
        /// per child (row, column); None for box layouts
        cells: Vec<Option<(i64, i64)>>,
        /// attribute name -> (index -> value) for indices somebody set
        arrays: BTreeMap<&'static str, BTreeMap<usize, i64>>,
    },
}

const CAP: i64 = 65535; // beyond this the statement does not fix the outcome; never generated

/// Reference model. `min_height_by_column` = the alternative model of known finding F3.
pub fn model(l: &Layout, min_height_by_column: bool) -> Expected {
    let mut culprits: Vec<(Option<usize>, &'static str)> = vec![];
    let mut arrays: BTreeMap<&'static str, BTreeMap<usize, i64>> = BTreeMap::new();
    let mut cells = vec![];
    let mut put = |arr: &'static str, idx: i64, v: Option<i64>, child: usize, name: &'static str, culprits: &mut Vec<(Option<usize>, &'static str)>| {
        if let Some(v) = v {
            let m = arrays.entry(arr).or_default();
            match m.get(&(idx as usize)) {
                Some(old) if *old != v => culprits.push((Some(child), name)),
                _ => {
                    m.insert(idx as usize, v);
                }
            }
        }
    };
    match l.kind {
        LKind::VBox | LKind::HBox => {
            for (i, c) in l.children.iter().enumerate() {
                cells.push(None);
                let (v, name) = if l.kind == LKind::VBox {
                    (c.row_stretch, "rowStretch")
                } else {
                    (c.column_stretch, "columnStretch")
                };
                put("stretch", i as i64, v, i, name, &mut culprits);
            }
        }
        LKind::Grid | LKind::Form => {
            // flow parameters
            let (ltr, wrap) = if l.kind == LKind::Form {
                (true, Some(2))
            } else {
                for (v, name) in [(l.columns, "columns"), (l.rows, "rows")] {
                    if let Some(v) = v {
                        if v <= 0 || v > CAP + 1 {
                            culprits.push((None, name));
                        }
                    }
                }
                let ltr = l.flow != Flow::TopToBottom;
                let wrap = if ltr { l.columns } else { l.rows };
                (ltr, wrap.filter(|v| *v > 0 && *v <= CAP + 1))
            };
            let (mut nr, mut nc) = (0i64, 0i64);
            for (i, c) in l.children.iter().enumerate() {
                // explicit indices: negative or not below the wrap count of the flow -> diagnosed
                let mut row = c.row;
                let mut col = c.column;
                if let Some(r) = row {
                    let max = if ltr { CAP } else { wrap.map(|w| w - 1).unwrap_or(CAP) };
                    if r < 0 || r > max {
                        culprits.push((Some(i), "row"));
                        row = None;
                    }
                }
                if let Some(cc) = col {
                    let max = if ltr { wrap.map(|w| w - 1).unwrap_or(CAP) } else { CAP };
                    if cc < 0 || cc > max {
                        culprits.push((Some(i), "column"));
                        col = None;
                    }
                }
                match (row, col) {
                    (Some(r), Some(cc)) => {
                        nr = r;
                        nc = cc;
                    }
                    (Some(r), None) => {
                        nr = r;
                        if ltr {
                            nc = 0;
                        }
                    }
                    (None, Some(cc)) => {
                        nc = cc;
                        if !ltr {
                            nr = 0;
                        }
                    }
                    (None, None) => {}
                }
                let cur = (nr, nc);
                cells.push(Some(cur));
                // advance the cursor
                if ltr {
                    nc += 1;
                    if let Some(w) = wrap {
                        if nc >= w {
                            nc = 0;
                            nr += 1;
                        }
                    }
                } else {
                    nr += 1;
                    if let Some(w) = wrap {
                        if nr >= w {
                            nr = 0;
                            nc += 1;
                        }
                    }
                }
                if l.kind == LKind::Grid {
                    put("columnminimumwidth", cur.1, c.column_min_width, i, "columnMinimumWidth", &mut culprits);
                    put("columnstretch", cur.1, c.column_stretch, i, "columnStretch", &mut culprits);
                    let rmh_idx = if min_height_by_column { cur.1 } else { cur.0 };
                    put("rowminimumheight", rmh_idx, c.row_min_height, i, "rowMinimumHeight", &mut culprits);
                    put("rowstretch", cur.0, c.row_stretch, i, "rowStretch", &mut culprits);
                }
            }
        }
    }
    if culprits.is_empty() {
        Expected::Accepted { cells, arrays }
    } else {
        Expected::Rejected(culprits)
    }
}

// ---------------------------------------------------------------------------------------------

const CHILD_CLASSES: &[&str] = &["QLabel", "QPushButton", "QLineEdit", "QVBoxLayout", "QSpacerItem", "QWidget", "QGridLayout"];
const ALIGN_H: &[&str] = &["AlignLeft", "AlignRight", "AlignHCenter"];
const ALIGN_V: &[&str] = &["AlignTop", "AlignBottom", "AlignVCenter"];

fn gen_layout(ch: &mut Chooser) -> Layout {
    let kind = match ch.weighted(&[60, 14, 13, 13]) {
        0 => LKind::Grid,
        1 => LKind::Form,
        2 => LKind::VBox,
        _ => LKind::HBox,
    };
    let mut l = Layout { kind, flow: Flow::Absent, columns: None, rows: None, children: vec![] };
    let n = match ch.weighted(&[3, 30, 40, 20]) {
        0 => 0,
        1 => 1 + ch.below(4),
        2 => 5 + ch.below(6),
        _ => 11 + ch.below(14),
    };
    if kind == LKind::Grid {
        l.flow = match ch.weighted(&[35, 20, 45]) {
            0 => Flow::Absent,
            1 => Flow::LeftToRight,
            _ => Flow::TopToBottom,
        };
        let count = |ch: &mut Chooser| -> Option<i64> {
            match ch.weighted(&[25, 70, 5]) {
                0 => None,
                1 => Some(1 + ch.below(6) as i64),
                _ => {
                    ch.label("invalid-count");
                    Some(*ch.pick(&[0i64, -1, -3, 65537, 100000]))
                }
            }
        };
        l.columns = count(ch);
        l.rows = count(ch);
        match l.flow {
            Flow::TopToBottom => ch.label("flow-top-to-bottom"),
            Flow::LeftToRight => ch.label("flow-left-to-right"),
            Flow::Absent => ch.label("flow-absent"),
        }
    }
    let ltr = l.flow != Flow::TopToBottom;
    let wrap = if kind == LKind::Form { Some(2) } else if ltr { l.columns } else { l.rows };
    for _ in 0..n {
        let mut c = Child { class: CHILD_CLASSES[ch.weighted(&[40, 20, 10, 10, 8, 8, 4])], ..Default::default() };
        if matches!(kind, LKind::Grid | LKind::Form) {
            // explicit position: none / row / column / both
            let pos = ch.weighted(&[62, 13, 13, 12]);
            let idx = |ch: &mut Chooser, bounded: Option<i64>| -> i64 {
                match ch.weighted(&[80, 8, 6, 6]) {
                    0 => match bounded {
                        Some(w) if w > 0 && w < 70000 => ch.below(w.min(12) as usize) as i64,
                        _ => ch.below(8) as i64,
                    },
                    1 => match bounded {
                        // at the bound (invalid) or just below it
                        Some(w) if w > 0 && w < 70000 => w - ch.below(2) as i64,
                        _ => 8 + ch.below(993) as i64,
                    },
                    2 => -1 - ch.below(3) as i64,
                    _ => match bounded {
                        Some(w) if w > 0 && w < 70000 => w + ch.below(5) as i64,
                        _ => ch.below(1001) as i64,
                    },
                }
            };
            if pos == 1 || pos == 3 {
                c.row = Some(idx(ch, if ltr { None } else { wrap }));
            }
            if pos == 2 || pos == 3 {
                c.column = Some(idx(ch, if ltr { wrap } else { None }));
            }
            if ch.chance(1, 8) {
                c.row_span = Some(1 + ch.below(4) as i64);
            }
            if ch.chance(1, 8) {
                c.column_span = Some(1 + ch.below(4) as i64);
            }
        }
        if ch.chance(1, 7) {
            let mut a = vec![];
            if ch.chance(2, 3) {
                a.push(*ch.pick(ALIGN_H));
            }
            if a.is_empty() || ch.chance(1, 2) {
                a.push(*ch.pick(ALIGN_V));
            }
            c.alignment = Some(a);
        }
        l.children.push(c);
    }
    // second pass: per-row / per-column settings, biased by the cells so that children sharing a
    // row or column mostly agree (accepted) and sometimes conflict (rejected)
    let cells: Vec<Option<(i64, i64)>> = match model(&l, false) {
        Expected::Accepted { cells, .. } => cells,
        Expected::Rejected(_) => {
            // positions already invalid; compute cells ignoring the invalid indices as the
            // reference does, by running the model on a copy without the culprits' attributes
            let mut l2 = l.clone();
            if let Expected::Rejected(cs) = model(&l, false) {
                for (ci, name) in cs {
                    match (ci, name) {
                        (Some(i), "row") => l2.children[i].row = None,
                        (Some(i), "column") => l2.children[i].column = None,
                        (None, "columns") => l2.columns = None,
                        (None, "rows") => l2.rows = None,
                        _ => {}
                    }
                }
            }
            match model(&l2, false) {
                Expected::Accepted { cells, .. } => cells,
                _ => vec![None; l.children.len()],
            }
        }
    };
    let canon = |salt: u64, idx: i64| -> i64 { [0, 1, 2, 3, 5, 7, 10, 20][(stable_hash(&(salt, idx)) % 8) as usize] };
    let salt = ch.raw() as u64;
    let use_rmh = ch.chance(1, 6); // rowMinimumHeight is involved in known finding F3: keep it rare
    if use_rmh {
        ch.label("uses-rowMinimumHeight");
    }
    for (i, c) in l.children.iter_mut().enumerate() {
        let deviate = |ch: &mut Chooser, v: i64| -> i64 {
            if ch.chance(1, 30) {
                ch.label("deviating-value");
                v + 1 + ch.below(3) as i64
            } else {
                v
            }
        };
        match kind {
            LKind::VBox => {
                if ch.chance(1, 2) {
                    c.row_stretch = Some(ch.below(6) as i64);
                }
            }
            LKind::HBox => {
                if ch.chance(1, 2) {
                    c.column_stretch = Some(ch.below(6) as i64);
                }
            }
            LKind::Form => {}
            LKind::Grid => {
                let (r, cc) = cells.get(i).copied().flatten().unwrap_or((0, 0));
                if ch.chance(1, 4) {
                    c.row_stretch = Some(deviate(ch, canon(salt, r)));
                }
                if ch.chance(1, 4) {
                    c.column_stretch = Some(deviate(ch, canon(salt ^ 1, cc)));
                }
                if ch.chance(1, 5) {
                    c.column_min_width = Some(deviate(ch, 10 * canon(salt ^ 2, cc)));
                }
                if use_rmh && ch.chance(1, 3) {
                    c.row_min_height = Some(deviate(ch, 10 * canon(salt ^ 3, r)));
                }
            }
        }
    }
    l
}

fn int_text(ch: &mut Chooser, v: i64) -> String {
    if v >= 2 && ch.chance(1, 12) {
        format!("{} + 1", v - 1)
    } else if v >= 0 && ch.chance(1, 20) {
        format!("0x{v:x}")
    } else {
        v.to_string()
    }
}

/// Builds the document; returns the model object tree and, per child, the binding indices by name.
fn build_doc(ch: &mut Chooser, l: &Layout) -> (Obj, Style) {
    let class = match l.kind {
        LKind::Grid => "QGridLayout",
        LKind::Form => "QFormLayout",
        LKind::VBox => "QVBoxLayout",
        LKind::HBox => "QHBoxLayout",
    };
    let mut lo = Obj::new(class);
    match l.flow {
        Flow::Absent => {}
        Flow::LeftToRight => lo.binds.push(Bind::new("flow", "QGridLayout.LeftToRight")),
        Flow::TopToBottom => lo.binds.push(Bind::new("flow", "QGridLayout.TopToBottom")),
    }
    if let Some(v) = l.columns {
        lo.binds.push(Bind::new("columns", v.to_string()));
    }
    if let Some(v) = l.rows {
        lo.binds.push(Bind::new("rows", v.to_string()));
    }
    for (i, c) in l.children.iter().enumerate() {
        let mut o = Obj::new(c.class);
        if c.class == "QLabel" || c.class == "QPushButton" {
            o.binds.push(Bind::new("text", format!("\"c{i}\"")));
        }
        let mut att: Vec<(&str, String)> = vec![];
        if let Some(v) = c.row { att.push(("row", int_text(ch, v))); }
        if let Some(v) = c.column { att.push(("column", int_text(ch, v))); }
        if let Some(v) = c.row_span { att.push(("rowSpan", v.to_string())); }
        if let Some(v) = c.column_span { att.push(("columnSpan", v.to_string())); }
        if let Some(a) = &c.alignment {
            att.push(("alignment", a.iter().map(|x| format!("Qt.{x}")).collect::<Vec<_>>().join(" | ")));
        }
        if let Some(v) = c.row_stretch { att.push(("rowStretch", int_text(ch, v))); }
        if let Some(v) = c.column_stretch { att.push(("columnStretch", int_text(ch, v))); }
        if let Some(v) = c.row_min_height { att.push(("rowMinimumHeight", int_text(ch, v))); }
        if let Some(v) = c.column_min_width { att.push(("columnMinimumWidth", int_text(ch, v))); }
        // attachment order must not matter: rotate
        if !att.is_empty() {
            let k = ch.below(att.len());
            att.rotate_left(k);
        }
        for (n, v) in att {
            o.binds.push(Bind::new(format!("QLayout.{n}"), v));
        }
        if c.class == "QVBoxLayout" {
            o.children.push(Obj::new("QLabel"));
            o.children.push(Obj::new("QLabel"));
        }
        if c.class == "QGridLayout" {
            // nested grid with its own explicit cells must not disturb the outer cursor
            o.children.push(Obj::new("QLabel"));
            o.children.push(Obj::new("QLabel").bind("QLayout.row", "3").bind("QLayout.rowStretch", "9"));
        }
        lo.children.push(o);
    }
    let style = Style { group: false, semicolons: ch.chance(1, 4), comments: ch.chance(1, 6), children_first: false };
    (Obj::new("QWidget").child(lo), style)
}

fn find_layout(f: &form::Form) -> Option<&FObj> {
    f.root.children.iter().map(|c| &c.obj).find(|o| o.kind == FKind::Layout)
}

#[derive(Clone, Debug, PartialEq, Eq)]
enum Cmp {
    Same,
    Differs(String, String), // (aspect key, description)
}

fn compare(l: &Layout, root: &Obj, exp: &Expected, t: &crate::translate::Translation, printed: &Printed) -> Cmp {
    match exp {
        Expected::Rejected(culprits) => {
            if t.accepted() {
                return Cmp::Differs(format!("accepts-{}", culprits[0].1), format!("document accepted although {:?} must be diagnosed", culprits));
            }
            // at least one error inside the span of a culprit binding
            let spans: Vec<std::ops::Range<usize>> = culprits.iter().filter_map(|(ci, name)| {
                let (path, want) = match ci {
                    Some(i) => (vec![0usize, *i], format!("QLayout.{name}")),
                    None => (vec![0usize], (*name).to_owned()),
                };
                let bi = root.at(&path).binds.iter().position(|b| b.path == want)?;
                printed.bind_spans.get(&(path, bi)).cloned()
            }).collect();
            let ok = t.errors().any(|d| spans.iter().any(|s| s.start <= d.start && d.end <= s.end));
            if !ok {
                return Cmp::Differs(format!("no-diagnostic-{}", culprits[0].1), format!("rejected, but no error diagnostic lies inside an offending binding ({:?}); diagnostics: {:?}", culprits, t.diag_summary()));
            }
            Cmp::Same
        }
        Expected::Accepted { cells, arrays } => {
            if !t.accepted() {
                return Cmp::Differs("rejects-valid".into(), format!("valid layout rejected: {:?} {:?} {:?}", t.diag_summary(), t.syntax_errors, t.panic));
            }
            if !t.diags.is_empty() {
                return Cmp::Differs("warns-valid".into(), format!("valid layout produced diagnostics: {:?}", t.diag_summary()));
            }
            let f = match form::decode(t.ui.as_deref().unwrap_or_default()) {
                Ok(f) => f,
                Err(e) => return Cmp::Differs("bad-xml".into(), e),
            };
            let Some(lo) = find_layout(&f) else {
                return Cmp::Differs("no-layout".into(), "no <layout> under the root widget".into());
            };
            if lo.children.len() != l.children.len() {
                return Cmp::Differs("child-count".into(), format!("{} items for {} children", lo.children.len(), l.children.len()));
            }
            for (i, (fc, mc)) in lo.children.iter().zip(&l.children).enumerate() {
                let Some(ia) = &fc.item else {
                    return Cmp::Differs("no-item".into(), format!("child {i} not wrapped in <item>"));
                };
                let want_cell = cells[i].map(|(r, c)| (Some(r.to_string()), Some(c.to_string()))).unwrap_or((None, None));
                if (ia.row.clone(), ia.column.clone()) != want_cell {
                    return Cmp::Differs("cell".into(), format!("child {i}: item at (row,column)=({:?},{:?}), expected {:?}", ia.row, ia.column, cells[i]));
                }
                if ia.rowspan != mc.row_span.map(|v| v.to_string()) {
                    return Cmp::Differs("rowspan".into(), format!("child {i}: rowspan {:?}, expected {:?}", ia.rowspan, mc.row_span));
                }
                if ia.colspan != mc.column_span.map(|v| v.to_string()) {
                    return Cmp::Differs("colspan".into(), format!("child {i}: colspan {:?}, expected {:?}", ia.colspan, mc.column_span));
                }
                let got: Option<std::collections::BTreeSet<String>> = ia.alignment.as_ref().map(|s| s.split('|').map(|x| x.to_owned()).collect());
                let want: Option<std::collections::BTreeSet<String>> = mc.alignment.as_ref().map(|a| a.iter().map(|x| format!("Qt::{x}")).collect());
                if got != want {
                    return Cmp::Differs("alignment".into(), format!("child {i}: alignment {:?}, expected {:?}", ia.alignment, want));
                }
            }
            for name in ["stretch", "rowstretch", "columnstretch", "rowminimumheight", "columnminimumwidth"] {
                let set = arrays.get(name).cloned().unwrap_or_default();
                match lo.layout_attrs.get(name) {
                    None => {
                        if !set.is_empty() {
                            return Cmp::Differs(name.into(), format!("attribute {name} missing, expected values at {:?}", set));
                        }
                    }
                    Some(s) => {
                        let arr = match form::parse_int_array(s) {
                            Ok(a) => a,
                            Err(e) => return Cmp::Differs(format!("{name}-syntax"), e),
                        };
                        for (idx, v) in &set {
                            if arr.get(*idx) != Some(v) {
                                return Cmp::Differs(name.into(), format!("{name}=\"{s}\": index {idx} should be {v} (values set by children: {:?})", set));
                            }
                        }
                        // entries nobody set must all carry one fill value
                        let fills: std::collections::BTreeSet<i64> = arr.iter().enumerate().filter(|(i, _)| !set.contains_key(i)).map(|(_, v)| *v).collect();
                        if fills.len() > 1 {
                            return Cmp::Differs(name.into(), format!("{name}=\"{s}\": indices nobody set carry different values {:?} (set by children: {:?})", fills, set));
                        }
                    }
                }
            }
            Cmp::Same
        }
    }
}

fn nontrivial(l: &Layout, exp: &Expected) -> bool {
    if let Expected::Accepted { cells, .. } = exp {
        let rows: std::collections::BTreeSet<i64> = cells.iter().flatten().map(|c| c.0).collect();
        let cols: std::collections::BTreeSet<i64> = cells.iter().flatten().map(|c| c.1).collect();
        let explicit = l.children.iter().any(|c| c.row.is_some() || c.column.is_some());
        l.kind == LKind::Grid && rows.len() >= 2 && cols.len() >= 2 && rows.len() != cols.len() && explicit
    } else {
        // a rejected case is non-trivial when the culprit is not the first child
        matches!(exp, Expected::Rejected(c) if c.iter().any(|(i, _)| i.map(|i| i > 0).unwrap_or(false)))
    }
}

fn run_case(ch: &mut Chooser) -> Outcome {
    let l = gen_layout(ch);
    let (root, style) = build_doc(ch, &l);
    let printed = print_doc(DEFAULT_IMPORTS, &root, style);
    let t = translate(&printed.text, "T", Mode::Generate);
    let exp_a = model(&l, false);
    match &exp_a {
        Expected::Accepted { .. } => ch.label("expected-accepted"),
        Expected::Rejected(c) => {
            ch.label("expected-rejected");
            if c.iter().any(|(_, n)| matches!(*n, "row" | "column")) { ch.label("rejected-index-out-of-range"); }
            if c.iter().any(|(_, n)| n.contains("Stretch") || n.contains("Minimum")) { ch.label("rejected-conflict"); }
        }
    }
    match l.kind { LKind::Grid => ch.label("grid"), LKind::Form => ch.label("form"), LKind::VBox => ch.label("vbox"), LKind::HBox => ch.label("hbox") }
    if l.children.iter().any(|c| c.row.is_some() || c.column.is_some()) { ch.label("explicit-reposition"); }
    let detail = |why: &str| json!({"qml": printed.text, "layout": format!("{:?}", l), "expected": format!("{:?}", exp_a), "why": why,
        "ui": t.ui_str(), "diagnostics": t.diag_summary(), "panic": t.panic});
    if let Some(p) = &t.panic {
        return Outcome::fail("c12-panic", format!("translator panicked: {p}"), detail(p));
    }
    let nt = nontrivial(&l, &exp_a).then(|| stable_hash(&l));
    match compare(&l, &root, &exp_a, &t, &printed) {
        Cmp::Same => Outcome::pass(nt).with_sample(ch.want_sample.then(|| json!({"qml": printed.text, "expected": format!("{:?}", exp_a)}))),
        Cmp::Differs(aspect, why) => {
            // does the alternative model of known finding F3 explain the output exactly?
            let uses_rmh = l.children.iter().any(|c| c.row_min_height.is_some());
            if uses_rmh {
                let exp_b = model(&l, true);
                if exp_b != exp_a && compare(&l, &root, &exp_b, &t, &printed) == Cmp::Same {
                    return Outcome::fail("c12-f3-rowminimumheight-keyed-by-column",
                        format!("rowMinimumHeight is recorded at the child's column index instead of its row index ({why})"), detail(&why));
                }
            }
            Outcome::fail(format!("c12-{aspect}"), why.clone(), detail(&why))
        }
    }
}

pub fn replay(v: &Value) -> Outcome {
    match choices_from_json(v) {
        Some(c) => {
            let mut ch = Chooser::new(&c);
            run_case(&mut ch)
        }
        None => Outcome::skip("replay file without choices"),
    }
}

pub fn run(env: &Env, known: &Known, started: Instant, replayed: u64, replay_violations: Vec<Violation>) -> i32 {
    crate::doc::verify_catalogue();
    let cfg = ChoiceRun { env, pid: PID, part: "layouts", cases: env.tier.pick(300_000, 3_000_000), max_len: 400, known };
    let rr = run_choices(&cfg, run_case);
    let ev = Evidence {
        env, pid: PID, level: "exploration",
        rule: "grid/form/box layouts with 0-24 children decoded from a choice sequence (flow, columns/rows incl. invalid counts, optional explicit row/column incl. at/over the bound and negative, spans, alignment, per-row/column stretch and minimum sizes biased to agree within a row/column and sometimes conflict); oracle = reference model of the flow rule and of the attribute arrays written from the statement, compared with the .ui decoded by the independent XML reader; rejected cases need an error inside an offending binding. Non-trivial = accepted grid occupying >=2 rows and >=2 columns, rows != columns, with an explicit reposition; or a rejected case whose culprit is not the first child. Distinct by layout model hash.",
        assumptions: vec![
            "values printed for indices nobody set, and indices beyond 65535, are not compared (the statement leaves them open)".into(),
            "'row alone restarts the column in row-major flow; column alone keeps the row' is taken from the repository's index_counter unit tests".into(),
        ],
        extra: json!({}),
    };
    finish(&ev, rr.stats, rr.violations, replayed, replay_violations, started)
}
