//! C19 — colour strings are read the way Qt reads them (DESIGN.md section 3, C19).

use super::finish;
use crate::common::*;
use crate::form::{self, FValue};
use crate::qml::js_string;
use crate::translate::{translate, Mode};
use qmluic::color::Color;
use serde_json::{json, Value};
use std::collections::BTreeMap;
use std::str::FromStr;
use std::sync::OnceLock;
use std::time::Instant;

const PID: &str = "C19";

fn table() -> &'static BTreeMap<String, (u8, u8, u8)> {
    static T: OnceLock<BTreeMap<String, (u8, u8, u8)>> = OnceLock::new();
    T.get_or_init(|| {
        let s = std::fs::read_to_string(format!("{VERIF_DIR}/data/svg_colors.json"))
            .expect("data/svg_colors.json");
        let v: Value = serde_json::from_str(&s).unwrap();
        v["colors"]
            .as_object()
            .unwrap()
            .iter()
            .map(|(k, c)| {
                let g = |i: usize| c[i].as_u64().unwrap() as u8;
                (k.clone(), (g(0), g(1), g(2)))
            })
            .collect()
    })
}

/// The statement, executable: Some((r,g,b,a)) or None (= must be rejected).
pub fn expected(s: &str) -> Option<(u8, u8, u8, u8)> {
    if let Some(hex) = s.strip_prefix('#') {
        let ds: Option<Vec<u8>> = hex
            .chars()
            .map(|c| match c {
                '0'..='9' => Some(c as u8 - b'0'),
                'a'..='f' => Some(c as u8 - b'a' + 10),
                'A'..='F' => Some(c as u8 - b'A' + 10),
                _ => None,
            })
            .collect();
        let ds = ds?;
        let dbl = |d: u8| d * 16 + d;
        let two = |h: u8, l: u8| h * 16 + l;
        return match ds.len() {
            3 => Some((dbl(ds[0]), dbl(ds[1]), dbl(ds[2]), 255)),
            4 => Some((dbl(ds[1]), dbl(ds[2]), dbl(ds[3]), dbl(ds[0]))),
            6 => Some((two(ds[0], ds[1]), two(ds[2], ds[3]), two(ds[4], ds[5]), 255)),
            8 => Some((
                two(ds[2], ds[3]),
                two(ds[4], ds[5]),
                two(ds[6], ds[7]),
                two(ds[0], ds[1]),
            )),
            _ => None,
        };
    }
    if !s.is_ascii() {
        return None;
    }
    let lower = s.to_ascii_lowercase();
    if lower == "transparent" {
        return Some((0, 0, 0, 0));
    }
    table().get(&lower).map(|&(r, g, b)| (r, g, b, 255))
}

fn observed(s: &str) -> Result<Option<(u8, u8, u8, u8)>, String> {
    catch(|| match Color::from_str(s) {
        Ok(Color::Rgb8(c)) => Some((c.red, c.green, c.blue, 255)),
        Ok(Color::Rgba8(c)) => Some((c.red, c.green, c.blue, c.alpha)),
        Err(_) => None,
    })
}

fn check_string(s: &str) -> Option<Failure> {
    let e = expected(s);
    match observed(s) {
        Err(p) => Some(Failure {
            key: "c19-panic".into(),
            what: format!("Color::from_str panicked on {s:?}: {p}"),
            detail: json!({"string": s, "panic": p}),
        }),
        Ok(o) if o != e => Some(Failure {
            key: if e.is_none() { "c19-accepts-invalid" } else if o.is_none() { "c19-rejects-valid" } else { "c19-wrong-channels" }.into(),
            what: format!("colour string {s:?}: expected {e:?} (r,g,b,a), translator reads {o:?}"),
            detail: json!({"string": s, "expected_rgba": e.map(|t| vec![t.0,t.1,t.2,t.3]), "observed_rgba": o.map(|t| vec![t.0,t.1,t.2,t.3])}),
        }),
        Ok(_) => None,
    }
}

/// End-to-end: the string as a QColor / QBrush / palette binding, decoded from the .ui.
fn check_end_to_end(s: &str, slot: usize) -> Option<Failure> {
    let lit = js_string(s);
    let (src, path): (String, &[&str]) = match slot {
        0 => (
            format!("import qmluic.QtWidgets\nQColorDialog {{ currentColor: {lit} }}\n"),
            &["currentColor"],
        ),
        1 => (
            format!("import qmluic.QtWidgets\nQGraphicsView {{ backgroundBrush: {lit} }}\n"),
            &["backgroundBrush", "brush"],
        ),
        5 => (
            // the colour as a sub-property of a brush that also has a style of its own
            format!("import qmluic.QtWidgets\nQGraphicsView {{ backgroundBrush.color: {lit}; backgroundBrush.style: Qt.Dense1Pattern }}\n"),
            &["backgroundBrush", "brush"],
        ),
        _ => (
            format!("import qmluic.QtWidgets\nQWidget {{ palette.active {{ window: {lit} }} }}\n"),
            &["palette", "palette", "active", "colorrole", "brush"],
        ),
    };
    if slot == 3 || slot == 4 {
        return check_palette_default(s, slot);
    }
    let t = translate(&src, "T", Mode::Generate);
    let e = expected(s);
    let mk = |key: &str, what: String| {
        Some(Failure {
            key: key.into(),
            what,
            detail: json!({"string": s, "qml": src, "ui": t.ui_str(), "diagnostics": t.diag_summary(), "panic": t.panic}),
        })
    };
    if let Some(p) = &t.panic {
        return mk("c19-e2e-panic", format!("translator panicked: {p}"));
    }
    match e {
        None => {
            if t.accepted() {
                return mk("c19-e2e-accepts-invalid", format!("invalid colour {s:?} accepted end to end"));
            }
            // no <color> element may be written
            if let Some(ui) = t.ui_str() {
                if ui.contains("<color") {
                    return mk("c19-e2e-invalid-embedded", format!("invalid colour {s:?} still embedded"));
                }
            }
            if !t.errors().any(|d| src[d.start.min(src.len())..d.end.min(src.len())].contains(&lit)) {
                return mk("c19-e2e-no-diagnostic", format!("no error diagnostic covering the colour literal {s:?}"));
            }
            None
        }
        Some((r, g, b, a)) => {
            if !t.accepted() {
                return mk("c19-e2e-rejects-valid", format!("valid colour {s:?} rejected end to end"));
            }
            let f = match form::decode(t.ui.as_deref().unwrap()) {
                Ok(f) => f,
                Err(err) => return mk("c19-e2e-bad-xml", format!("cannot decode .ui: {err}")),
            };
            // walk down to the <color> element
            let Some(p) = f.root.prop(path[0]) else {
                return mk("c19-e2e-missing", format!("property {} missing", path[0]));
            };
            let FValue::Other(mut el) = p.value.clone() else {
                return mk("c19-e2e-missing", "value is not structured".into());
            };
            for name in &path[1..] {
                if el.name == *name {
                    continue;
                }
                match el.first(name) {
                    Some(c) => el = c.clone(),
                    None => return mk("c19-e2e-missing", format!("<{name}> missing")),
                }
            }
            let color = if el.name == "color" { el.clone() } else {
                match el.first("color") { Some(c) => c.clone(), None => return mk("c19-e2e-missing", "<color> missing".into()) }
            };
            let num = |n: &str| color.first(n).map(|e| e.text());
            let got = (num("red"), num("green"), num("blue"), color.attr("alpha").map(|s| s.to_owned()));
            let want = (Some(r.to_string()), Some(g.to_string()), Some(b.to_string()), Some(a.to_string()));
            if got != want {
                return mk("c19-e2e-wrong-channels", format!("colour {s:?}: .ui has {got:?}, expected {want:?}"));
            }
            None
        }
    }
}

/// End-to-end through the palette's default roles (`palette.window: c`), which every colour group
/// without an explicit role of its own inherits: each of the three groups must carry the role with
/// the channels of the string it got (slot 4: the disabled group has its own, different colour).
fn check_palette_default(s: &str, slot: usize) -> Option<Failure> {
    let lit = js_string(s);
    const OTHER: &str = "#80445566";
    let role = ["window", "base", "text", "buttonText"][stable_hash(&s) as usize % 4];
    let role_name = { let mut c = role.chars(); let f = c.next().unwrap().to_ascii_uppercase(); format!("{f}{}", c.as_str()) };
    let src = if slot == 3 {
        format!("import qmluic.QtWidgets\nQWidget {{ palette.{role}: {lit} }}\n")
    } else {
        format!("import qmluic.QtWidgets\nQWidget {{ palette.{role}: {lit}; palette.disabled.{role}: \"{OTHER}\" }}\n")
    };
    let t = translate(&src, "T", Mode::Generate);
    let mk = |key: &str, what: String| {
        Some(Failure {
            key: key.into(),
            what,
            detail: json!({"string": s, "qml": src, "ui": t.ui_str(), "diagnostics": t.diag_summary(), "panic": t.panic}),
        })
    };
    if let Some(p) = &t.panic {
        return mk("c19-e2e-panic", format!("translator panicked: {p}"));
    }
    let Some((r, g, b, a)) = expected(s) else {
        if t.accepted() {
            return mk("c19-e2e-accepts-invalid", format!("invalid colour {s:?} accepted as a palette default role"));
        }
        if !t.errors().any(|d| src[d.start.min(src.len())..d.end.min(src.len())].contains(&lit)) {
            return mk("c19-e2e-no-diagnostic", format!("no error diagnostic covering the colour literal {s:?}"));
        }
        return None;
    };
    if !t.accepted() {
        return mk("c19-e2e-rejects-valid", format!("valid colour {s:?} rejected as a palette default role"));
    }
    let f = match form::decode(t.ui.as_deref().unwrap()) {
        Ok(f) => f,
        Err(err) => return mk("c19-e2e-bad-xml", format!("cannot decode .ui: {err}")),
    };
    let Some(p) = f.root.prop("palette") else { return mk("c19-e2e-missing", "property palette missing".into()) };
    let FValue::Other(el) = p.value.clone() else { return mk("c19-e2e-missing", "value is not structured".into()) };
    let pal = if el.name == "palette" { el.clone() } else {
        match el.first("palette") { Some(c) => c.clone(), None => return mk("c19-e2e-missing", "<palette> missing".into()) }
    };
    for group in ["active", "inactive", "disabled"] {
        let want = if slot == 4 && group == "disabled" { (0x44u8, 0x55u8, 0x66u8, 0x80u8) } else { (r, g, b, a) };
        let Some(gr) = pal.first(group) else { return mk("c19-e2e-missing", format!("<{group}> missing")) };
        let roles: Vec<_> = gr.elems_named("colorrole").filter(|c| c.attr("role") == Some(role_name.as_str())).collect();
        if roles.len() != 1 {
            return mk("c19-e2e-missing", format!("<{group}> has {} colorrole elements for {role_name}", roles.len()));
        }
        let Some(color) = roles[0].first("brush").and_then(|b| b.first("color")) else {
            return mk("c19-e2e-missing", format!("<{group}>: <brush><color> missing"));
        };
        let num = |n: &str| color.first(n).map(|e| e.text());
        let got = (num("red"), num("green"), num("blue"), color.attr("alpha").map(|s| s.to_owned()));
        let want_s = (Some(want.0.to_string()), Some(want.1.to_string()), Some(want.2.to_string()), Some(want.3.to_string()));
        if got != want_s {
            return mk("c19-e2e-wrong-channels", format!("colour {s:?} as default role {role}: group {group} has {got:?}, expected {want_s:?}"));
        }
    }
    None
}

fn case_variant(word: &str, mask: u64) -> String {
    word.chars()
        .enumerate()
        .map(|(i, c)| if mask >> (i % 64) & 1 == 1 { c.to_ascii_uppercase() } else { c.to_ascii_lowercase() })
        .collect()
}

const HEX: &[u8] = b"0123456789abcdef";

fn near_miss(ch: &mut Chooser) -> String {
    let names: Vec<&String> = table().keys().collect();
    let kind = ch.below(16);
    let hexs = |ch: &mut Chooser, n: usize| -> String {
        (0..n).map(|_| { let c = HEX[ch.below(16)] as char; if ch.chance(1, 3) { c.to_ascii_uppercase() } else { c } }).collect()
    };
    match kind {
        0 => { ch.label("hex-bad-length"); let n = *ch.pick(&[0usize, 1, 2, 5, 7, 9, 10, 11, 12, 13, 16]); format!("#{}", hexs(ch, n)) }
        1 => { ch.label("hex-nonhex-digit"); let n = *ch.pick(&[3usize, 4, 6, 8]); let mut s: Vec<char> = hexs(ch, n).chars().collect(); let i = ch.below(n); s[i] = *ch.pick(&['g', 'G', 'z', ' ', '+', '-', 'x', '.', '_', '\u{ff11}', '\u{0661}', 'é']); format!("#{}", s.into_iter().collect::<String>()) }
        2 => { ch.label("hex-sign-or-prefix"); let n = *ch.pick(&[2usize, 3, 5, 7]); format!("#{}{}", ch.pick(&["+", "-", "0x", " ", "#"]), hexs(ch, n)) }
        3 => { ch.label("hex-missing-hash"); let n = *ch.pick(&[3usize, 4, 6, 8]); hexs(ch, n) }
        4 => { ch.label("hex-blanks"); let n = *ch.pick(&[3usize, 4, 6, 8]); let h = hexs(ch, n); match ch.below(3) { 0 => format!(" #{h}"), 1 => format!("#{h} "), _ => format!("# {h}") } }
        5 => { ch.label("keyword-minus-letter"); let w = (*ch.pick(&names)).clone(); let i = ch.below(w.len()); let mut s = w.clone(); s.remove(i); s }
        6 => { ch.label("keyword-plus-letter"); let w = (*ch.pick(&names)).clone(); let i = ch.below(w.len() + 1); let mut s = w.clone(); s.insert(i, *ch.pick(&['a', 'e', 's', ' ', '-', '_', '1'])); s }
        7 => { ch.label("keyword-blanks"); let w = (*ch.pick(&names)).clone(); match ch.below(3) { 0 => format!(" {w}"), 1 => format!("{w} "), _ => format!("{w}\t") } }
        8 => { ch.label("keyword-non-ascii-lookalike"); let w = (*ch.pick(&names)).clone();
               let subs: &[(char, char)] = &[('i', '\u{131}'), ('i', '\u{130}'), ('k', '\u{212a}'), ('a', '\u{430}'), ('e', '\u{435}'), ('o', '\u{43e}'), ('s', '\u{17f}'), ('a', '\u{ff41}')];
               let cands: Vec<&(char, char)> = subs.iter().filter(|(a, _)| w.contains(*a)).collect();
               if cands.is_empty() { format!("{w}\u{301}") } else { let (a, b) = **ch.pick(&cands); w.replacen(a, &b.to_string(), 1) } }
        9 => { ch.label("other-css-syntax"); (*ch.pick(&["rgb(1,2,3)", "rgba(1,2,3,4)", "hsl(0,0%,0%)", "currentColor", "inherit", "none", "", " ", "#", "##123", "rebeccapurple", "grey50", "gray 50", "light blue", "dark-red", "0", "1", "null", "true"])).to_string() }
        10 => { ch.label("transparent-variants"); let m = ch.raw() as u64; case_variant("transparent", m) }
        11 => { ch.label("transparent-near"); (*ch.pick(&["transparen", "transparentt", " transparent", "transparent ", "trans parent", "tranſparent", "#transparent"])).to_string() }
        12 => { ch.label("keyword-two-words"); let a = (*ch.pick(&names)).clone(); let b = (*ch.pick(&names)).clone(); format!("{a}{}{b}", ch.pick(&[" ", ",", "", ";"])) }
        13 => { ch.label("random-ascii"); let n = ch.below(12); (0..n).map(|_| (0x20 + ch.below(95) as u8) as char).collect() }
        14 => { ch.label("hex-9-or-12-digits"); let n = *ch.pick(&[9usize, 12]); format!("#{}", hexs(ch, n)) }
        _ => { ch.label("keyword-mixed-case"); let w = (*ch.pick(&names)).clone(); let m = ch.raw() as u64 | (ch.raw() as u64) << 32; case_variant(&w, m) }
    }
}

pub fn replay(v: &Value) -> Outcome {
    let Some(s) = v["detail"]["string"].as_str().or_else(|| v["string"].as_str()) else {
        return Outcome::skip("replay file without string");
    };
    if let Some(f) = check_string(s) {
        return Outcome { verdict: Verdict::Fail(f), nontrivial: None, sample: None, counters: vec![] };
    }
    for slot in 0..6 {
        if let Some(f) = check_end_to_end(s, slot) {
            return Outcome { verdict: Verdict::Fail(f), nontrivial: None, sample: None, counters: vec![] };
        }
    }
    Outcome::pass(None)
}

pub fn run(env: &Env, known: &Known, started: Instant, replayed: u64, replay_violations: Vec<Violation>) -> i32 {
    let mut stats = Stats::default();
    let mut violations: Vec<Violation> = vec![];
    let mut fail = |f: Failure, part: &str, violations: &mut Vec<Violation>| {
        if known.is_listed_known(PID, &f.key) {
            known.announce(PID, &f.key);
        } else if violations.len() < 8 {
            violations.push(Violation { failure: f, choices: None, part: part.into() });
        }
    };

    // (1) exhaustive #rgb and #argb, in lower, upper and one mixed letter case each
    let mut exhaustive = 0u64;
    for n in [3usize, 4] {
        for v in 0..(16u32.pow(n as u32)) {
            let digits: Vec<u8> = (0..n).rev().map(|i| ((v >> (4 * i)) & 0xf) as u8).collect();
            let lower: String = digits.iter().map(|d| HEX[*d as usize] as char).collect();
            let mix_mask = stable_hash(&(env.seed, v, n)) | 1;
            for s in [format!("#{lower}"), format!("#{}", lower.to_ascii_uppercase()), format!("#{}", case_variant(&lower, mix_mask))] {
                exhaustive += 1;
                stats.evaluations += 1;
                if s.chars().any(|c| c.is_ascii_uppercase()) || n == 4 {
                    stats.nontrivial.insert(stable_hash(&s));
                }
                if let Some(f) = check_string(&s) {
                    fail(f, "exhaustive-short-hex", &mut violations);
                }
            }
        }
    }
    stats.counters.insert("exhaustive_short_hex_strings".into(), exhaustive);

    // (2) every keyword: lower, upper, capitalised, plus sampled (quick) or all (thorough) case masks
    let mut kw = 0u64;
    for (name, _) in table().iter().chain(std::iter::once((&"transparent".to_owned(), &(0u8, 0u8, 0u8)))) {
        let len = name.len() as u32;
        let mut masks: Vec<u64> = vec![0, u64::MAX, 1];
        match env.tier {
            Tier::Thorough if len <= 16 => masks.extend(0..(1u64 << len)),
            _ => {
                let n = env.tier.pick(64, 20000);
                masks.extend((0..n).map(|i| stable_hash(&(env.seed, name, i))));
            }
        }
        for m in masks {
            let s = case_variant(name, m);
            kw += 1;
            stats.evaluations += 1;
            if s != *name {
                stats.nontrivial.insert(stable_hash(&s));
            }
            if let Some(f) = check_string(&s) {
                fail(f, "keywords", &mut violations);
            }
        }
    }
    stats.counters.insert("keyword_case_variants".into(), kw);

    // (3) sampled 6/8 digit hex and near misses through the choice runner (shrinks failures)
    let cfg = ChoiceRun { env, pid: PID, part: "long-hex", cases: env.tier.pick(1_000_000, 4_000_000), max_len: 12, known };
    let rr = run_choices(&cfg, |ch| {
        let n = if ch.chance(1, 2) { 8 } else { 6 };
        let s: String = std::iter::once('#').chain((0..n).map(|_| { let c = HEX[ch.below(16)] as char; if ch.chance(1, 4) { c.to_ascii_uppercase() } else { c } })).collect();
        ch.label(if n == 8 { "hex8" } else { "hex6" });
        let nt = s.chars().any(|c| c.is_ascii_uppercase()) || (n == 8 && !s[1..3].eq_ignore_ascii_case("ff"));
        match check_string(&s) {
            Some(f) => Outcome { verdict: Verdict::Fail(f), nontrivial: None, sample: None, counters: vec![] },
            None => Outcome::pass(nt.then(|| stable_hash(&s))).with_sample(ch.want_sample.then(|| json!({"string": s, "expected_rgba": format!("{:?}", expected(&s))}))),
        }
    });
    stats.merge(rr.stats);
    violations.extend(rr.violations);

    let cfg = ChoiceRun { env, pid: PID, part: "near-miss", cases: env.tier.pick(400_000, 1_500_000), max_len: 24, known };
    let rr = run_choices(&cfg, |ch| {
        let s = near_miss(ch);
        match check_string(&s) {
            Some(f) => Outcome { verdict: Verdict::Fail(f), nontrivial: None, sample: None, counters: vec![] },
            None => Outcome::pass(Some(stable_hash(&s))).with_sample(ch.want_sample.then(|| json!({"string": s, "expected_rgba": format!("{:?}", expected(&s))}))),
        }
    });
    stats.merge(rr.stats);
    violations.extend(rr.violations);

    // (4) end to end through the .ui on a sample of all families
    let cfg = ChoiceRun { env, pid: PID, part: "end-to-end", cases: env.tier.pick(12_000, 60_000), max_len: 24, known };
    let names: Vec<&String> = table().keys().collect();
    let rr = run_choices(&cfg, |ch| {
        let s = match ch.below(5) {
            0 => { let n = *ch.pick(&[3usize, 4, 6, 8]); ch.label("e2e-hex"); std::iter::once('#').chain((0..n).map(|_| HEX[ch.below(16)] as char)).collect() }
            1 => { ch.label("e2e-keyword"); let w = (*ch.pick(&names)).clone(); let m = ch.raw() as u64; case_variant(&w, m) }
            2 => { ch.label("e2e-transparent"); "transparent".to_owned() }
            _ => near_miss(ch),
        };
        let slot = ch.below(6);
        ch.label(["e2e-QColor", "e2e-QBrush", "e2e-palette", "e2e-palette-default-role", "e2e-palette-default-and-group", "e2e-brush-color-subproperty"][slot]);
        match check_end_to_end(&s, slot) {
            Some(f) => Outcome { verdict: Verdict::Fail(f), nontrivial: None, sample: None, counters: vec![] },
            None => Outcome::pass(Some(stable_hash(&(&s, slot)))).with_sample(ch.want_sample.then(|| json!({"string": s, "slot": slot, "expected_rgba": format!("{:?}", expected(&s))}))),
        }
    });
    stats.merge(rr.stats);
    violations.extend(rr.violations);

    let ev = Evidence {
        env, pid: PID, level: "exploration",
        rule: "every #rgb and #argb string (16^3 + 16^4 digit strings, each in lower, upper and one mixed letter case) is enumerated; every SVG keyword and 'transparent' in lower/upper/capitalised plus sampled (thorough: all 2^len for len<=16) case masks; #rrggbb/#aarrggbb sampled; near misses from 16 families; a sample goes end to end through QColor, QBrush (as a string and as the color sub-property of a styled brush), palette group roles and palette default roles (inherited by all three groups, with and without an explicit role in one group) and is decoded from the .ui. Oracle: decoder written from the statement + committed 147-keyword table. Non-trivial = string with an upper-case letter, a 4/8-digit string with alpha != ff, or any near miss; distinct by string.",
        assumptions: vec![
            "the committed keyword table (data/svg_colors.json, extracted from two unrelated copies that agree row by row) is the SVG 1.1 table Qt uses".into(),
            "'transparent' is matched case-insensitively like the keywords (Qt keeps it in the same table)".into(),
        ],
        extra: json!({"exhaustive": false, "exhaustive_part": "all 3- and 4-digit hex strings (x3 letter cases) were enumerated completely"}),
    };
    finish(&ev, stats, violations, replayed, replay_violations, started)
}
