//! C09 — the .ui is well-formed, grammar-conformant XML that preserves strings
//! (DESIGN.md section 3, C09).

use super::c11::compare_tree;
use super::finish;
use crate::common::*;
use crate::doc::*;
use crate::gen::*;
use crate::translate::{translate, Mode};
use crate::{form, uigrammar, xml};
use serde_json::{json, Value};
use std::collections::BTreeMap;
use std::time::Instant;

const PID: &str = "C09";

const TYPE_NAMES: &[&str] = &["T", "MyDialog", "main_window", "Dlg2", "A-B", "a.b", "Ünï", "日本", "x y", "T&T", "A<B", "Q\"uote", "it's", "]]>", "&amp;"];

pub struct Case {
    pub root: Obj,
    pub type_name: String,
    pub expects: Vec<Expect>,
}

pub fn gen_case(ch: &mut Chooser, strings: StrMode) -> Case {
    let cfg = TreeCfg { max_objects: 30, ..TreeCfg::default() };
    let mut root = gen_tree(ch, &cfg);
    // more slots: graphics views (brushes) and VSrc (string lists) among the leaves
    let paths: Vec<Vec<usize>> = root.flat().into_iter().map(|(p, _)| p).collect();
    for p in &paths {
        let o = root.at_mut(p);
        if LEAF_WIDGETS.contains(&o.class.as_str()) && ch.chance(1, 3) {
            o.class = (*ch.pick(&["QGraphicsView", "VSrc", "QPushButton", "QComboBox", "QTableView", "QLabel", "QListWidget", "QTreeView"])).to_owned();
        }
    }
    assign_plain_ids(ch, &mut root, 1, 3);
    let mut expects = vec![];
    decorate(ch, &mut root, 4, strings, true, &mut expects);
    let type_name = if ch.chance(1, 3) { (*ch.pick(TYPE_NAMES)).to_owned() } else { "T".to_owned() };
    Case { root, type_name, expects }
}

fn has_special(s: &str) -> bool {
    s.chars().any(|c| matches!(c, '<' | '>' | '&' | '\'' | '"' | '\t' | '\n' | '\r') || !c.is_ascii()) || s.starts_with(' ') || s.ends_with(' ')
}

fn strings_of(e: &Expect) -> Vec<String> {
    fn tree(el: &xml::Elem, out: &mut Vec<String>) {
        for (_, v) in &el.attrs {
            out.push(v.clone());
        }
        if el.elems().next().is_none() {
            out.push(el.text());
        }
        for c in el.elems() {
            tree(c, out);
        }
    }
    match &e.value {
        EVal::Str { s, .. } | EVal::Pixmap(s) => vec![s.clone()],
        EVal::StrList { items, .. } => items.clone(),
        EVal::ModelItems(v) => v.iter().map(|x| x.0.clone()).collect(),
        EVal::Tree(t) => {
            let mut o = vec![];
            tree(t, &mut o);
            o
        }
        _ => vec![],
    }
}

pub fn check_ui(bytes: &[u8], type_name: &str) -> Result<(xml::Elem, form::Form), (String, String)> {
    let rootel = xml::parse(bytes).map_err(|e| ("not-well-formed".to_owned(), format!("the .ui is not well-formed XML: {e}")))?;
    uigrammar::validate(&rootel, type_name).map_err(|e| ("grammar".to_owned(), format!("the .ui leaves the form grammar: {e}")))?;
    let f = form::decode_root(&rootel).map_err(|e| ("structure".to_owned(), e))?;
    Ok((rootel, f))
}

fn run_case(ch: &mut Chooser) -> Outcome {
    let case = gen_case(ch, StrMode::Xml);
    let style = Style { group: ch.chance(1, 3), semicolons: ch.chance(1, 6), comments: false, children_first: false };
    let printed = print_doc(DEFAULT_IMPORTS, &case.root, style);
    let t = translate(&printed.text, &case.type_name, Mode::Generate);
    let detail = |why: &str| json!({"qml": printed.text, "type_name": case.type_name, "why": why, "ui": t.ui_str(), "diagnostics": t.diag_summary(), "panic": t.panic});
    let fail = |k: &str, why: String| Outcome::fail(format!("c09-{k}"), why.clone(), detail(&why));
    if let Some(p) = &t.panic {
        return fail("panic", format!("translator panicked: {p}"));
    }
    if !t.accepted() {
        return fail("rejects-valid", format!("valid document rejected: {:?}", t.diag_summary()));
    }
    let (_, f) = match check_ui(t.ui.as_deref().unwrap_or_default(), &case.type_name) {
        Ok(x) => x,
        Err((k, why)) => return fail(&k, why),
    };
    if f.class != case.type_name {
        return fail("class-name", format!("<class> reads {:?}, type name is {:?}", f.class, case.type_name));
    }
    if let Err((a, why)) = compare_tree(&case.root, &f, &BTreeMap::new()) {
        return fail(&format!("tree-{a}"), why);
    }
    if let Err((a, why)) = check_expects(&case.root, &f, &case.expects) {
        // name the character class that was lost, so that findings have narrow keys
        return fail(&format!("value-{a}"), why);
    }
    let special: Vec<String> = case.expects.iter().flat_map(strings_of).filter(|s| has_special(s)).collect();
    for s in &special {
        if s.contains('\r') { ch.label("string-with-CR"); }
        if s.contains('\n') { ch.label("string-with-LF"); }
        if s.contains('\t') { ch.label("string-with-TAB"); }
        if s.contains(['<', '>', '&']) { ch.label("string-with-markup"); }
        if s.chars().any(|c| !c.is_ascii()) { ch.label("string-non-ascii"); }
        if s.starts_with(' ') || s.ends_with(' ') { ch.label("string-edge-blank"); }
    }
    if has_special(&case.type_name) { ch.label("type-name-special"); }
    let nt = (!special.is_empty()).then(|| stable_hash(&(&case.root, &case.type_name)));
    Outcome::pass(nt)
        .count("expectations", case.expects.len() as u64)
        .count("special_strings", special.len() as u64)
        .with_sample(ch.want_sample.then(|| json!({"qml": printed.text, "type_name": case.type_name})))
}

/// Replay on bare text: well-formedness, grammar and (when given) one string that must be found
/// verbatim among the decoded strings and attribute values.
fn check_text(v: &Value) -> Outcome {
    let qml = v["qml"].as_str().unwrap_or("");
    let type_name = v["type_name"].as_str().unwrap_or("T");
    let t = translate(qml, type_name, Mode::Generate);
    let detail = json!({"qml": qml, "ui": t.ui_str(), "diagnostics": t.diag_summary(), "panic": t.panic});
    if let Some(p) = &t.panic {
        return Outcome::fail("c09-panic", format!("translator panicked: {p}"), detail);
    }
    if !t.accepted() {
        return Outcome::pass(None);
    }
    let (rootel, _) = match check_ui(t.ui.as_deref().unwrap_or_default(), type_name) {
        Ok(x) => x,
        Err((k, why)) => return Outcome::fail(format!("c09-{k}"), why, detail),
    };
    if let Some(want) = v["must_contain_string"].as_str() {
        fn any(e: &xml::Elem, want: &str) -> bool {
            e.attrs.iter().any(|(_, v)| v == want) || (e.elems().next().is_none() && e.text() == want) || e.elems().any(|c| any(c, want))
        }
        if !any(&rootel, want) {
            return Outcome::fail(v["key"].as_str().unwrap_or("c09-value-lost").to_owned(), format!("the string {want:?} is not read back from the .ui"), detail);
        }
    }
    Outcome::pass(None)
}

pub fn replay(v: &Value) -> Outcome {
    if v["qml"].is_string() {
        return check_text(v);
    }
    match choices_from_json(v) {
        Some(c) => run_case(&mut Chooser::new(&c)),
        None => Outcome::skip("replay file without choices"),
    }
}

/// Probe for characters XML 1.0 cannot carry at all: the statement's first sentence still wants
/// every *emitted* file to be well-formed, so such a document must be rejected or sanitised.
fn run_nonxml_probe(ch: &mut Chooser) -> Outcome {
    let bad = *ch.pick(&['\u{1}', '\u{0}', '\u{8}', '\u{b}', '\u{c}', '\u{1f}', '\u{fffe}', '\u{ffff}', '\u{1b}']);
    let s = format!("a{bad}b");
    let lit = crate::qml::js_string(&s);
    let (qml, slot) = match ch.below(4) {
        0 => (format!("import qmluic.QtWidgets\nQWidget {{ toolTip: {lit} }}\n"), "text"),
        1 => (format!("import qmluic.QtWidgets\nQPushButton {{ icon.name: {lit} }}\n"), "attribute"),
        2 => (format!("import qmluic.QtWidgets\nQComboBox {{ model: [{lit}] }}\n"), "model-item"),
        _ => (format!("import qmluic.QtWidgets\nQLabel {{ font.family: {lit} }}\n"), "gadget-member"),
    };
    ch.label(match slot { "text" => "nonxml-in-text", "attribute" => "nonxml-in-attribute", "model-item" => "nonxml-in-model-item", _ => "nonxml-in-gadget-member" });
    let t = translate(&qml, "T", Mode::Generate);
    let detail = json!({"qml": qml, "ui": t.ui_str(), "diagnostics": t.diag_summary(), "panic": t.panic, "character": format!("U+{:04X}", bad as u32)});
    if let Some(p) = &t.panic {
        return Outcome::fail("c09-panic", format!("translator panicked: {p}"), detail);
    }
    if !t.accepted() {
        return Outcome::pass(Some(stable_hash(&qml)));
    }
    match xml::parse(t.ui.as_deref().unwrap_or_default()) {
        Ok(_) => Outcome::pass(Some(stable_hash(&qml))),
        Err(e) => Outcome::fail("c09-nonxml-char-emitted-raw", format!("a string with U+{:04X} is accepted and written raw; the .ui is not well-formed: {e}", bad as u32), detail),
    }
}

pub fn run(env: &Env, known: &Known, started: Instant, replayed: u64, replay_violations: Vec<Violation>) -> i32 {
    verify_catalogue();
    let cfg = ChoiceRun { env, pid: PID, part: "non-xml-chars-probe", cases: env.tier.pick(2_000, 20_000), max_len: 8, known };
    let probe = run_choices(&cfg, run_nonxml_probe);
    let cfg = ChoiceRun { env, pid: PID, part: "documents", cases: env.tier.pick(100_000, 900_000), max_len: 900, known };
    let rr = run_choices(&cfg, run_case);
    let ev = Evidence {
        env, pid: PID, level: "exploration",
        rule: "accepted documents (1-30 objects) decorated with up to 4 bindings per object from the whole constant-binding catalogue (scalars of every type, fonts, size policies, rects, sizes, palettes, brushes, icons with theme attribute, cursors, pixmaps, key sequences, string lists, model items, header-view maps, contents margins, tab attributes); every string slot is filled from the XML 1.0 Char production (markup characters, quotes, ']]>', entity look-alikes, TAB/LF/CR/CRLF, edge blanks, U+0085, U+2028, BMP and astral characters); type names with unusual spellings. Oracle: independent strict XML reader (well-formedness), content-model table of the ui4 subset uic reads (nesting, exactly one value element, no duplicate property names), <class> = type name, and every decoded value = model value exactly. Non-trivial = document with a string containing markup/quote/TAB/LF/CR/non-ASCII or edge blanks; distinct by (tree, type name) hash.",
        assumptions: vec![
            "the harness XML reader implements XML 1.0 attribute-value and line-end normalisation correctly (cross-checked against expat in the thorough tier of this check when python3 is present)".into(),
            "characters XML 1.0 cannot carry (C0 controls other than TAB/LF/CR, U+FFFE/FFFF) are outside the string-preservation clause; the main generator does not produce them, a separate probe checks that documents containing them are rejected or still yield well-formed XML (known finding)".into(),
        ],
        extra: json!({}),
    };
    let mut rr = rr;
    rr.stats.merge(probe.stats);
    rr.violations.extend(probe.violations);
    finish(&ev, rr.stats, rr.violations, replayed, replay_violations, started)
}
