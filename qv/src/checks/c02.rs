//! C02 — dynamic bindings stay current when any property they read changes
//! (DESIGN.md section 3, C02): histories of property changes (incl. re-pointing and nulling of
//! intermediate object pointers) are applied to the compiled support code; after every step every
//! bound target must equal the reference interpreter's value in the new state. Static second
//! oracle over the header: every read of a non-constant property is covered by a connection.
//! Third: reads of a property without NOTIFY are rejected.

use super::c01::{eval_binding, expect_of, prepare_full, settle, walk_program, Prep, Prepared};
use super::finish;
use crate::cfg;
use crate::common::*;
use crate::cxx::{self, DocUnit, Step};
use crate::cxxrun::*;
use crate::form::Form;
use crate::hdr;
use crate::lang::*;
use crate::langgen::*;
use crate::meta::meta;
use crate::translate::{translate, Mode};
use serde_json::{json, Value};
use std::collections::{BTreeMap, BTreeSet};
use std::time::Instant;

const PID: &str = "C02";

fn gen_opts() -> GenOpts {
    let mut o = super::c01::gen_opts();
    o.allow.pointer_heavy = true;
    o
}

// ---------------------------------------------------------------------------------------------
// static oracle: every property read is covered

fn class_of_name(form: &Form, name: &str) -> Option<String> {
    form.root.find(name).map(cxx::class_of)
}

/// (receiver expression, getter) pairs of `X->getter()` calls in a statement text
fn getter_calls(text: &str) -> Vec<(String, String)> {
    let mut out = vec![];
    let b = text.as_bytes();
    let mut i = 0;
    while let Some(p) = text[i..].find("->") {
        let at = i + p;
        // member name
        let mut j = at + 2;
        while j < b.len() && (b[j].is_ascii_alphanumeric() || b[j] == b'_') {
            j += 1;
        }
        let member = &text[at + 2..j];
        if text[j..].starts_with("()") && !member.is_empty() {
            // receiver: walk back over identifier characters, `->` and `this`
            let mut k = at;
            loop {
                let mut m = k;
                while m > 0 && (b[m - 1].is_ascii_alphanumeric() || b[m - 1] == b'_') {
                    m -= 1;
                }
                if m >= 2 && &text[m - 2..m] == "->" && m < k {
                    k = m - 2;
                    continue;
                }
                k = m;
                break;
            }
            let recv = text[k..at].to_owned();
            if !recv.is_empty() {
                out.push((recv, member.to_owned()));
            }
        }
        i = at + 2;
    }
    out
}

fn local_types(f: &hdr::Func) -> BTreeMap<String, String> {
    let mut out = BTreeMap::new();
    for l in &f.body {
        let t = l.trim();
        if t.ends_with(':') {
            break;
        }
        if let Some(decl) = t.strip_suffix(';') {
            if let Some((ty, name)) = decl.rsplit_once(' ') {
                out.insert(name.to_owned(), ty.trim().to_owned());
            }
        }
    }
    // parameters
    for p in hdr::split_top(&f.params) {
        if let Some((ty, name)) = p.trim().rsplit_once(' ') {
            out.insert(name.to_owned(), ty.trim().to_owned());
        }
    }
    out
}

/// Every `X->read()` of a non-constant property in an eval body is covered by a connect in the
/// binding's setup function (named objects) or by an observer block earlier in the same block.
pub fn check_coverage(header: &str, form: &Form) -> Result<usize, (String, String)> {
    let h = hdr::scan(header).map_err(|e| ("unscannable".to_owned(), e))?;
    let m = meta();
    let root_class = cxx::class_of(&form.root);
    let mut n_reads = 0;
    for f in &h.funcs {
        let Some(bname) = f.name.strip_prefix("eval") else { continue };
        if !bname.starts_with(|c: char| c.is_ascii_uppercase()) || !f.body.iter().any(|l| l.trim() == "b0:") {
            continue;
        }
        // (members of a grouped value are connected by the setup function of the group: setupT0Tfont for evalT0TfontBold)
        let setup = h.funcs.iter().filter(|x| x.name.strip_prefix("setup").map(|n| !n.is_empty() && bname.starts_with(n) && bname[n.len()..].chars().next().map(|c| c.is_ascii_uppercase()).unwrap_or(true)).unwrap_or(false)).max_by_key(|x| x.name.len());
        let static_connects: Vec<(String, String)> = setup.map(|s| hdr::Header::connects(s)).unwrap_or_default().into_iter().map(|c| (c.sender, c.signal.rsplit("::").next().unwrap_or("").to_owned())).collect();
        let types = local_types(f);
        let body = cfg::parse(f).map_err(|e| ("unparsable-body".to_owned(), e))?;
        for blk in &body.blocks {
            // (local, signal) observed so far in this block; local -> static object it copies
            let mut observed: BTreeSet<(String, String)> = BTreeSet::new();
            let mut alias: BTreeMap<String, String> = BTreeMap::new();
            for (assigned, text) in &blk.stmts {
                if text.starts_with("if (Q_UNLIKELY(") {
                    for c in text.match_indices("QObject::connect(").filter_map(|(p, _)| hdr::parse_connect(text[p..].split(");").next().map(|s| format!("{s});")).unwrap_or_default().as_str())) {
                        observed.insert((c.sender.clone(), c.signal.rsplit("::").next().unwrap_or("").to_owned()));
                    }
                    continue;
                }
                for (recv, getter) in getter_calls(text) {
                    let (class, is_static) = if recv == "this->root_" {
                        (Some(root_class.clone()), true)
                    } else if let Some(n) = recv.strip_prefix("this->ui_->") {
                        (class_of_name(form, n), true)
                    } else if let Some(t) = types.get(&recv) {
                        (Some(t.trim_end_matches('*').trim().to_owned()), false)
                    } else {
                        (None, false)
                    };
                    let Some(class) = class else { continue };
                    let Some(pi) = m.props(&class).into_iter().find(|p| p.read.as_deref() == Some(getter.as_str())) else { continue };
                    if pi.constant {
                        continue;
                    }
                    n_reads += 1;
                    let Some(sig) = pi.notify.clone() else {
                        return Err(("read-without-notify".into(), format!("{}: reads {recv}->{getter}() of property {} which has no notify signal and is not constant", f.name, pi.name)));
                    };
                    let covered = if is_static {
                        static_connects.iter().any(|(s, g)| *s == recv && *g == sig)
                    } else {
                        observed.contains(&(recv.clone(), sig.clone())) || alias.get(&recv).map(|st| static_connects.iter().any(|(s, g)| s == st && *g == sig)).unwrap_or(false)
                    };
                    if !covered {
                        return Err(("uncovered-read".into(), format!("{}: block {} reads {recv}->{getter}() but neither setup{bname}() connects {recv} … {sig} nor does an observer on {recv} with {sig} precede the read in the block", f.name, blk.label)));
                    }
                }
                // track copies of named objects into locals (same block only)
                if let Some(a) = assigned {
                    let t = text.trim();
                    if t == "this->root_" || (t.starts_with("this->ui_->") && t["this->ui_->".len()..].chars().all(|c| c.is_ascii_alphanumeric() || c == '_')) {
                        alias.insert(a.clone(), t.to_owned());
                    } else if let Some(st) = alias.get(t).cloned() {
                        alias.insert(a.clone(), st);
                    } else {
                        alias.remove(a);
                        // an observation of the old value of the local no longer counts
                        observed.retain(|(l, _)| l != a);
                    }
                }
            }
        }
    }
    Ok(n_reads)
}

// ---------------------------------------------------------------------------------------------
// histories

fn pointer_props() -> Vec<&'static str> {
    vec!["p0", "p1"]
}

pub fn build_case(ch: &mut Chooser, name: &str) -> Built {
    // one document in five has 20-48 small bindings (guard bits of more than one word, nested
    // updates between bindings whose indices are far apart)
    let many = ch.chance(1, 5);
    let nb = if many { 20 + ch.below(29) } else { 4 + ch.below(12) };
    let n_derived = if many { 5 + ch.below(6) } else if ch.chance(1, 2) { 1 + ch.below(3) } else { 0 };
    let mut opts = gen_opts();
    if many {
        ch.label("many-bindings-with-chains");
        opts.max_expr_depth = 2;
        opts.max_stmt_depth = 1;
    }
    let gadgets = ch.chance(1, 3);
    let p: Box<Prepared> = match prepare_full(ch, name, nb, &opts, n_derived, gadgets) {
        Prep::Ok(p) => p,
        Prep::Skip(w) => return Built::Skip(w),
        Prep::Fail(f) => return Built::Fail(f),
    };
    if p.dynamic.is_empty() {
        return Built::Skip("every binding was folded into the .ui (C03's domain)");
    }
    // static oracle on every generated document
    let header_text = String::from_utf8_lossy(&p.header).into_owned();
    let covered_reads = match check_coverage(&header_text, &p.form) {
        Ok(n) => n,
        Err((aspect, why)) => return Built::Fail(Failure { key: format!("c02-{aspect}"), what: why.clone(), detail: json!({"qml": p.qml, "why": why, "header": header_text}) }),
    };
    let world = &p.doc.world;
    let names = obj_names(world);
    let srcs = world.of_class("VSrc");
    let mut state = p.state.clone();
    let reads_of = |state: &[ObjState]| -> BTreeSet<(usize, &'static str)> {
        let mut r = BTreeSet::new();
        for k in &p.dynamic {
            if let Ok((_, rs)) = eval_binding(&p.doc.bindings[*k], state) {
                r.extend(rs);
            }
        }
        // what the derived source properties read is live as well (binding chains)
        for d in &p.derived {
            if let Ok((_, rs)) = eval_binding(d, state) {
                r.extend(rs);
            }
        }
        // derived properties are not free: the history never sets them directly
        r.retain(|(o, pn)| !p.derived.iter().any(|d| d.host == *o && d.prop == *pn));
        r
    };
    let is_derived = |o: usize, pn: &str| p.derived.iter().any(|d| d.host == o && d.prop == pn);
    let mut ints = vec![];
    let mut strs = vec![];
    for k in &p.dynamic {
        walk_program(&p.doc.bindings[*k].program, &mut |e| match e {
            E::Int(v, _) | E::UInt(v, _) => ints.push(*v),
            E::Str(s, _) => strs.push(s.clone()),
            _ => {}
        });
    }
    let mut steps = vec![Step { desc: "setup()".into(), cxx: "support.setup();".into(), tracing: false, expect: expect_of(&p, &state).expect("defined by construction"), expect_trace: vec![] }];
    let n_ops = 8 + ch.below(33);
    let mut dropped = 0u64;
    let mut repoints = 0u64;
    // reads that became live through a re-point and have not been changed since
    let mut fresh: BTreeSet<(usize, &'static str)> = BTreeSet::new();
    let mut leaf_after_repoint = 0u64;
    let mut through_local_or_ternary = ch.labels.contains("object-through-local") || ch.labels.contains("object-through-ternary");
    let folded: Vec<usize> = (0..p.doc.bindings.len()).filter(|k| !p.dynamic.contains(k)).collect();
    let mut first_value: BTreeMap<usize, String> = BTreeMap::new();
    let mut stale_constant: Option<(usize, String, String)> = None;
    let mut note_folded = |state: &[ObjState], stale: &mut Option<(usize, String, String)>| {
        for k in &folded {
            if let Ok((v, _)) = eval_binding(&p.doc.bindings[*k], state) {
                let e = cxx::enc_value(&v, &names);
                match first_value.get(k) {
                    None => {
                        first_value.insert(*k, e);
                    }
                    Some(f) if *f != e && stale.is_none() => *stale = Some((*k, f.clone(), e)),
                    _ => {}
                }
            }
        }
    };
    note_folded(&state, &mut stale_constant);
    for _ in 0..n_ops {
        let reads = reads_of(&state);
        let read_vec: Vec<(usize, &'static str)> = reads.iter().copied().collect();
        let ptr_reads: Vec<(usize, &'static str)> = read_vec.iter().copied().filter(|(_, pn)| pointer_props().contains(pn)).collect();
        let kind = ch.weighted(&[30, 35, 12, 10, 8, 5]);
        // (object, property, new value, description, C++), or a notify without change
        let (obj, prop, v, what): (usize, &'static str, V, &str) = match kind {
            0 if !read_vec.is_empty() => {
                let (o, pn) = *ch.pick(&read_vec);
                let ty = SRC_PROPS.iter().find(|(n, _)| *n == pn).map(|(_, t)| t.clone()).unwrap();
                (o, pn, super::c01::gen_change(ch, &ty, world, &ints, &strs), "set")
            }
            1 => {
                // re-point a pointer property: one that is read if there is one
                let (o, pn) = if !ptr_reads.is_empty() && ch.chance(4, 5) { *ch.pick(&ptr_reads) } else { (*ch.pick(&srcs), *ch.pick(&pointer_props())) };
                let target = match ch.weighted(&[60, 10, 30]) {
                    0 => V::Ptr(Some(*ch.pick(&srcs))),
                    1 => V::Ptr(Some(o)),
                    _ => V::Ptr(None),
                };
                (o, pn, target, "re-point")
            }
            2 => {
                // a property of an object that is not read at the moment (stale observers, unrelated objects)
                let o = *ch.pick(&srcs);
                let (pn, ty) = ch.pick(SRC_PROPS).clone();
                (o, pn, gen_value_of(ch, &ty, world), "set-unread")
            }
            3 if !read_vec.is_empty() => {
                let (o, pn) = *ch.pick(&read_vec);
                (o, pn, state[o].props[pn].clone(), "set-equal")
            }
            4 if !read_vec.is_empty() => {
                let (o, pn) = *ch.pick(&read_vec);
                (o, pn, state[o].props[pn].clone(), "notify-only")
            }
            _ => {
                let o = *ch.pick(&srcs);
                let (pn, ty) = ch.pick(SRC_PROPS).clone();
                (o, pn, gen_value_of(ch, &ty, world), "set")
            }
        };
        if !is_src_class(world.objs[obj].class) || is_derived(obj, prop) {
            continue;
        }
        let before = state.clone();
        let old = state[obj].props.insert(prop, v.clone()).unwrap();
        match settle(&p.derived, &mut state).and_then(|_| expect_of(&p, &state)) {
            Ok(exp) => {
                let cxx_stmt = if what == "notify-only" {
                    // emit the notify signal without a change (with the value when the signal carries it)
                    let sig = format!("{prop}Changed");
                    if crate::vtypes::SRC_NOTIFY_WITH_ARG.contains(&prop) {
                        format!("{o}->{sig}({o}->{prop}());", o = names[obj])
                    } else {
                        format!("{}->{sig}();", names[obj])
                    }
                } else {
                    cxx_set(world, obj, prop, &v)
                };
                if what == "re-point" && old != v {
                    repoints += 1;
                    let after = reads_of(&state);
                    for r in after.difference(&reads) {
                        fresh.insert(*r);
                    }
                } else if (what == "set") && old != v && fresh.remove(&(obj, prop)) {
                    leaf_after_repoint += 1;
                }
                note_folded(&state, &mut stale_constant);
                let mut exp = exp;
                for d in &p.derived {
                    exp.push((names[d.host].clone(), d.prop.to_owned(), cxx::enc_value(&state[d.host].props[d.prop], &names)));
                }
                steps.push(Step { desc: format!("{what} {}.{} = {}", names[obj], prop, cxx::enc_value(&v, &names)), cxx: cxx_stmt, tracing: false, expect: exp, expect_trace: vec![] });
            }
            Err(_) => {
                dropped += 1;
                state = before;
            }
        }
    }
    // a binding whose value differs between two states of the history cannot be a constant of the
    // .ui: it must have become an eval function (stale otherwise)
    if let Some((k, v0, v1)) = stale_constant {
        let b = &p.doc.bindings[k];
        let why = format!("binding `{}: …` of {} has no eval function (it is treated as a constant) but its source expression denotes {} in one state of the history and {} in another", b.prop, names[b.host], v0, v1);
        return Built::Fail(Failure { key: "c02-state-dependent-binding-not-generated".into(), what: why.clone(), detail: json!({"qml": p.qml, "why": why, "header": header_text}) });
    }
    through_local_or_ternary &= steps.len() > 3;
    let nontrivial = (leaf_after_repoint > 0 || through_local_or_ternary).then(|| stable_hash(&(&p.qml, steps.iter().map(|s| s.desc.clone()).collect::<Vec<_>>())));
    if leaf_after_repoint > 0 {
        ch.label("leaf-changed-on-new-chain-after-re-point");
    }
    let unit = DocUnit { name: name.to_owned(), header: p.header.clone(), form: p.form.clone(), init: cxx_init(world, &p.state), steps };
    let sample = json!({"qml": p.qml, "history": unit.steps.iter().map(|s| s.desc.clone()).collect::<Vec<_>>()});
    Built::Case(Box::new(CxxCase {
        qml: p.qml.clone(),
        nontrivial,
        labels: ch.labels.clone(),
        counters: vec![
            ("bindings_executed", p.dynamic.len() as u64),
            ("history_ops", unit.steps.len() as u64 - 1),
            ("ops_dropped_undefined", dropped),
            ("re_points", repoints),
            ("leaf_changes_on_new_chain", leaf_after_repoint),
            ("property_reads_checked_for_coverage", covered_reads as u64),
            ("derived_source_properties", p.derived.len() as u64),
        ],
        sample,
        unit,
    }))
}

fn key_of(_c: &CxxCase, kind: &str, _msg: &str) -> String {
    format!("c02-{kind}")
}

// ---------------------------------------------------------------------------------------------
// unobservable reads must be rejected

fn run_unobservable(env: &Env, stats: &mut Stats) -> Vec<Violation> {
    let mut out = vec![];
    let n = env.tier.pick(400, 20_000);
    let seqs = sample_choices(env, PID, "unobservable", n, 64);
    for c in &seqs {
        let mut ch = Chooser::new(c);
        // an int-valued read of `nn` (no NOTIFY, not CONSTANT) through a generated receiver, inside a generated context
        let recv = *ch.pick(&["a0", "a1", "a0.p0", "a1.p1.p0", "(a0.b0 ? a0 : a1)", "(a1.p0 as VSrc)", "a2", "(a2 as VSrc)"]);
        // one case in three reads the notify-less object pointer `pn` instead of the notify-less int `nn`
        let pointer = ch.chance(1, 3);
        let read = format!("{recv}.nn");
        let (prop, expr) = if pointer {
            ch.label("unobservable-pointer-property");
            match ch.below(5) {
                0 => ("ti", format!("{recv}.pn.i0")),
                1 => ("tb", format!("{recv}.pn != null")),
                2 => ("tp", format!("{recv}.pn")),
                3 => ("ti", format!("{recv}.pn !== null ? {recv}.pn.i0 : 0")),
                _ => ("ts", format!("{{ let o = {recv}.pn; return o.s0 }}")),
            }
        } else { match ch.below(7) {
            0 => ("ti", read.clone()),
            1 => ("ti", format!("{read} + a0.i0")),
            2 => ("tb", format!("{read} > 3")),
            3 => ("ts", format!("qsTr(\"%1\").arg({read})")),
            4 => ("ti", format!("a0.b0 ? {read} : 0")),
            5 => ("ti", format!("{{ let o = {recv}; if (a0.b1) {{ return o.nn }} return 1 }}")),
            _ => ("ti", format!("{{ switch (a0.i0) {{ case 1: return {read}; default: return 2 }} }}")),
        } };
        let binding = format!("{prop}: {expr}");
        let qml = format!("import qmluic.QtWidgets\nQWidget {{\n    VSrc {{ id: a0 }}\n    VSrc {{ id: a1 }}\n    VSub {{ id: a2 }}\n    VDst {{\n        id: t0\n        {binding}\n    }}\n}}\n");
        let t = translate(&qml, "T", Mode::Generate);
        stats.evaluations += 1;
        stats.nontrivial.insert(stable_hash(&binding));
        *stats.counters.entry("unobservable_cases".into()).or_default() += 1;
        let start = qml.find(&binding).unwrap();
        let inside = t.errors().any(|d| d.message.contains("unobservable property") && d.start >= start && d.end <= start + binding.len());
        if t.panic.is_some() || t.accepted() || !inside {
            let why = if t.accepted() { "accepted (a stale binding was generated)".to_owned() } else if let Some(p) = &t.panic { format!("panic: {p}") } else { "no `unobservable property` error inside the binding".to_owned() };
            out.push(Violation { failure: Failure { key: "c02-unobservable-read-not-rejected".into(), what: format!("binding `{binding}` reads nn (no NOTIFY, not CONSTANT): {why}"), detail: json!({"qml": qml, "diagnostics": t.diag_summary()}) }, choices: Some(c.clone()), part: "unobservable".into() });
            break;
        }
        if pointer {
            continue;
        }
        // the constant property next to it needs no connection and must be accepted
        let ok_qml = qml.replace(".nn", ".ci");
        let t2 = translate(&ok_qml, "T", Mode::Generate);
        if !t2.accepted() {
            out.push(Violation { failure: Failure { key: "c02-constant-read-rejected".into(), what: format!("the same binding reading the CONSTANT property ci is rejected: {:?}", t2.diag_summary()), detail: json!({"qml": ok_qml}) }, choices: Some(c.clone()), part: "unobservable".into() });
            break;
        }
    }
    out
}

pub fn replay(v: &Value) -> Outcome {
    if v["qml"].is_string() && v["steps"].is_array() {
        return match unit_from_json(v) {
            Ok((u, qml)) => match run_single(&u, "C02r") {
                None => Outcome::pass(None),
                Some((kind, msg)) => Outcome::fail(format!("c02-{kind}"), msg.clone(), json!({"qml": qml, "why": msg, "header": String::from_utf8_lossy(&u.header)})),
            },
            Err(_) => Outcome::pass(None),
        };
    }
    match choices_from_json(v) {
        Some(c) if v["part"].as_str() != Some("unobservable") => {
            let mut ch = Chooser::new(&c);
            match build_case(&mut ch, "R0") {
                Built::Case(case) => match run_single(&case.unit, "C02r") {
                    None => Outcome::pass(None),
                    Some((kind, msg)) => Outcome::fail(key_of(&case, &kind, &msg), msg.clone(), case_detail(&case, &msg)),
                },
                Built::Skip(w) => Outcome::skip(w),
                Built::Fail(f) => Outcome { verdict: Verdict::Fail(f), nontrivial: None, sample: None, counters: vec![] },
            }
        }
        _ => Outcome::skip("replay file without a replayable case"),
    }
}

pub fn run(env: &Env, known: &Known, started: Instant, replayed: u64, replay_violations: Vec<Violation>) -> i32 {
    let cfg = Campaign { env, pid: PID, part: "histories", cases: env.tier.pick(320, 10000), max_len: 5000, per_tu: 6, known, shrink_steps: 24 };
    let mut rr = campaign(&cfg, build_case, &key_of);
    let mut un = run_unobservable(env, &mut rr.stats);
    rr.violations.append(&mut un);
    let ev = Evidence {
        env, pid: PID, level: "exploration",
        rule: "documents of 4-15 generated bindings whose generator favours pointer chains (a.p0.p1.x, one to three links), objects held in locals and ternary-selected objects over 2-4 source objects (VSrc/VSub/VSub2) forming a pointer graph; notify signals with and without the value as argument and an overloaded notify name occur. Each document is compiled against the API model and driven by a history of 8-40 operations applied after setup(): set a property that some binding currently reads (values chosen to flip branches), re-point a pointer property that is read (to another object, to itself, to null), change properties of objects that are not read now (stale observers), set the current value again, emit a notify signal without a change. After setup() and after every operation every bound target printed by the compiled code must equal the reference interpreter's value of its source expression in the current model state (the model mirrors the mock: setters notify only on change). Operations after which some binding would be undefined (null dereference etc.) are dropped and counted. Static oracle on every document: in each eval body every X->getter() of a non-constant property is covered by a connect(X, notify) in the binding's setup function when X is a named object (or a local copying one in the same block), else by an observer block on X with that notify signal earlier in the same basic block. Third part: bindings reading the property nn (int, no NOTIFY, not CONSTANT) or pn (object pointer, no NOTIFY, not CONSTANT) through eight receiver shapes and seven (five) contexts must be rejected with an `unobservable property` error inside the binding, while the same binding reading the CONSTANT property ci is accepted. Non-trivial history = one in which a pointer property was re-pointed and later a leaf property that became live through that re-point was changed, or whose document reads through a local or a ternary-selected object; distinct by (document, history).",
        assumptions: vec![
            "the API model's setters store and notify only on change; the C++ side sees nothing but setter and signal calls".into(),
            "direct (same-thread) connections: slots run synchronously in connection order".into(),
        ],
        extra: json!({}),
    };
    finish(&ev, rr.stats, rr.violations, replayed, replay_violations, started)
}
