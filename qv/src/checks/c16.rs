//! C16 — the support header is self-consistent, valid C++ over the documented Qt API
//! (DESIGN.md section 3, C16): every generated header is compiled (g++ -std=c++17, thorough also
//! clang++) against declarations emitted from the same type information, scanned at token level
//! (names, indices, array sizes, includes), and string literals are executed and compared.

use super::finish;
use crate::common::*;
use crate::cxx::{self, DocUnit, Step};
use crate::cxxrun::*;
use crate::doc::*;
use crate::form::{self, Form};
use crate::hdr;
use crate::lang::*;
use crate::langdoc::*;
use crate::langgen::*;
use crate::translate::{translate, Mode};
use rayon::prelude::*;
use serde_json::{json, Value};
use std::collections::{BTreeMap, BTreeSet};
use std::time::Instant;

const PID: &str = "C16";

// ---------------------------------------------------------------------------------------------
// token-level checks

fn count_tokens(text: &str, tok: &str) -> usize {
    text.match_indices(tok).count()
}

pub fn check_tokens(header: &str) -> Result<(usize, usize), (String, String)> {
    let h = hdr::scan(header).map_err(|e| ("unscannable".to_owned(), e))?;
    // function names pairwise distinct
    let mut seen = BTreeSet::new();
    for f in &h.funcs {
        if !seen.insert(f.name.clone()) {
            return Err(("duplicate-function".into(), format!("member function {} is defined twice", f.name)));
        }
    }
    // every this->name( call has a definition
    for f in &h.funcs {
        for l in &f.body {
            let mut rest = l.as_str();
            while let Some(p) = rest.find("this->") {
                let after = &rest[p + 6..];
                let end = after.find(|c: char| !(c.is_ascii_alphanumeric() || c == '_')).unwrap_or(after.len());
                let name = &after[..end];
                if after[end..].starts_with('(') && !seen.contains(name) {
                    return Err(("undefined-function".into(), format!("{} calls this->{name}(), which is not defined", f.name)));
                }
                rest = &after[end..];
            }
        }
    }
    // binding indices: distinct, one per update function
    let idx: BTreeSet<&String> = h.binding_indices.iter().collect();
    if idx.len() != h.binding_indices.len() {
        return Err(("duplicate-binding-index".into(), "BindingIndex has two enumerators of the same name".into()));
    }
    let updates: Vec<&hdr::Func> = h.funcs.iter().filter(|f| f.name.starts_with("update") && f.name[6..].starts_with(|c: char| c.is_ascii_uppercase())).collect();
    if updates.len() != h.binding_indices.len() {
        return Err(("binding-index-count".into(), format!("{} update functions, {} BindingIndex enumerators", updates.len(), h.binding_indices.len())));
    }
    for u in &updates {
        let want = format!("BindingIndex::{}", &u.name[6..]);
        if !u.body.iter().any(|l| l.contains(&want)) {
            return Err(("binding-index-use".into(), format!("{} does not use its own index {want}", u.name)));
        }
    }
    // guard array: one bit per binding
    let n = h.binding_indices.len();
    if n > 0 {
        let words = h.fields.iter().find_map(|f| f.strip_prefix("quint32 bindingGuard_[").and_then(|r| r.split(']').next()).and_then(|s| s.parse::<usize>().ok()));
        match words {
            Some(w) if w * 32 >= n => {}
            Some(w) => return Err(("guard-too-small".into(), format!("bindingGuard_ has {w} words for {n} bindings"))),
            None => return Err(("guard-missing".into(), format!("{n} bindings but no bindingGuard_ field"))),
        }
    }
    // observer arrays: large enough for every index used
    for f in &h.funcs {
        let Some(b) = f.name.strip_prefix("eval") else { continue };
        let mut max_used: Option<usize> = None;
        for l in &f.body {
            let mut rest = l.as_str();
            while let Some(p) = rest.find("observed[") {
                let after = &rest[p + 9..];
                if let Some(k) = after.split(']').next().and_then(|s| s.parse::<usize>().ok()) {
                    max_used = Some(max_used.map_or(k, |m: usize| m.max(k)));
                }
                rest = after;
            }
        }
        if let Some(m) = max_used {
            let field = format!("PropertyObserver observed{b}_[");
            let size = h.fields.iter().find_map(|fl| fl.strip_prefix(field.as_str()).and_then(|r| r.split(']').next()).and_then(|s| s.parse::<usize>().ok()));
            match size {
                Some(s) if s > m => {}
                Some(s) => return Err(("observer-array-too-small".into(), format!("{} uses observed[{m}] but observed{b}_ has {s} elements", f.name))),
                None => return Err(("observer-array-missing".into(), format!("{} uses observed[{m}] but there is no observed{b}_ field", f.name))),
            }
        }
    }
    // includes: present iff used
    let body: String = h.funcs.iter().flat_map(|f| f.body.iter()).map(|l| l.as_str()).collect::<Vec<_>>().join("\n");
    for (inc, used) in [
        ("algorithm", body.contains("std::max") || body.contains("std::min")),
        ("QtDebug", ["qDebug()", "qInfo()", "qWarning()", "qCritical()"].iter().any(|t| body.contains(t))),
        ("cmath", body.contains("std::fmod")),
    ] {
        let has = h.includes.iter().any(|i| i == &format!("<{inc}>"));
        if used && !has {
            return Err(("missing-include".into(), format!("<{inc}> is used but not included")));
        }
        // (an include without use is harmless and not excluded by the statement: a binding whose value
        // is constant keeps its includes although no function is emitted for it)
        let _ = has;
    }
    let ops = ["+", "-", "*", "/", "%", "<<", ">>", "&", "|", "^", "==", "!=", "<=", ">=", "static_cast", "std::max", "std::min", ".arg(", "isEmpty()", ".at(", "value<"].iter().filter(|t| count_tokens(&body, t) > 0).count();
    Ok((h.funcs.len(), ops))
}

// ---------------------------------------------------------------------------------------------
// compile family

struct Doc {
    qml: String,
    name: String,
    header: Vec<u8>,
    form: Form,
    nontrivial: Option<u64>,
    labels: BTreeSet<&'static str>,
    functions: usize,
}

enum Made {
    Doc(Box<Doc>),
    Skip(&'static str),
    Fail(Failure),
}

fn breadth_opts(ch: &mut Chooser) -> GenOpts {
    let mut o = super::c01::gen_opts();
    o.allow.pointer_heavy = ch.chance(1, 3);
    o.max_stmt_depth = 3;
    o
}

fn make_doc(ch: &mut Chooser, name: &str) -> Made {
    let family = ch.weighted(&[40, 18, 32, 10]);
    let qml = match family {
        3 => {
            // object ids and member names whose capitalised concatenations are the same word:
            // d.xTi / dX.ti -> DXTi, s.onXFired / sX.onFired -> SXFired (function names must still differ)
            ch.label("family-colliding-names");
            let mut root = Obj::new("QWidget");
            root.children.push(Obj::new("VSrc").with_id("a0"));
            let mut objs: Vec<Obj> = vec![];
            let e = |ch: &mut Chooser| format!("a0.i0 + {}", ch.below(9));
            let mut d = Obj::new("VDst").with_id("d");
            let mut dx = Obj::new("VDst").with_id("dX");
            if ch.chance(5, 6) { d.binds.push(Bind::new("xTi", e(ch))); }
            if ch.chance(5, 6) { dx.binds.push(Bind::new("ti", e(ch))); }
            if ch.chance(1, 2) { d.binds.push(Bind::new("ti", e(ch))); }
            if ch.chance(1, 2) { dx.binds.push(Bind::new("xTi", e(ch))); }
            let mut s = Obj::new("VSig").with_id("s");
            let mut sx = Obj::new("VSig").with_id("sX");
            let h = |ch: &mut Chooser| match ch.below(3) { 0 => "d.ti2 = 1".to_owned(), 1 => "{ dX.ti2 = 2 }".to_owned(), _ => "function() { console.log(\"h\") }".to_owned() };
            if ch.chance(5, 6) { s.binds.push(Bind::new("onXFired", h(ch))); }
            if ch.chance(5, 6) { sx.binds.push(Bind::new("onFired", h(ch))); }
            if ch.chance(1, 2) { s.binds.push(Bind::new("onFired", h(ch))); }
            if ch.chance(1, 2) { sx.binds.push(Bind::new("onXFired", h(ch))); }
            // a handler with a gadget-valued parameter: read only, member written, re-assigned
            if ch.chance(2, 3) {
                ch.label("handler-with-gadget-parameter");
                let mut g = Obj::new("VSig").with_id("gf");
                let body = match ch.below(4) {
                    0 => "function(f: QFont) { d.tfont = f }",
                    1 => "function(f: QFont) { f.bold = true; d.tfont = f }",
                    2 => "function(f: QFont) { f.pointSize = a0.i0; f.family = \"Mono\"; dX.tfont = f }",
                    _ => "function(f: QFont) { f = d.tfont; f.italic = a0.b0; d.tfont = f }",
                };
                g.binds.push(Bind::new("onFiredF", body));
                objs.push(g);
            }
            objs.extend([d, dx, s, sx]);
            // any order of the four objects
            for i in (1..objs.len()).rev() {
                let j = ch.below(i + 1);
                objs.swap(i, j);
            }
            root.children.extend(objs);
            print_doc(DEFAULT_IMPORTS, &root, Style::default()).text
        }
        0 => {
            ch.label("family-language-mixed");
            let nb = ch.below(14);
            let nh = ch.below(4);
            let o = breadth_opts(ch);
            let doc = gen_lang_doc(ch, nb, nh, &o);
            print_doc(DEFAULT_IMPORTS, &doc.root, Style::default()).text
        }
        1 => {
            // many bindings: guard array of more than one word, many observers
            ch.label("family-many-bindings");
            let nb = 33 + ch.below(40);
            let mut o = breadth_opts(ch);
            o.allow.pointer_heavy = true;
            o.max_stmt_depth = 1;
            o.max_expr_depth = 3;
            let nh = ch.below(3);
            let doc = gen_lang_doc(ch, nb, nh, &o);
            print_doc(DEFAULT_IMPORTS, &doc.root, Style::default()).text
        }
        _ => {
            ch.label("family-widget-catalogue");
            let case = super::c04::gen_accepted(ch);
            print_doc(DEFAULT_IMPORTS, &case.root, Style::default()).text
        }
    };
    let t = translate(&qml, name, Mode::Generate);
    if let Some(p) = &t.panic {
        return Made::Fail(Failure { key: "c16-panic".into(), what: format!("translator panicked: {p}"), detail: json!({"qml": qml}) });
    }
    if !t.accepted() {
        return Made::Skip("generated document rejected (judged by C05/C04)");
    }
    let (Some(ui), Some(header)) = (t.ui.as_deref(), t.header.clone()) else { return Made::Skip("no output") };
    let Ok(form) = form::decode(ui) else { return Made::Skip("ui not decodable (judged by C09)") };
    let text = String::from_utf8_lossy(&header).into_owned();
    match check_tokens(&text) {
        Ok((functions, ops)) => {
            if functions > 32 * 3 {
                ch.label("guard-array-longer-than-one-word");
            }
            let nontrivial = (functions >= 8 && ops >= 4).then(|| stable_hash(&qml));
            Made::Doc(Box::new(Doc { qml, name: name.to_owned(), header, form, nontrivial, labels: ch.labels.clone(), functions }))
        }
        Err((aspect, why)) => Made::Fail(Failure { key: format!("c16-{aspect}"), what: why.clone(), detail: json!({"qml": qml, "why": why, "header": text}) }),
    }
}

fn compile_group(docs: &[&Doc], compiler: &str, tag: &str) -> Vec<Option<String>> {
    let b = cxx::new_batch(tag);
    let dir = b.dir.path();
    let mut classes = base_classes();
    for d in docs {
        classes.extend(cxx::classes_of(&d.form));
    }
    std::fs::write(dir.join("qvapi.h"), cxx::emit_api(&classes)).unwrap();
    let mut main = String::from("#include \"qvapi.h\"\n");
    for d in docs {
        let lower = d.name.to_lowercase();
        std::fs::write(dir.join(format!("ui_{lower}.h")), cxx::mini_uic(&d.form, &d.name, "qvapi.h")).unwrap();
        std::fs::write(dir.join(format!("uisupport_{lower}.h")), &d.header).unwrap();
        main.push_str(&format!("#include \"uisupport_{lower}.h\"\n"));
        // instantiate the class so that every member is used
        main.push_str(&format!("void use_{lower}({} *r, Ui::{} *u) {{ UiSupport::{} s(r, u); s.setup(); }}\n", cxx::class_of(&d.form.root), d.name, d.name));
    }
    std::fs::write(dir.join("all.cpp"), &main).unwrap();
    let r = cxx::compile(dir, "all.cpp", None, compiler);
    if r.ok {
        return docs.iter().map(|_| None).collect();
    }
    docs.iter()
        .enumerate()
        .map(|(i, d)| {
            let lower = d.name.to_lowercase();
            let f = format!("one_{i}.cpp");
            std::fs::write(dir.join(&f), format!("#include \"qvapi.h\"\n#include \"uisupport_{lower}.h\"\nvoid use_{lower}({} *r, Ui::{} *u) {{ UiSupport::{} s(r, u); s.setup(); }}\n", cxx::class_of(&d.form.root), d.name, d.name)).unwrap();
            let r1 = cxx::compile(dir, &f, None, compiler);
            if r1.ok { None } else { Some(r1.stderr.lines().filter(|l| l.contains("error")).take(4).collect::<Vec<_>>().join("\n")) }
        })
        .collect()
}

/// finding key of a compile error: the known invalid construct when it is the cause
fn compile_key(err: &str, header: &str) -> String {
    let first = err.lines().next().unwrap_or("");
    if (first.contains("invalid conversion from 'int' to") || first.contains("cannot initialize") || first.contains("assigning to")) && plain_enum_bitwise_line(first, header) {
        return "c16-bitwise-on-plain-enum".into();
    }
    if first.contains("'NaN' was not declared") || first.contains("'inf' was not declared") || first.contains("use of undeclared identifier 'NaN'") || first.contains("use of undeclared identifier 'inf'") {
        return "c16-non-finite-double-constant".into();
    }
    "c16-compile-error".into()
}

/// the line the error points at is `aN = X op Y;` / `aN = ~X;` with op in & | ^ and aN declared as a plain (non-flag) enum
fn plain_enum_bitwise_line(first_error: &str, header: &str) -> bool {
    let mut it = first_error.split(':');
    let _file = it.next();
    let Some(line_no) = it.next().and_then(|s| s.parse::<usize>().ok()) else { return false };
    let Some(line) = header.lines().nth(line_no.saturating_sub(1)) else { return false };
    let t = line.trim();
    let Some((lhs, rhs)) = t.split_once(" = ") else { return false };
    if !(rhs.contains(" | ") || rhs.contains(" & ") || rhs.contains(" ^ ") || rhs.starts_with('~')) {
        return false;
    }
    // declaration of lhs in the same function: search backwards
    let decl = header.lines().take(line_no).collect::<Vec<_>>().into_iter().rev().find(|l| l.trim().ends_with(&format!(" {lhs};")));
    let Some(decl) = decl else { return false };
    let ty = decl.trim().trim_end_matches(&format!(" {lhs};")).trim();
    let Some((cls, en)) = ty.rsplit_once("::") else { return false };
    crate::meta::meta().find_enum(cls, en).map(|(_, e)| !e.is_flag).unwrap_or(false)
}

fn run_compile(env: &Env, known: &Known) -> RunResult {
    let n = env.tier.pick(480, 20_000);
    let seqs = sample_choices(env, PID, "compile", n, 6000);
    let mut rr = RunResult::default();
    let made: Vec<(usize, Made, BTreeSet<&'static str>)> = seqs
        .par_iter()
        .enumerate()
        .map(|(k, c)| {
            let mut ch = Chooser::new(c);
            match catch(|| make_doc(&mut ch, &format!("D{k}"))) {
                Ok(m) => (k, m, ch.labels.clone()),
                Err(p) => (k, Made::Fail(Failure { key: "harness-panic".into(), what: format!("harness panicked: {p}"), detail: json!({}) }), ch.labels.clone()),
            }
        })
        .collect();
    let mut docs: Vec<(usize, Box<Doc>)> = vec![];
    let mut fails: BTreeMap<String, (Failure, usize)> = BTreeMap::new();
    for (k, m, labels) in made {
        rr.stats.evaluations += 1;
        for l in &labels {
            *rr.stats.labels.entry((*l).to_owned()).or_default() += 1;
        }
        match m {
            Made::Skip(w) => *rr.stats.skipped.entry(w.to_owned()).or_default() += 1,
            Made::Fail(f) => {
                if known.matches(PID, &f.key).is_some() {
                    known.announce(PID, &f.key);
                    *rr.stats.known_hits.entry(f.key.clone()).or_default() += 1;
                } else {
                    fails.entry(f.key.clone()).or_insert((f, k));
                }
            }
            Made::Doc(d) => docs.push((k, d)),
        }
    }
    let compilers: &[&str] = if env.tier == Tier::Thorough { &["g++", "clang++"] } else { &["g++"] };
    for compiler in compilers {
        let groups: Vec<&[(usize, Box<Doc>)]> = docs.chunks(8).collect();
        let results: Vec<Vec<Option<String>>> = groups
            .par_iter()
            .enumerate()
            .map(|(g, grp)| {
                let ds: Vec<&Doc> = grp.iter().map(|(_, d)| d.as_ref()).collect();
                compile_group(&ds, compiler, &format!("C16{}g{g}", &compiler[..1]))
            })
            .collect();
        for (grp, res) in groups.iter().zip(&results) {
            for ((k, d), r) in grp.iter().zip(res) {
                match r {
                    None => {
                        if let Some(h) = d.nontrivial {
                            rr.stats.nontrivial.insert(h);
                        }
                        *rr.stats.counters.entry(format!("headers_compiled_{compiler}")).or_default() += 1;
                        *rr.stats.counters.entry("member_functions_compiled".into()).or_default() += d.functions as u64;
                        if rr.stats.samples.len() < 3 && d.labels.contains("family-widget-catalogue") {
                            rr.stats.samples.push(json!({"qml": d.qml.chars().take(1500).collect::<String>(), "member_functions": d.functions}));
                        }
                    }
                    Some(err) => {
                        let text = String::from_utf8_lossy(&d.header).into_owned();
                        let key = compile_key(err, &text);
                        if known.matches(PID, &key).is_some() {
                            known.announce(PID, &key);
                            *rr.stats.known_hits.entry(key).or_default() += 1;
                        } else {
                            fails.entry(key.clone()).or_insert((Failure { key, what: format!("{compiler}: {err}"), detail: json!({"qml": d.qml, "type_name": d.name, "compiler": compiler, "error": err, "header": text}) }, *k));
                        }
                    }
                }
            }
        }
    }
    for (_, (f, k)) in fails {
        rr.violations.push(Violation { failure: f, choices: Some(seqs[k].clone()), part: "compile".into() });
    }
    rr
}

// ---------------------------------------------------------------------------------------------
// literals family: string literals denote the source strings (executed)

fn build_literals(ch: &mut Chooser, name: &str) -> Built {
    // ts/ts2 bindings choosing between two literals, a concatenation with a dynamic part, a
    // translated literal, a list of literals; one handler logging a literal through a QString
    let n = 2 + ch.below(5);
    let mut lits: Vec<(String, String)> = vec![];
    for _ in 0..n * 2 + 3 {
        let s = gen_lit_string_in(ch, true, false);
        let sp = spell_string(ch, &s);
        lits.push((s, sp));
    }
    let mut world = World::default();
    world.objs.push(ObjDecl { id: "a0".into(), class: "VSrc" });
    let mut root = Obj::new("QWidget");
    root.children.push(Obj::new("VSrc").with_id("a0"));
    let mut n_dst = 0;
    let mut binds: Vec<(usize, &'static str, Program)> = vec![];
    let str_e = |k: usize| E::Str(lits[k].0.clone(), lits[k].1.clone());
    let b0 = || E::Prop(Box::new(E::Obj(0)), "b0", T::Bool);
    let s0 = || E::Prop(Box::new(E::Obj(0)), "s0", T::Str);
    for i in 0..n {
        let (prop, ty, e): (&'static str, T, E) = match ch.below(5) {
            0 => ("ts", T::Str, E::Ternary(Box::new(b0()), Box::new(str_e(2 * i)), Box::new(str_e(2 * i + 1)))),
            1 => ("ts2", T::Str, E::Bin(BinOp::Add, Box::new(E::Bin(BinOp::Add, Box::new(str_e(2 * i)), Box::new(s0()))), Box::new(str_e(2 * i + 1)))),
            // (the source text of qsTr goes through Qt's `const char *` translation API: U+0000 cannot be part of it)
            2 if !lits[2 * i].0.contains('\0') => ("ts", T::Str, E::Ternary(Box::new(b0()), Box::new(E::Tr(lits[2 * i].0.clone(), lits[2 * i].1.clone())), Box::new(s0()))),
            3 => ("tsl", T::ListStr, E::Array(vec![str_e(2 * i), s0(), str_e(2 * i + 1)])),
            _ => ("ts2", T::Str, E::Max(Box::new(s0()), Box::new(str_e(2 * i)))),
        };
        // one VDst per binding keeps the property names free
        let host = 1 + n_dst;
        world.objs.push(ObjDecl { id: format!("t{n_dst}"), class: "VDst" });
        let p = Program { ty, body: Body::Expr(e), locals: vec![], params: 0 };
        let mut o = Obj::new("VDst").with_id(format!("t{n_dst}"));
        o.binds.push(Bind::new(prop, print_program(&p, &world.objs, 2)));
        root.children.push(o);
        binds.push((host, prop, p));
        n_dst += 1;
    }
    let printed = print_doc(DEFAULT_IMPORTS, &root, Style::default());
    let t = translate(&printed.text, name, Mode::Generate);
    if let Some(p) = &t.panic {
        return Built::Fail(Failure { key: "c16-panic".into(), what: format!("translator panicked: {p}"), detail: json!({"qml": printed.text}) });
    }
    if !t.accepted() {
        return Built::Skip("generated document rejected (judged by C05)");
    }
    let (Some(ui), Some(header)) = (t.ui.as_deref(), t.header.clone()) else { return Built::Skip("no output") };
    let Ok(form) = form::decode(ui) else { return Built::Skip("ui not decodable (judged by C09)") };
    let names = obj_names(&world);
    let mut state = gen_world_state(ch, &world);
    let init = cxx_init(&world, &state);
    let expect = |state: &[ObjState]| -> Option<Vec<(String, String, String)>> {
        let mut out = vec![];
        for (host, prop, p) in &binds {
            let mut objs = state.to_vec();
            let mut it = Interp { objs: &mut objs, this: *host, locals: vec![], trace: vec![], reads: vec![], steps: 0 };
            let v = it.run(p, &[]).ok()?;
            out.push((names[*host].clone(), (*prop).to_owned(), cxx::enc_value(&v, &names)));
        }
        Some(out)
    };
    let Some(e0) = expect(&state) else { return Built::Skip("undefined in the initial state") };
    let mut steps = vec![Step { desc: "setup()".into(), cxx: "support.setup();".into(), tracing: false, expect: e0, expect_trace: vec![] }];
    for (prop, v) in [("b0", V::Bool(true)), ("b0", V::Bool(false)), ("s0", V::Str(String::new())), ("s0", V::Str("\u{10ffff}".into())), ("b0", V::Bool(true))] {
        state[0].props.insert(prop, v.clone());
        if let Some(e) = expect(&state) {
            steps.push(Step { desc: format!("a0.{prop} = {}", cxx::enc_value(&v, &names)), cxx: cxx_set(&world, 0, prop, &v), tracing: false, expect: e, expect_trace: vec![] });
        }
    }
    let classes: BTreeSet<&'static str> = lits.iter().flat_map(|(s, _)| s.chars()).map(|c| match c as u32 {
        0 => "literal-nul",
        1..=0x1f | 0x7f => "literal-control",
        0x22 | 0x5c => "literal-quote-or-backslash",
        0x3f => "literal-question-mark",
        0x80..=0xffff => "literal-bmp-non-ascii",
        0x10000.. => "literal-astral",
        _ => "literal-ascii",
    }).collect();
    for c in &classes {
        ch.label(c);
    }
    let nontrivial = classes.iter().any(|c| *c != "literal-ascii").then(|| stable_hash(&printed.text));
    let unit = DocUnit { name: name.to_owned(), header, form, init, steps };
    Built::Case(Box::new(CxxCase {
        qml: printed.text.clone(),
        nontrivial,
        labels: ch.labels.clone(),
        counters: vec![("string_literals", lits.len() as u64)],
        sample: json!({"qml": printed.text}),
        unit,
    }))
}

fn key_of(c: &CxxCase, kind: &str, msg: &str) -> String {
    if kind == "compile-error" {
        return compile_key(msg, &String::from_utf8_lossy(&c.unit.header));
    }
    format!("c16-literal-{kind}")
}

/// Known finding F2c: a bitwise operator on a plain (non-flag) enum types its result as the enum.
fn probe_plain_enum_bitwise(known: &Known, rr: &mut RunResult) {
    // (second known finding probed here: a constant sub-expression folding to inf / NaN is printed as `inf` / `NaN`)
    for (prop, expr) in [("te", "a0.e0 | VSrc.ModeB"), ("te", "a0.e0 & a0.e0"), ("te", "VSrc.ModeA ^ a0.e0"), ("te", "~a0.e0"), ("td", "a0.b0 ? 1.0 / 0.0 : a0.d0"), ("td", "Math.min(2.5 % 0.0, a0.d0)")] {
        let qml = format!("import qmluic.QtWidgets\nQWidget {{\n    VSrc {{ id: a0 }}\n    VDst {{\n        id: t0\n        {prop}: {expr}\n    }}\n}}\n");
        let t = translate(&qml, "P0", Mode::Generate);
        rr.stats.evaluations += 1;
        if !t.accepted() {
            continue; // rejected: nothing invalid is generated
        }
        let (Some(ui), Some(header)) = (t.ui.as_deref(), t.header.clone()) else { continue };
        let Ok(form) = form::decode(ui) else { continue };
        let d = Doc { qml: qml.clone(), name: "P0".into(), header, form, nontrivial: None, labels: BTreeSet::new(), functions: 0 };
        if let Some(err) = compile_group(&[&d], "g++", "C16p").into_iter().next().flatten() {
            let key = compile_key(&err, &String::from_utf8_lossy(&d.header));
            if known.matches(PID, &key).is_some() {
                known.announce(PID, &key);
                *rr.stats.known_hits.entry(key).or_default() += 1;
            } else {
                rr.violations.push(Violation { failure: Failure { key, what: err, detail: json!({"qml": qml}) }, choices: None, part: "probe".into() });
            }
        }
    }
}

pub fn replay(v: &Value) -> Outcome {
    if v["qml"].is_string() && v["steps"].is_array() {
        return match unit_from_json(v) {
            Ok((u, qml)) => match run_single(&u, "C16r") {
                None => Outcome::pass(None),
                Some((kind, msg)) => Outcome::fail(format!("c16-literal-{kind}"), msg.clone(), json!({"qml": qml, "why": msg, "header": String::from_utf8_lossy(&u.header)})),
            },
            Err(_) => Outcome::pass(None),
        };
    }
    if let Some(qml) = v["qml"].as_str().or_else(|| v["detail"]["qml"].as_str()) {
        let name = v["type_name"].as_str().or_else(|| v["detail"]["type_name"].as_str()).unwrap_or("R0");
        let t = translate(qml, name, Mode::Generate);
        if !t.accepted() {
            return Outcome::pass(None);
        }
        let (Some(ui), Some(header)) = (t.ui.as_deref(), t.header.clone()) else { return Outcome::pass(None) };
        let Ok(form) = form::decode(ui) else { return Outcome::pass(None) };
        let text = String::from_utf8_lossy(&header).into_owned();
        if let Err((aspect, why)) = check_tokens(&text) {
            return Outcome::fail(format!("c16-{aspect}"), why.clone(), json!({"qml": qml, "why": why, "header": text}));
        }
        let d = Doc { qml: qml.to_owned(), name: name.to_owned(), header, form, nontrivial: None, labels: BTreeSet::new(), functions: 0 };
        return match compile_group(&[&d], "g++", "C16r").into_iter().next().flatten() {
            None => Outcome::pass(None),
            Some(err) => Outcome::fail(compile_key(&err, &text), err.clone(), json!({"qml": qml, "error": err, "header": text})),
        };
    }
    Outcome::skip("replay file without qml")
}

pub fn run(env: &Env, known: &Known, started: Instant, replayed: u64, replay_violations: Vec<Violation>) -> i32 {
    let mut rr = run_compile(env, known);
    let cfg = Campaign { env, pid: PID, part: "literals", cases: env.tier.pick(160, 5000), max_len: 1500, per_tu: 8, known, shrink_steps: 16 };
    let lit = campaign(&cfg, build_literals, &key_of);
    rr.stats.merge(lit.stats);
    rr.violations.extend(lit.violations);
    probe_plain_enum_bitwise(known, &mut rr);
    let ev = Evidence {
        env, pid: PID, level: "exploration",
        rule: "four document families are translated and every emitted support header is checked: (1) language documents mixing 0-13 generated bindings and 0-3 handlers (every operator x operand type the typing rules admit, builtins, casts, every literal kind, statement bodies), (2) documents with 33-72 bindings (guard array of more than one word, bindings with several observers), (3) widget-catalogue documents over the real Qt classes of the metatypes (dynamic bindings and handlers on real properties and signals, gadget sub-bindings font.* / sizePolicy.*, objects and properties whose capitalised names concatenate to the same word), (4) documents in which object ids and property / signal names collide by concatenation (d.xTi and dX.ti, s.onXFired and sX.onFired). Oracle A: the header is a complete translation unit - `g++ -std=c++17 -fsyntax-only` (thorough: also clang++) accepts it together with a ui_*.h derived from the emitted .ui and an API model emitted from the same type information (classes, enums, flags, properties with their accessors, signals, slots, invokables; Qt 6.2 operator set for QFlags; <algorithm>, <cmath> and <QtDebug> facilities are only available through the includes the header itself names); the class is instantiated and setup() called so that every member function is compiled. Oracle B, token level: member function names pairwise distinct, every this->f() defined, BindingIndex enumerators distinct and one per update function, each update function uses its own index, bindingGuard_ has >= ceil(n/32) words, every observedX_[m] has m > largest observed[i] used in evalX, <algorithm>/<QtDebug>/<cmath> included whenever used. Oracle C (string literals denote the source strings): bindings built from generated strings over the whole code-point range (NUL, controls, quotes, backslashes, `?`, BMP, astral) spelled with every ECMAScript escape form, as ternary arms, concatenations, qsTr arguments, list elements and Math.max operands, are compiled, executed and compared by UTF-16 unit with the reference interpreter. Non-trivial = header with >= 8 member functions using >= 4 operator/builtin kinds, or literal document with a non-ASCII / control / quote character; distinct by document text.",
        assumptions: vec![
            "the API model declares exactly the members the type information (metatypes + qmluic's own tweaks) lists; free functions and operators follow Qt 6.2 (a superset of 5.15 for the constructs used)".into(),
        ],
        extra: json!({"compilers": if env.tier == Tier::Thorough { "g++ 12, clang++ 14" } else { "g++ 12" }}),
    };
    finish(&ev, rr.stats, rr.violations, replayed, replay_violations, started)
}
