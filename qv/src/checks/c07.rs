//! C07 — totality: any document yields output or diagnostics, never a crash or hang
//! (DESIGN.md section 3, C07).

use super::finish;
use crate::common::*;
use crate::doc::*;
use crate::translate::{self, translate_opts, Mode, Opts};
use crate::xml;
use rayon::prelude::*;
use serde_json::{json, Value};
use std::path::Path;
use std::time::Instant;

const PID: &str = "C07";
/// deeper syntax trees go to the stack-exhaustion probe only (known finding F12)
pub const MAX_TREE_DEPTH: usize = 64;

// ---------------------------------------------------------------------------------------------
// tokens and mutations

fn tokenize(s: &str) -> Vec<&str> {
    let b = s.as_bytes();
    let mut out = vec![];
    let mut i = 0;
    let is_id = |c: u8| c.is_ascii_alphanumeric() || c == b'_' || c == b'$' || c >= 0x80;
    while i < b.len() {
        let st = i;
        let c = b[i];
        if c.is_ascii_whitespace() {
            while i < b.len() && b[i].is_ascii_whitespace() {
                i += 1;
            }
        } else if c == b'/' && i + 1 < b.len() && b[i + 1] == b'/' {
            while i < b.len() && b[i] != b'\n' {
                i += 1;
            }
        } else if c == b'/' && i + 1 < b.len() && b[i + 1] == b'*' {
            i += 2;
            while i + 1 < b.len() && !(b[i] == b'*' && b[i + 1] == b'/') {
                i += 1;
            }
            i = (i + 2).min(b.len());
        } else if c == b'"' || c == b'\'' || c == b'`' {
            i += 1;
            while i < b.len() && b[i] != c && b[i] != b'\n' {
                if b[i] == b'\\' {
                    i += 1;
                }
                i += 1;
            }
            i = (i + 1).min(b.len());
        } else if is_id(c) {
            while i < b.len() && is_id(b[i]) {
                i += 1;
            }
        } else {
            i += 1;
            // glue common multi-character operators
            while i < b.len() && i - st < 3 && b"=&|<>+-*?!.".contains(&b[i]) && b"=&|<>+-*?!.".contains(&c) {
                i += 1;
            }
        }
        // stay on char boundaries
        while i < b.len() && !s.is_char_boundary(i) {
            i += 1;
        }
        out.push(&s[st..i]);
    }
    out
}

const KEYWORDS: &[&str] = &[
    "import", "property", "signal", "function", "readonly", "default", "required", "component", "enum", "id", "as", "if", "else", "switch", "case", "break", "return", "let", "const",
    "var", "for", "while", "do", "new", "typeof", "void", "delete", "in", "instanceof", "this", "null", "true", "false", "undefined", "pragma", "on", "alias", "async", "await", "yield", "class",
];
const TYPE_NAMES: &[&str] = &["QWidget", "QLabel", "Qt", "QLayout", "QTabWidget", "QString", "int", "void", "QAction", "QMenu", "QGridLayout", "QVariant", "VSrc", "Math", "console", "qsTr"];
const PUNCT: &[&str] = &["{", "}", "(", ")", "[", "]", ":", ";", ",", ".", "=", "==", "===", "!=", "<", ">", "<=", ">=", "+", "-", "*", "/", "%", "&&", "||", "!", "~", "?", "=>", "<<", ">>", ">>>", "**", "??", "?.", "...", "&", "|", "^", "++", "--", "+=", "@", "#", "\\", "`"];
const ODD: &[&str] = &["\u{feff}", "\r", "\r\n", "\0", "\u{1}", "😀", "\u{2028}", "\u{85}", "\u{200b}", "é", "\u{301}", "\"", "'", "/*", "*/", "//", "\"unterminated", "'unterminated", "/* unterminated", "0x", "1e", "1__0", "09", "0b2", "1.2.3", "\\u{110000}", "\"\\uD800\"", "\"\\x\""];

fn pick_token(ch: &mut Chooser) -> String {
    match ch.weighted(&[25, 20, 25, 10, 10, 10]) {
        0 => (*ch.pick(KEYWORDS)).to_owned(),
        1 => (*ch.pick(TYPE_NAMES)).to_owned(),
        2 => (*ch.pick(PUNCT)).to_owned(),
        3 => (*ch.pick(&["a", "b", "x1", "text", "onClicked", "value", "row", "foo_bar", "Q", "_"])).to_owned(),
        4 => (*ch.pick(&["0", "1", "42", "0x1f", "1.5", "1e3", ".5", "\"s\"", "'t'", "\"\"", "\"a\\nb\"", "9223372036854775808", "18446744073709551616", "1e999", "0b101", "0o17", "017"])).to_owned(),
        _ => (*ch.pick(ODD)).to_owned(),
    }
}

/// Mutates a well-formed text by 1-4 token-level edits.
pub fn mutate(ch: &mut Chooser, text: &str, other: &str) -> String {
    let mut toks: Vec<String> = tokenize(text).into_iter().map(|t| t.to_owned()).collect();
    let n_edits = 1 + ch.weighted(&[55, 25, 12, 8]);
    for _ in 0..n_edits {
        if toks.is_empty() {
            toks.push(pick_token(ch));
            continue;
        }
        let i = ch.below(toks.len());
        match ch.weighted(&[16, 10, 8, 12, 10, 10, 8, 8, 6, 6, 6]) {
            0 => {
                ch.label("mut-delete-token");
                toks.remove(i);
            }
            1 => {
                ch.label("mut-duplicate-token");
                let t = toks[i].clone();
                toks.insert(i, t);
            }
            2 => {
                ch.label("mut-swap-tokens");
                let j = ch.below(toks.len());
                toks.swap(i, j);
            }
            3 => {
                ch.label("mut-replace-token");
                toks[i] = pick_token(ch);
            }
            4 => {
                ch.label("mut-insert-token");
                toks.insert(i, pick_token(ch));
            }
            5 => {
                // delete or duplicate a balanced span
                let open = toks.iter().enumerate().filter(|(_, t)| matches!(t.as_str(), "{" | "(" | "[")).map(|(k, _)| k).collect::<Vec<_>>();
                if let Some(&st) = open.first().map(|_| ch.pick(&open)) {
                    let mut depth = 0i32;
                    let mut en = toks.len() - 1;
                    for k in st..toks.len() {
                        match toks[k].as_str() {
                            "{" | "(" | "[" => depth += 1,
                            "}" | ")" | "]" => {
                                depth -= 1;
                                if depth == 0 {
                                    en = k;
                                    break;
                                }
                            }
                            _ => {}
                        }
                    }
                    if ch.chance(1, 2) {
                        ch.label("mut-delete-balanced-span");
                        toks.drain(st..=en);
                    } else {
                        ch.label("mut-duplicate-balanced-span");
                        let span: Vec<String> = toks[st..=en].to_vec();
                        let at = ch.below(toks.len() + 1);
                        for (k, t) in span.into_iter().enumerate() {
                            toks.insert((at + k).min(toks.len()), t);
                        }
                    }
                }
            }
            6 => {
                ch.label("mut-truncate");
                toks.truncate(i);
                // possibly in the middle of a token
                if let Some(last) = toks.last_mut() {
                    if ch.chance(1, 2) && last.chars().count() > 1 {
                        let k = ch.below(last.chars().count());
                        *last = last.chars().take(k).collect();
                    }
                }
            }
            7 => {
                ch.label("mut-splice-documents");
                let o: Vec<String> = tokenize(other).into_iter().map(|t| t.to_owned()).collect();
                if !o.is_empty() {
                    let a = ch.below(o.len());
                    let b = a + ch.below(o.len() - a);
                    let at = i;
                    for (k, t) in o[a..=b.min(o.len() - 1)].iter().enumerate() {
                        toks.insert((at + k).min(toks.len()), t.clone());
                    }
                }
            }
            8 => {
                ch.label("mut-identifier-to-keyword");
                let ids: Vec<usize> = toks.iter().enumerate().filter(|(_, t)| t.starts_with(|c: char| c.is_ascii_alphabetic())).map(|(k, _)| k).collect();
                if !ids.is_empty() {
                    let k = *ch.pick(&ids);
                    toks[k] = (*ch.pick(&["this", "null", "id", "default", "function", "QWidget", "Qt", "import", "true", "on", "property"])).to_owned();
                }
            }
            9 => {
                ch.label("mut-long-identifier");
                toks[i] = "x".repeat(1 + ch.below(5000));
            }
            _ => {
                ch.label("mut-nest-deeper");
                // wrap a token in parentheses / blocks a few times (bounded by the depth filter)
                let k = 1 + ch.below(12);
                let (l, r) = *ch.pick(&[("(", ")"), ("[", "]"), ("{", "}"), ("QWidget {", "}"), ("-", ""), ("!", ""), ("a ? ", " : b")]);
                toks[i] = format!("{}{}{}", l.repeat(k), toks[i], r.repeat(k));
            }
        }
    }
    toks.concat()
}

fn soup(ch: &mut Chooser) -> String {
    let n = ch.below(60);
    let mut s = String::new();
    if ch.chance(2, 3) {
        s.push_str("import qmluic.QtWidgets\n");
    }
    if ch.chance(1, 2) {
        s.push_str("QWidget { ");
    }
    for _ in 0..n {
        s.push_str(&pick_token(ch));
        s.push_str(*ch.pick(&[" ", " ", "", "\n"]));
    }
    if ch.chance(1, 3) {
        s.push_str(" }");
    }
    s
}

// ---------------------------------------------------------------------------------------------
// oracle

/// depth of the syntax tree, measured iteratively
pub fn tree_depth(src: &str) -> usize {
    if !crate::translate::parse_terminates(src, crate::translate::PARSE_LIMIT_MS) {
        // no tree to measure; classify() reports the input as the parser-library livelock
        return 0;
    }
    let doc = qmluic::qmldoc::UiDocument::parse(src, "T", None);
    let mut cursor = doc.root_node().walk();
    let mut depth = 1usize;
    let mut max = 1usize;
    loop {
        if cursor.goto_first_child() {
            depth += 1;
            max = max.max(depth);
            continue;
        }
        loop {
            if cursor.goto_next_sibling() {
                break;
            }
            if !cursor.goto_parent() {
                return max;
            }
            depth -= 1;
        }
    }
}

pub struct Classified {
    pub failure: Option<Failure>,
    pub recovery_seen: bool,
    pub semantic_diag: bool,
}

pub fn classify(src: &str, mode: Mode) -> Classified {
    let t = translate_opts(src, "T", Opts { mode, build_despite_syntax_errors: true, render: true, lowercase: true });
    let detail = |why: &str| json!({"input": src, "mode": mode.name(), "why": why, "syntax_errors": t.syntax_errors, "diagnostics": t.diag_summary(), "panic": t.panic});
    let mk = |k: &str, why: String| Classified { failure: Some(Failure { key: format!("c07-{k}"), what: why.clone(), detail: detail(&why) }), recovery_seen: false, semantic_diag: false };
    if t.parse_hang {
        return mk("parser-library-livelock", format!("parsing does not terminate: the parser library (tree-sitter, called from UiDocument::parse without a limit) did not finish within {} ms on a {}-byte input", crate::translate::PARSE_LIMIT_MS, src.len()));
    }
    if let Some(p) = &t.panic {
        // key by panic location so that distinct crashes stay distinct
        let loc: String = p.split(": ").next().unwrap_or("").rsplit('/').next().unwrap_or("").replace(':', "-");
        return mk(&format!("panic-{loc}"), format!("panic in {} mode: {p}", mode.name()));
    }
    let n = src.len();
    let bad = |s: usize, e: usize| !(s <= e && e <= n && src.is_char_boundary(s) && src.is_char_boundary(e));
    for (s, e, _) in &t.syntax_errors {
        if bad(*s, *e) {
            return mk("syntax-error-range", format!("syntax error range {s}..{e} is outside the text or off a character boundary (length {n})"));
        }
    }
    for d in &t.diags {
        if bad(d.start, d.end) {
            return mk("diagnostic-range", format!("diagnostic range {}..{} of {:?} is outside the text or off a character boundary (length {n})", d.start, d.end, d.message));
        }
        for (s, e, _) in &d.labels {
            if bad(*s, *e) {
                return mk("label-range", format!("label range {s}..{e} of {:?} is outside the text or off a character boundary", d.message));
            }
        }
    }
    let has_output = t.ui.is_some();
    if !has_output && t.syntax_errors.is_empty() && !t.has_error() {
        return mk("neither-output-nor-diagnostic", "the document yields neither output nor a syntax error nor an error diagnostic".into());
    }
    if let Some(ui) = &t.ui {
        if let Err(e) = xml::parse(ui) {
            // characters XML cannot carry are a known finding of C09, not of C07
            if !e.contains("is not an XML Char") && !e.contains("character reference to non-Char") {
                return mk("output-not-serialisable", format!("the serialised form is not well-formed XML: {e}"));
            }
        }
    }
    Classified { failure: None, recovery_seen: !t.syntax_errors.is_empty() && t.build_called && t.built, semantic_diag: t.syntax_errors.is_empty() && !t.diags.is_empty() }
}

fn seed_text(ch: &mut Chooser) -> String {
    match ch.weighted(&[40, 25, 35]) {
        0 => {
            let case = super::c04::gen_accepted(ch);
            print_doc(DEFAULT_IMPORTS, &case.root, Style::default()).text
        }
        1 => match super::c04::gen_faulted(ch) {
            Some(c) => print_doc(DEFAULT_IMPORTS, &c.root, Style::default()).text,
            None => "import qmluic.QtWidgets\nQWidget {}\n".to_owned(),
        },
        _ => {
            let nb = 1 + ch.below(5);
            let nh = ch.below(3);
            let d = crate::langdoc::gen_lang_doc(ch, nb, nh, &crate::langgen::GenOpts::default());
            print_doc(DEFAULT_IMPORTS, &d.root, Style::default()).text
        }
    }
}

/// Renames one identifier of the document consistently to a name that starts with (or contains)
/// non-ASCII letters: object ids preferably. The document stays as well-formed as it was.
fn rename_non_ascii(ch: &mut Chooser, text: &str) -> String {
    let mut toks: Vec<String> = tokenize(text).into_iter().map(|t| t.to_owned()).collect();
    let is_ident = |t: &str| t.starts_with(|c: char| c.is_ascii_lowercase()) && t.chars().all(|c| c.is_ascii_alphanumeric() || c == '_');
    // identifiers that follow `id :`
    let mut ids: Vec<String> = vec![];
    let sig: Vec<usize> = toks.iter().enumerate().filter(|(_, t)| !t.trim().is_empty()).map(|(k, _)| k).collect();
    for w in sig.windows(3) {
        if toks[w[0]] == "id" && toks[w[1]] == ":" && is_ident(&toks[w[2]]) {
            ids.push(toks[w[2]].clone());
        }
    }
    let pool: Vec<String> = if !ids.is_empty() && ch.chance(4, 5) { ids } else { toks.iter().filter(|t| is_ident(t) && !matches!(t.as_str(), "import" | "id" | "function" | "let" | "const" | "return" | "if" | "else" | "switch" | "case" | "default" | "break" | "true" | "false" | "null" | "this" | "as" | "console" | "qsTr")).cloned().collect() };
    if pool.is_empty() {
        return text.to_owned();
    }
    let old = ch.pick(&pool).clone();
    let new = format!("{}{}", ch.pick(&["é", "été", "ß", "日本", "Ω", "ñ_", "éB", "\u{10400}", "ö1"]), if ch.chance(1, 2) { old.as_str() } else { "" });
    for t in toks.iter_mut() {
        if *t == old {
            *t = new.clone();
        }
    }
    toks.concat()
}

pub fn gen_input(ch: &mut Chooser) -> String {
    match ch.weighted(&[20, 60, 20]) {
        0 => {
            ch.label("family-well-formed");
            let t = seed_text(ch);
            if ch.chance(1, 5) {
                ch.label("non-ascii-identifier");
                rename_non_ascii(ch, &t)
            } else {
                t
            }
        }
        1 => {
            ch.label("family-mutated");
            let a = seed_text(ch);
            let a = if ch.chance(1, 8) { ch.label("non-ascii-identifier"); rename_non_ascii(ch, &a) } else { a };
            let b = if ch.chance(1, 4) { seed_text(ch) } else { String::new() };
            mutate(ch, &a, &b)
        }
        _ => {
            ch.label("family-token-soup");
            soup(ch)
        }
    }
}

pub fn run_case(ch: &mut Chooser) -> Outcome {
    let src = gen_input(ch);
    if tree_depth(&src) > MAX_TREE_DEPTH {
        return Outcome::skip("syntax tree deeper than 64 (goes to the stack-exhaustion probe)");
    }
    let mut recovery = false;
    let mut semantic = false;
    for mode in Mode::ALL {
        let c = classify(&src, mode);
        if let Some(f) = c.failure {
            return Outcome { verdict: Verdict::Fail(f), nontrivial: None, sample: None, counters: vec![] };
        }
        recovery |= c.recovery_seen;
        semantic |= c.semantic_diag;
    }
    if recovery { ch.label("semantic-passes-saw-recovery-nodes"); }
    if semantic { ch.label("well-formed-with-semantic-diagnostic"); }
    let nt = (recovery || semantic).then(|| stable_hash(&src));
    Outcome::pass(nt).count("translations", 3).with_sample((ch.want_sample && (recovery || semantic)).then(|| json!({"input": src.chars().take(600).collect::<String>()})))
}

/// Entry of the libFuzzer target (/verif/fuzz): the oracle of `run_case` on one input. A
/// violation that is not a listed known finding panics, which libFuzzer records as a crash.
pub fn fuzz_one(src: &str) {
    static KNOWN: std::sync::OnceLock<Known> = std::sync::OnceLock::new();
    let known = KNOWN.get_or_init(Known::load);
    if !translate::parse_terminates(src, translate::PARSE_LIMIT_MS) {
        return; // known finding c07-parser-library-livelock
    }
    if tree_depth(src) > MAX_TREE_DEPTH {
        return; // known finding c07-stack-exhaustion-deep-nesting (probed through the binary)
    }
    for mode in Mode::ALL {
        if let Some(f) = classify(src, mode).failure {
            if !known.is_listed_known(PID, &f.key) {
                panic!("C07 violation {}: {}", f.key, f.what);
            }
        }
    }
}

/// Thorough tier only: a coverage-guided libFuzzer campaign on the target /verif/fuzz `totality`
/// (oracle = `fuzz_one`), seeded with generated inputs. Artifacts are confirmed by replaying them
/// in a child process before they count.
pub fn run_fuzz_campaign(env: &Env, known: &Known, rr: &mut RunResult) {
    use std::process::Command;
    let tdir = Path::new(VERIF_DIR).join("target/fuzz");
    let built = Command::new("cargo")
        .args(["+nightly", "fuzz", "build", "--fuzz-dir", "/verif/fuzz", "--target-dir"])
        .arg(&tdir)
        .arg("totality")
        .env("CARGO_NET_OFFLINE", "true")
        .current_dir("/verif/fuzz")
        .output();
    let exe = tdir.join("x86_64-unknown-linux-gnu/release/totality");
    if !matches!(&built, Ok(o) if o.status.success()) || !exe.exists() {
        eprintln!("[qv] C07: the libFuzzer target could not be built; the campaign is skipped (not a verdict)");
        rr.stats.counters.insert("fuzz_campaign_skipped_build_failed".into(), 1);
        return;
    }
    let work = scratch_dir("c07fuzz");
    let corpus = work.path().join("corpus");
    let arts = work.path().join("artifacts");
    std::fs::create_dir_all(&corpus).unwrap();
    std::fs::create_dir_all(&arts).unwrap();
    let seqs = sample_choices(env, PID, "fuzz-corpus", 600, 2500);
    for (i, c) in seqs.iter().enumerate() {
        let src = gen_input(&mut Chooser::new(c));
        if src.len() <= 4096 {
            let _ = std::fs::write(corpus.join(format!("gen{i}.qml")), src);
        }
    }
    let runs: u64 = std::env::var("QV_FUZZ_RUNS").ok().and_then(|v| v.parse().ok()).unwrap_or(40_000);
    let jobs = 8;
    let out = Command::new(&exe)
        .arg(&corpus)
        .args([
            format!("-runs={runs}"),
            format!("-seed={}", env.seed + 1),
            "-max_len=2048".into(),
            "-len_control=0".into(),
            "-timeout=60".into(),
            "-rss_limit_mb=4000".into(),
            "-print_final_stats=1".into(),
            format!("-artifact_prefix={}/", arts.display()),
            format!("-jobs={jobs}"),
            format!("-workers={jobs}"),
        ])
        .current_dir(work.path())
        .output();
    let mut execs = 0u64;
    let mut cov = 0u64;
    for e in std::fs::read_dir(work.path()).into_iter().flatten().flatten() {
        let name = e.file_name().to_string_lossy().into_owned();
        if name.starts_with("fuzz-") && name.ends_with(".log") {
            let log = std::fs::read_to_string(e.path()).unwrap_or_default();
            for l in log.lines() {
                if let Some(v) = l.strip_prefix("stat::number_of_executed_units:") {
                    execs += v.trim().parse::<u64>().unwrap_or(0);
                }
                if let Some(p) = l.find(" cov: ") {
                    if let Some(v) = l[p + 6..].split(' ').next().and_then(|x| x.parse::<u64>().ok()) {
                        cov = cov.max(v);
                    }
                }
            }
        }
    }
    let _ = out;
    rr.stats.counters.insert("fuzz_executions".into(), execs);
    rr.stats.counters.insert("fuzz_edge_coverage".into(), cov);
    rr.stats.counters.insert("fuzz_corpus_files_at_end".into(), std::fs::read_dir(&corpus).map(|d| d.count() as u64).unwrap_or(0));
    rr.stats.evaluations += execs;
    // artifacts: confirm each by replay in a child process
    let mut n_art = 0u64;
    for e in std::fs::read_dir(&arts).into_iter().flatten().flatten() {
        n_art += 1;
        let bytes = std::fs::read(e.path()).unwrap_or_default();
        let Ok(text) = String::from_utf8(bytes) else { continue };
        let v = Violation { failure: Failure { key: "c07-fuzz-artifact".into(), what: format!("libFuzzer artifact {}", e.file_name().to_string_lossy()), detail: json!({"input": text}) }, choices: None, part: "fuzz".into() };
        let file = write_violation(PID, &v);
        // qv replay: 0 pass, 1 violation, 2 skipped; anything else = the process died
        let child = Command::new(std::env::current_exe().unwrap()).arg("replay").arg(&file).output();
        match child {
            Ok(o) if o.status.code() == Some(0) || o.status.code() == Some(2) => {
                let _ = std::fs::remove_file(&file);
            }
            Ok(o) => {
                let stderr = String::from_utf8_lossy(&o.stderr);
                let key = stderr.lines().next().and_then(|l| l.split(':').next()).filter(|k| k.starts_with("c07-")).unwrap_or("c07-fuzz-process-died").to_owned();
                if known.is_listed_known(PID, &key) {
                    known.announce(PID, &key);
                    *rr.stats.known_hits.entry(key).or_default() += 1;
                    let _ = std::fs::remove_file(&file);
                } else if rr.violations.len() < 6 {
                    rr.violations.push(Violation { failure: Failure { key, what: format!("input found by the libFuzzer campaign; replay ended with status {:?}: {}", o.status.code(), stderr.lines().next().unwrap_or("")), detail: json!({"input": text}) }, choices: None, part: "fuzz".into() });
                    let _ = std::fs::remove_file(&file);
                }
            }
            Err(_) => {}
        }
    }
    rr.stats.counters.insert("fuzz_artifacts".into(), n_art);
}

/// the real binary: exit status 0 or 1 only, no panic message
fn check_cli(src: &str) -> Result<(), Failure> {
    let dir = scratch_dir("c07");
    std::fs::write(dir.path().join("Doc.qml"), src).unwrap();
    let no_dyn = stable_hash(src) % 3 == 0;
    let mut args = vec!["Doc.qml".to_owned()];
    if no_dyn {
        args.insert(0, "--no-dynamic-binding".to_owned());
    }
    let r = translate::run_cli(dir.path(), &translate::foreign_types(), &args, 30);
    if r.timed_out {
        // confirm alone with a long limit before calling it a hang
        let r2 = translate::run_cli(dir.path(), &translate::foreign_types(), &args, 120);
        if r2.timed_out {
            return Err(Failure { key: "c07-cli-does-not-terminate".into(), what: "qmluic generate-ui did not finish within 120 s (normal: < 0.5 s)".into(), detail: json!({"input": src}) });
        }
        return Ok(());
    }
    let ok_status = matches!(r.status, Some(0) | Some(1));
    if !ok_status || r.stderr.contains("panicked at") {
        let deep = tree_depth(src) > MAX_TREE_DEPTH;
        let key = if deep && r.signal.is_some() { "c07-stack-exhaustion-deep-nesting" } else { "c07-cli-abnormal-exit" };
        return Err(Failure { key: key.into(), what: format!("qmluic generate-ui ended with status {:?} / signal {:?}", r.status, r.signal), detail: json!({"input": src, "stderr": r.stderr.chars().take(2000).collect::<String>(), "args": args}) });
    }
    Ok(())
}

pub fn replay(v: &Value) -> Outcome {
    if let Some(src) = v["input"].as_str().or_else(|| v["detail"]["input"].as_str()) {
        if tree_depth(src) > MAX_TREE_DEPTH {
            return match check_cli(src) {
                Ok(()) => Outcome::pass(None),
                Err(f) => Outcome { verdict: Verdict::Fail(f), nontrivial: None, sample: None, counters: vec![] },
            };
        }
        for mode in Mode::ALL {
            if let Some(f) = classify(src, mode).failure {
                return Outcome { verdict: Verdict::Fail(f), nontrivial: None, sample: None, counters: vec![] };
            }
        }
        return Outcome::pass(None);
    }
    match choices_from_json(v) {
        Some(c) => run_case(&mut Chooser::new(&c)),
        None => Outcome::skip("replay file without input"),
    }
}

pub fn run(env: &Env, known: &Known, started: Instant, replayed: u64, replay_violations: Vec<Violation>) -> i32 {
    verify_catalogue();
    let cfg = ChoiceRun { env, pid: PID, part: "inputs", cases: env.tier.pick(24_000, 1_500_000), max_len: 2500, known };
    let iso = crate::isolate::run_choices_isolated(&cfg);
    let mut rr = iso.result;
    if iso.inconclusive && rr.violations.is_empty() {
        eprintln!("[qv] C07: a worker died and the death could not be reproduced: inconclusive");
        return 2;
    }
    // the real binary on a sample, plus the deep-nesting probe (known finding F12)
    let n_cli = env.tier.pick(480, 6000);
    let seqs = sample_choices(env, PID, "cli", n_cli, 2500);
    let mut inputs: Vec<(String, Option<Vec<u32>>)> = seqs.into_iter().map(|c| (gen_input(&mut Chooser::new(&c)), Some(c))).filter(|(s, _)| tree_depth(s) <= MAX_TREE_DEPTH && translate::parse_terminates(s, translate::PARSE_LIMIT_MS)).collect();
    inputs.push((format!("import qmluic.QtWidgets\nQSpinBox {{ value: {} }}\n", vec!["1"; 5000].join("-")), None));
    inputs.push((format!("import qmluic.QtWidgets\n{}{}\n", "QWidget { ".repeat(5000), "}".repeat(5000)), None));
    let results: Vec<Result<(), Failure>> = inputs.par_iter().map(|(s, _)| check_cli(s)).collect();
    let mut cli_runs = 0u64;
    for (r, (s, c)) in results.into_iter().zip(&inputs) {
        cli_runs += 1;
        rr.stats.evaluations += 1;
        rr.stats.nontrivial.insert(stable_hash(s));
        if let Err(f) = r {
            if known.is_listed_known(PID, &f.key) {
                known.announce(PID, &f.key);
                *rr.stats.known_hits.entry(f.key.clone()).or_default() += 1;
            } else if rr.violations.len() < 6 {
                rr.violations.push(Violation { failure: f, choices: c.clone(), part: "cli".into() });
            }
        }
    }
    rr.stats.counters.insert("runs_of_the_real_binary".into(), cli_runs);
    translate::remove_foreign_types_file();
    if env.tier == Tier::Thorough {
        run_fuzz_campaign(env, known, &mut rr);
    }
    let ev = Evidence {
        env, pid: PID, level: "exploration",
        rule: "three input families, each translated in all three dynamic-binding modes through the preview path (semantic passes run even on trees with ERROR/MISSING nodes): (1) well-formed documents from every generator of this framework (object trees with the whole binding catalogue, planted faults, generated programs); (2) the same with 1-4 token-level mutations (delete/duplicate/swap/replace/insert a token, delete/duplicate a balanced span, truncate also inside a token, splice two documents, identifier -> keyword/this/null/type name, BOM/CR/NUL/astral/unterminated strings and comments, very long identifiers, nesting up to depth 64); (3) token soup from the QML/JS vocabulary. Oracle: no panic anywhere (parse, syntax-error collection, build, XML serialisation, header writing, rendering of every diagnostic with codespan); outcome is output or >= 1 syntax error or >= 1 error diagnostic; every diagnostic and label range satisfies start <= end <= len on char boundaries; serialised output is well-formed. The search runs in child processes (per-case watchdog 10 s, memory limit), so stack exhaustion, runaway allocation or a hang is a violation, not a dead harness. A sample and two deep-nesting probes go through the real binary: exit status 0 or 1, no panic text. Non-trivial = input with a syntax error on which the semantic passes ran, or well-formed input with a semantic diagnostic; distinct by text hash.",
        assumptions: vec![
            "inputs whose syntax tree is deeper than 64 are not run in-process (known finding: recursive walkers exhaust the stack); they are probed through the real binary".into(),
            "well-formedness failures caused only by characters XML 1.0 cannot carry belong to C09's known finding and are not counted here".into(),
        ],
        extra: json!({}),
    };
    finish(&ev, rr.stats, rr.violations, replayed, replay_violations, started)
}
