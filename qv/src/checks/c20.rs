//! C20 — preview-mode error recovery is local to the faulty object (DESIGN.md section 3, C20).

use super::finish;
use crate::common::*;
use crate::doc::*;
use crate::gen::*;
use crate::translate::{translate, Mode};
use crate::{form, xml};
use serde_json::{json, Value};
use std::collections::BTreeMap;
use std::time::Instant;

const PID: &str = "C20";

/// faults the statement lists: unknown or ill-typed binding, duplicate binding, unknown object
/// type, unknown attached type
const FAULTS: &[&str] = &[
    "unknown-property", "ill-typed-constant", "ill-typed-dynamic-operands", "duplicate-property", "duplicate-attached", "unknown-attached-type",
    "invalid-color", "unknown-object-type", "invalid-object-type", "unused-attached", "no-attached-class",
];

pub struct Case {
    pub root: Obj,
    pub fault: Fault,
}

pub fn gen_case(ch: &mut Chooser) -> Option<Case> {
    let cfg = TreeCfg { max_objects: 30, ..TreeCfg::default() };
    let mut root = gen_tree(ch, &cfg);
    // layouts matter: cell positions of successors depend on a sibling's attached properties
    add_grid_attachments(ch, &mut root);
    assign_plain_ids(ch, &mut root, 1, 4);
    let mut expects = vec![];
    decorate(ch, &mut root, 3, StrMode::Plain, true, &mut expects);
    let fault = plant_fault(ch, &mut root, FAULTS)?;
    Some(Case { root, fault })
}

/// explicit rows/columns/spans on some children of grid and form layouts
fn add_grid_attachments(ch: &mut Chooser, root: &mut Obj) {
    let paths: Vec<Vec<usize>> = root.flat().into_iter().map(|(p, _)| p).collect();
    for p in paths {
        if p.is_empty() {
            continue;
        }
        let parent = root.at(&p[..p.len() - 1]).class.clone();
        let o = root.at_mut(&p);
        if is_separator(o) {
            continue;
        }
        match parent.as_str() {
            "QGridLayout" | "QFormLayout" => {
                if ch.chance(1, 3) {
                    let max = if parent == "QFormLayout" { 2 } else { 5 };
                    match ch.below(3) {
                        0 => o.binds.push(Bind::new("QLayout.row", ch.below(6).to_string())),
                        1 => o.binds.push(Bind::new("QLayout.column", ch.below(max).to_string())),
                        _ => {
                            o.binds.push(Bind::new("QLayout.row", ch.below(6).to_string()));
                            o.binds.push(Bind::new("QLayout.column", ch.below(max).to_string()));
                        }
                    }
                    ch.label("explicit-cell");
                }
                if ch.chance(1, 6) {
                    o.binds.push(Bind::new("QLayout.columnSpan", (1 + ch.below(2)).to_string()));
                }
            }
            "QVBoxLayout" => {
                if ch.chance(1, 5) {
                    o.binds.push(Bind::new("QLayout.rowStretch", ch.below(4).to_string()));
                }
            }
            _ => {}
        }
    }
}

fn omit_form(qml: &str) -> (Option<Vec<u8>>, crate::translate::Translation) {
    let t = translate(qml, "T", Mode::Omit);
    (t.ui.clone(), t)
}

/// Renames generated names canonically (by position) so that renumbering does not matter.
fn canonical(bytes: &[u8], ids: &std::collections::BTreeSet<String>) -> Result<xml::Elem, String> {
    let mut root = xml::parse(bytes)?;
    let mut map: BTreeMap<String, String> = BTreeMap::new();
    fn collect(e: &xml::Elem, ids: &std::collections::BTreeSet<String>, map: &mut BTreeMap<String, String>) {
        if matches!(e.name.as_str(), "widget" | "layout" | "spacer" | "action") {
            if let Some(n) = e.attr("name") {
                if !ids.contains(n) && !map.contains_key(n) {
                    let k = map.len();
                    map.insert(n.to_owned(), format!("#{k}"));
                }
            }
        }
        for c in e.elems() {
            collect(c, ids, map);
        }
    }
    collect(&root, ids, &mut map);
    fn rename(e: &mut xml::Elem, map: &BTreeMap<String, String>) {
        if matches!(e.name.as_str(), "widget" | "layout" | "spacer" | "action" | "addaction") {
            for (k, v) in e.attrs.iter_mut() {
                if k == "name" {
                    if let Some(n) = map.get(v) {
                        *v = n.clone();
                    }
                }
            }
        }
        if e.name == "cstring" {
            for c in e.children.iter_mut() {
                if let xml::Node::Text(t) = c {
                    if let Some(n) = map.get(t) {
                        *t = n.clone();
                    }
                }
            }
        }
        for c in e.children.iter_mut() {
            if let xml::Node::Elem(x) = c {
                rename(x, map);
            }
        }
    }
    rename(&mut root, &map);
    Ok(root)
}

/// Removes what the statement allows to differ inside the faulty object: its own property and
/// attribute values, its model items and the attributes of the <item> that wraps it. Its place,
/// class, name and its child objects stay.
fn mask_object(form: &mut xml::Elem, model: &Obj, path: &[usize]) -> Result<(), String> {
    fn object_children(e: &mut xml::Elem) -> Vec<&mut xml::Elem> {
        let is_layout = e.name == "layout";
        e.children
            .iter_mut()
            .filter_map(|n| match n {
                xml::Node::Elem(c) => Some(c),
                _ => None,
            })
            .filter(|c| if is_layout { c.name == "item" } else { matches!(c.name.as_str(), "widget" | "layout" | "action") })
            .collect()
    }
    let mut cur: &mut xml::Elem = form
        .children
        .iter_mut()
        .find_map(|n| match n {
            xml::Node::Elem(c) if c.name == "widget" => Some(c),
            _ => None,
        })
        .ok_or("no root widget")?;
    let mut m = model;
    for (depth, i) in path.iter().enumerate() {
        let pos = m.children.iter().enumerate().filter(|(_, c)| !is_separator(c)).position(|(k, _)| k == *i).ok_or("faulty object is a separator")?;
        let mut kids = object_children(cur);
        if pos >= kids.len() {
            return Err(format!("object {:?} has no element", &path[..=depth]));
        }
        let k = kids.swap_remove(pos);
        cur = if k.name == "item" {
            if depth + 1 == path.len() {
                k.attrs.clear();
            }
            k.children
                .iter_mut()
                .find_map(|n| match n {
                    xml::Node::Elem(c) => Some(c),
                    _ => None,
                })
                .ok_or("empty <item>")?
        } else {
            k
        };
        m = &m.children[*i];
    }
    let in_widget = cur.name == "widget";
    cur.children.retain(|n| match n {
        xml::Node::Elem(c) => !(matches!(c.name.as_str(), "property" | "attribute") || (in_widget && c.name == "item")),
        xml::Node::Text(_) => false,
    });
    Ok(())
}

pub fn check_case(case: &Case, style: Style, want_sample: bool) -> (Outcome, bool) {
    let root = &case.root;
    let printed = print_doc(DEFAULT_IMPORTS, root, style);
    let (f_ui, t) = omit_form(&printed.text);
    let detail = |why: &str, extra: Value| json!({"qml": printed.text, "fault": format!("{:?}", case.fault), "why": why, "form_with_fault": t.ui_str(), "diagnostics": t.diag_summary(), "panic": t.panic, "compared_with": extra});
    let fail = |k: &str, why: String, extra: Value| (Outcome::fail(format!("c20-{k}-{}", case.fault.kind), why.clone(), detail(&why, extra)), false);
    if let Some(p) = &t.panic {
        return fail("panic", format!("translator panicked: {p}"), json!(null));
    }
    // (1) a form is still produced and the error is still reported, inside the fault
    let Some(f_ui) = f_ui else {
        return fail("no-form", "no form is produced in omit mode for a document with one semantic fault".into(), json!(null));
    };
    let span = match &case.fault.site {
        FaultSite::Bind { obj, bind } => printed.group_spans.get(&(obj.clone(), *bind)).or_else(|| printed.bind_spans.get(&(obj.clone(), *bind))).cloned().unwrap(),
        FaultSite::Object { path } => printed.obj_spans[path].clone(),
    };
    // a duplicate may be reported on either of the two bindings
    let mut spans = vec![span];
    if let FaultSite::Bind { obj, bind } = &case.fault.site {
        if case.fault.kind.starts_with("duplicate") && *bind > 0 {
            spans.push(printed.bind_spans[&(obj.clone(), bind - 1)].clone());
        }
    }
    if !t.errors().any(|d| spans.iter().any(|s| s.start <= d.start && d.end <= s.end)) {
        return fail("error-not-reported", format!("no error diagnostic inside the faulty text {:?}; diagnostics {:?}", spans, t.diag_summary()), json!(null));
    }
    // (2)/(3) the form equals the form of the document without (a subset of) the faulty object's
    // own bindings, resp. without the faulty object's subtree
    let ids: std::collections::BTreeSet<String> = root.flat().iter().filter_map(|(_, o)| o.id.clone()).collect();
    let mut candidates: Vec<(String, Obj)> = vec![];
    match &case.fault.site {
        FaultSite::Object { path } => {
            let mut r = root.clone();
            let (last, parent) = path.split_last().unwrap();
            r.at_mut(parent).children.remove(*last);
            candidates.push(("without the faulty object's subtree".into(), r));
        }
        FaultSite::Bind { obj, bind } => {
            let o = root.at(obj);
            let faulty = &o.binds[*bind];
            let is_attached = |b: &Bind| b.path.starts_with(|c: char| c.is_ascii_uppercase());
            let attached_type = |b: &Bind| b.path.split('.').next().unwrap().to_owned();
            let mut subsets: Vec<(String, Box<dyn Fn(usize, &Bind) -> bool>)> = vec![];
            let bind_i = *bind;
            subsets.push(("without the faulty binding".into(), Box::new(move |i, _| i == bind_i)));
            if case.fault.kind.starts_with("duplicate") {
                let p = faulty.path.clone();
                subsets.push(("without both duplicates".into(), Box::new(move |_, b| b.path == p)));
            }
            // the whole group the binding belongs to (e.g. palette.*), since a gadget is one value
            let seg = faulty.path.split('.').next().unwrap().to_owned();
            if faulty.path.contains('.') && !is_attached(faulty) {
                subsets.push((format!("without the group {seg}.*"), Box::new(move |_, b| b.path.split('.').next().unwrap() == seg)));
            }
            if is_attached(faulty) {
                let at = attached_type(faulty);
                subsets.push((format!("without all {at}.* bindings"), Box::new(move |_, b| b.path.starts_with(|c: char| c.is_ascii_uppercase()) && b.path.split('.').next().unwrap() == at)));
                subsets.push(("without all attached bindings".into(), Box::new(|_, b| b.path.starts_with(|c: char| c.is_ascii_uppercase()))));
            } else {
                subsets.push(("without all plain bindings".into(), Box::new(|_, b| !b.path.starts_with(|c: char| c.is_ascii_uppercase()))));
            }
            // (no "all of its bindings" candidate: a fault among the plain bindings leaves the attached ones,
            // i.e. the object's place in its layout, alone, and vice versa)
            for (name, pred) in subsets {
                let mut r = root.clone();
                let ob = r.at_mut(obj);
                let kept: Vec<Bind> = ob.binds.iter().enumerate().filter(|(i, b)| !pred(*i, b)).map(|(_, b)| b.clone()).collect();
                ob.binds = kept;
                candidates.push((name, r));
            }
        }
    }
    let mut f_canon = match canonical(&f_ui, &ids) {
        Ok(c) => c,
        Err(e) => return fail("form-not-xml", e, json!(null)),
    };
    let mask_path: Option<Vec<usize>> = match &case.fault.site {
        FaultSite::Bind { obj, .. } => Some(obj.clone()),
        FaultSite::Object { .. } => None,
    };
    if let Some(mp) = &mask_path {
        if let Err(e) = mask_object(&mut f_canon, root, mp) {
            return fail("faulty-object-missing", format!("the faulty object does not keep its place in the form: {e}"), json!(null));
        }
    }
    let mut tried = vec![];
    for (name, r) in &candidates {
        let p = print_doc(DEFAULT_IMPORTS, r, style);
        let (ui, tt) = omit_form(&p.text);
        let Some(ui) = ui else { continue };
        if ui == f_ui {
            // the repaired document should itself be free of errors: the fault was the only one
            let sample = want_sample.then(|| json!({"qml": printed.text, "fault": case.fault.kind, "form_equals_document": name}));
            let clean = !tt.has_error();
            return (Outcome::pass(None).with_sample(sample), clean);
        }
        // object faults: generated names of the remaining anonymous objects may be renumbered;
        // binding faults: identical outside the faulty object (its own values are masked)
        if let Ok(mut c) = canonical(&ui, &ids) {
            let ok = match &mask_path {
                Some(mp) => mask_object(&mut c, r, mp).is_ok() && c == f_canon,
                None => c == f_canon,
            };
            if ok {
                return (Outcome::pass(None), !tt.has_error());
            }
        }
        tried.push(json!({"variant": name, "form": String::from_utf8_lossy(&ui)}));
    }
    fail("not-local", format!("the omit-mode form equals none of the {} documents obtained by removing the fault (or more of the faulty object's own bindings)", candidates.len()), json!(tried))
}

fn run_case(ch: &mut Chooser) -> Outcome {
    let Some(case) = gen_case(ch) else {
        return Outcome::skip("fault kind had no host in this document");
    };
    let style = Style { group: ch.chance(1, 4), semicolons: false, comments: false, children_first: false };
    ch.label(case.fault.kind);
    let (mut out, _clean) = check_case(&case, style, ch.want_sample);
    if matches!(out.verdict, Verdict::Pass) {
        // non-trivial: fault on a non-root object with a sibling, and the document has a grid/form
        // layout or >= 2 anonymous objects of the faulted object's class
        let path = match &case.fault.site {
            FaultSite::Bind { obj, .. } => obj.clone(),
            FaultSite::Object { path } => path.clone(),
        };
        let has_sibling = !path.is_empty() && case.root.at(&path[..path.len() - 1]).children.len() >= 2;
        let has_grid = case.root.flat().iter().any(|(_, o)| matches!(o.class.as_str(), "QGridLayout" | "QFormLayout") && o.children.len() >= 2);
        let cls = case.root.at(&path).class.clone();
        let anon_same = case.root.flat().iter().filter(|(_, o)| o.id.is_none() && o.class == cls).count() >= 2;
        if has_sibling && (has_grid || anon_same) {
            out.nontrivial = Some(stable_hash(&(&case.root, case.fault.kind)));
        }
    }
    out
}

pub fn replay(v: &Value) -> Outcome {
    match choices_from_json(v) {
        Some(c) => run_case(&mut Chooser::new(&c)),
        None => Outcome::skip("replay file without choices"),
    }
}

pub fn run(env: &Env, known: &Known, started: Instant, replayed: u64, replay_violations: Vec<Violation>) -> i32 {
    verify_catalogue();
    let cfg = ChoiceRun { env, pid: PID, part: "faults", cases: env.tier.pick(60_000, 500_000), max_len: 900, known };
    let rr = run_choices(&cfg, run_case);
    let ev = Evidence {
        env, pid: PID, level: "exploration",
        rule: "accepted documents of 1-30 objects (layouts with explicit cells, spans and stretches included) with one planted fault from {unknown property, ill-typed constant, dynamic expression with ill-typed operands, invalid colour inside a palette group, duplicate property binding, duplicate attached binding, unknown attached type, attached binding nobody consumes, attached type without attached class, unknown object type, non-class object type} at a random object; metamorphic oracle in omit mode: a form exists, an error lies inside the faulty text, and the form is, outside the faulty object (whose own property/attribute values, model items and <item> attributes are masked; place, class, name and child objects are not), equal to the omit-mode form of the document with the faulty binding (or a larger subset of the faulty object's OWN bindings: its group or all its plain bindings for a fault among the plain bindings; its attached type or all its attached bindings for a fault among the attached ones) removed, resp. with exactly the faulty object's subtree removed (up to renumbering of generated names). Non-trivial = fault on a non-root object with a sibling, in a document with a grid/form layout or >=2 anonymous objects of that class; distinct by (tree, fault kind) hash.",
        assumptions: vec!["'loses at most its own property values' is made exact as: equals the form of the same document with some subset of that object's own bindings deleted".into(),
            "a second `id:` line is not planted (an id is not a property binding; the statement does not list it)".into()],
        extra: json!({}),
    };
    finish(&ev, rr.stats, rr.violations, replayed, replay_violations, started)
}
