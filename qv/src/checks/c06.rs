//! C06 — generated function bodies have sound control flow and define before use
//! (DESIGN.md section 3, C06).

use super::finish;
use crate::cfg;
use crate::common::*;
use crate::doc::*;
use crate::hdr;
use crate::langdoc::*;
use crate::langgen::*;
use crate::translate::{translate, Mode};
use serde_json::{json, Value};
use std::time::Instant;

const PID: &str = "C06";

/// Verifies every eval…/on… body of a header. Returns (bodies, nontrivial skeleton hashes).
pub fn verify_header(header: &str) -> Result<(usize, Vec<u64>), (String, String)> {
    let h = hdr::scan(header).map_err(|e| ("unscannable".to_owned(), e))?;
    let mut n = 0;
    let mut nt = vec![];
    for f in &h.funcs {
        let is_eval = f.name.starts_with("eval") && f.name[4..].starts_with(|c: char| c.is_ascii_uppercase());
        let is_on = f.name.starts_with("on") && f.name[2..].starts_with(|c: char| c.is_ascii_uppercase());
        if !(is_eval || is_on) {
            continue;
        }
        // gadget-map eval functions take the gadget as parameter `a` and have no labels
        if is_eval && !f.body.iter().any(|l| l.trim() == "b0:") {
            continue;
        }
        let body = cfg::parse(f).map_err(|e| ("unparsable-body".to_owned(), e))?;
        let (reachable, joins) = cfg::verify(&f.name, &body)?;
        n += 1;
        if reachable >= 3 && joins >= 1 {
            let skeleton: Vec<String> = body.blocks.iter().map(|b| format!("{}:{:?}", b.label, std::mem::discriminant(&b.term))).collect();
            nt.push(stable_hash(&(skeleton, body.blocks.iter().map(|b| b.stmts.len()).collect::<Vec<_>>())));
        }
    }
    Ok((n, nt))
}

fn run_case(ch: &mut Chooser) -> Outcome {
    let nb = ch.below(8);
    let nh = 1 + ch.below(4);
    let opts = GenOpts { loose_tail: true, max_stmt_depth: 3, ..GenOpts::default() };
    let doc = gen_lang_doc(ch, nb, nh, &opts);
    let printed = print_doc(DEFAULT_IMPORTS, &doc.root, Style::default());
    let t = translate(&printed.text, "T", Mode::Generate);
    let detail = |why: &str| json!({"qml": printed.text, "why": why, "header": t.header_str(), "diagnostics": t.diag_summary(), "panic": t.panic});
    if let Some(p) = &t.panic {
        return Outcome::fail("c06-panic", format!("translator panicked: {p}"), detail(p));
    }
    if !t.accepted() {
        return Outcome::skip("generated program rejected (judged by C05)");
    }
    match verify_header(t.header_str().unwrap_or("")) {
        Ok((n, nt)) => {
            let mut o = Outcome::pass(nt.first().copied()).count("bodies", n as u64).count("nontrivial_bodies", nt.len() as u64);
            // count every distinct non-trivial body, not only the first
            o.counters.push(("distinct_hint", nt.len() as u64));
            o.with_sample(ch.want_sample.then(|| json!({"qml": printed.text, "bodies_verified": n})))
        }
        Err((aspect, why)) => Outcome::fail(format!("c06-{aspect}"), why.clone(), detail(&why)),
    }
}

pub fn replay(v: &Value) -> Outcome {
    if let Some(q) = v["qml"].as_str() {
        let t = translate(q, "T", Mode::Generate);
        if !t.accepted() {
            return Outcome::pass(None);
        }
        return match verify_header(t.header_str().unwrap_or("")) {
            Ok(_) => Outcome::pass(None),
            Err((aspect, why)) => Outcome::fail(format!("c06-{aspect}"), why.clone(), json!({"qml": q, "header": t.header_str(), "why": why})),
        };
    }
    match choices_from_json(v) {
        Some(c) => run_case(&mut Chooser::new(&c)),
        None => Outcome::skip("replay file without choices"),
    }
}

pub fn run(env: &Env, known: &Known, started: Instant, replayed: u64, replay_violations: Vec<Violation>) -> i32 {
    let cfg = ChoiceRun { env, pid: PID, part: "bodies", cases: env.tier.pick(50_000, 400_000), max_len: 3000, known };
    let rr = run_choices(&cfg, run_case);
    let ev = Evidence {
        env, pid: PID, level: "exploration",
        rule: "documents with 0-7 generated binding bodies and 1-4 handler bodies from the control-flow-heavy end of the language generator (arbitrary nestings of ternary, &&, ||, if/else incl. else-if chains and non-block arms, switch with 0-4 cases, default first/middle/last/absent, fall-through, break anywhere incl. under a nested if, nested switches, early return, empty statements, shadowing blocks, declarations assigned later in both branches, statements after a switch); every eval…/on… body of the emitted header is parsed into a CFG and verified: jumps name existing labels; entry is b0; every label reachable from b0 ends in goto / two-way branch / return, never in Q_UNREACHABLE() or the closing brace; value-returning bodies return a value on every reachable return; forward must-be-assigned dataflow proves every local (all temporaries) assigned on all paths before each read. Non-trivial = body with >= 3 reachable blocks and a join point; distinct by label/terminator skeleton.",
        assumptions: vec!["the header is a one-to-one print of the IR (one label per block, one statement per line), which the scanner re-checks by refusing any line it does not recognise".into()],
        extra: json!({}),
    };
    finish(&ev, rr.stats, rr.violations, replayed, replay_violations, started)
}
