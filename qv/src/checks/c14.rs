//! C14 — the dynamic-binding mode changes only the support code and its diagnostics
//! (DESIGN.md section 3, C14).

use super::finish;
use crate::common::*;
use crate::doc::*;
use crate::gen::*;
use crate::hdr;
use crate::translate::{translate, Mode, Translation};
use serde_json::{json, Value};
use std::collections::BTreeMap;
use std::time::Instant;

const PID: &str = "C14";

pub struct Case {
    pub root: Obj,
    pub dyns: Vec<Dyn>,
    pub fault: Option<Fault>,
}

pub fn gen_case(ch: &mut Chooser) -> Case {
    let cfg = TreeCfg { max_objects: 25, ..TreeCfg::default() };
    let mut root = gen_tree(ch, &cfg);
    plant_sources(ch, &mut root, 1, 2);
    assign_plain_ids(ch, &mut root, 1, 3);
    let mut expects = vec![];
    decorate(ch, &mut root, 3, StrMode::Plain, true, &mut expects);
    let mut dyns = vec![];
    // a third of the documents stay purely static
    if ch.chance(2, 3) {
        add_dynamic(ch, &mut root, 1, 3, &mut dyns);
    } else if ch.chance(1, 2) {
        // the only dynamic code of the document is one member of a grouped (gadget) value, next to
        // constant members or alone: reject mode must refuse it like any other dynamic binding
        // (seeded change C14d: such properties skipped by the reject-mode scan)
        let srcs = sources_in(&root);
        let paths: Vec<Vec<usize>> = root.flat().into_iter()
            .filter(|(_, o)| kind_of(&o.class) == Kind::Widget && !o.binds.iter().any(|b| b.path == "font" || b.path.starts_with("font.") || b.path == "sizePolicy" || b.path.starts_with("sizePolicy.")))
            .map(|(p, _)| p).collect();
        if !srcs.is_empty() && !paths.is_empty() {
            let p = ch.pick(&paths).clone();
            let font = ch.chance(2, 3);
            let (member, ty) = if font { *ch.pick(&[("font.pointSize", "int"), ("font.bold", "bool"), ("font.italic", "bool")]) } else { *ch.pick(&[("sizePolicy.horizontalStretch", "int"), ("sizePolicy.verticalStretch", "int")]) };
            if let Some(e) = gen_dyn_expr(ch, &srcs, ty) {
                let o = root.at_mut(&p);
                if ch.chance(2, 3) {
                    if font {
                        o.binds.push(Bind::new(if member == "font.bold" { "font.italic" } else { "font.bold" }, "true"));
                    } else {
                        o.binds.push(Bind::new("sizePolicy.horizontalPolicy", "QSizePolicy.Expanding"));
                        o.binds.push(Bind::new("sizePolicy.verticalPolicy", "QSizePolicy.Fixed"));
                    }
                }
                o.binds.push(Bind::new(member, e));
                ch.label("lone-dynamic-gadget-member");
            }
        }
    }
    let mut fault = None;
    if ch.chance(1, 3) {
        let kinds: Vec<&'static str> = BINDING_FAULTS.iter().chain(OBJECT_FAULTS).copied().collect();
        fault = plant_fault(ch, &mut root, &kinds);
        // sometimes a second, independent error
        if fault.is_some() && ch.chance(1, 4) {
            let _ = plant_fault(ch, &mut root, &["unknown-property", "ill-typed-constant", "unknown-signal"]);
        }
    }
    Case { root, dyns, fault }
}

fn multiset(t: &Translation) -> BTreeMap<(usize, usize, String), usize> {
    let mut m = BTreeMap::new();
    for d in t.errors() {
        *m.entry((d.start, d.end, d.message.clone())).or_default() += 1;
    }
    m
}

pub fn check_text(qml: &str, want_sample: bool) -> (Outcome, bool, bool) {
    let g = translate(qml, "T", Mode::Generate);
    let r = translate(qml, "T", Mode::Reject);
    let o = translate(qml, "T", Mode::Omit);
    let detail = |why: &str| json!({"qml": qml, "why": why,
        "generate": {"accepted": g.accepted(), "diagnostics": g.diag_summary(), "ui": g.ui_str(), "panic": g.panic},
        "reject": {"accepted": r.accepted(), "diagnostics": r.diag_summary(), "ui": r.ui_str(), "panic": r.panic},
        "omit": {"accepted": o.accepted(), "diagnostics": o.diag_summary(), "ui": o.ui_str(), "panic": o.panic}});
    let fail = |k: &str, why: String| (Outcome::fail(format!("c14-{k}"), why.clone(), detail(&why)), false, false);
    for (t, m) in [(&g, "generate"), (&r, "reject"), (&o, "omit")] {
        if let Some(p) = &t.panic {
            return fail("panic", format!("translator panicked in {m} mode: {p}"));
        }
    }
    // (1) the .ui is identical whenever it is produced: by the command for accepted documents
    // (generate, reject), by the previewer whenever a form is built (omit)
    let mut produced: Vec<(&str, &[u8])> = vec![];
    if g.accepted() {
        produced.push(("generate", g.ui.as_deref().unwrap()));
    }
    if r.accepted() {
        produced.push(("reject", r.ui.as_deref().unwrap()));
    }
    if o.built {
        produced.push(("omit", o.ui.as_deref().unwrap()));
    }
    for w in produced.windows(2) {
        if w[0].1 != w[1].1 {
            return fail("ui-differs", format!(".ui differs between {} and {} mode", w[0].0, w[1].0));
        }
    }
    // (2) accepted in reject mode <=> accepted in generate mode with an empty support header
    let mut empty_header = false;
    if g.accepted() {
        let Some(h) = g.header_str() else {
            return fail("no-header-in-generate", "accepted in generate mode without a support header".into());
        };
        match hdr::scan(h) {
            Ok(hs) => {
                let callbacks = hs.funcs.iter().filter(|f| f.name.starts_with("on") && f.name[2..].starts_with(|c: char| c.is_ascii_uppercase())).count();
                empty_header = hs.binding_indices.is_empty() && callbacks == 0;
            }
            Err(e) => return fail("header-unscannable", e),
        }
    }
    let want_r = g.accepted() && empty_header;
    if r.accepted() != want_r {
        return fail(if r.accepted() { "reject-mode-accepts" } else { "reject-mode-rejects" },
            format!("reject mode accepted = {}, but generate mode accepted = {} with {} support header", r.accepted(), g.accepted(), if empty_header { "an empty" } else { "a non-empty" }));
    }
    // (3) every error of omit mode is also reported in generate mode
    let (mo, mg) = (multiset(&o), multiset(&g));
    for (k, n) in &mo {
        if mg.get(k).copied().unwrap_or(0) < *n {
            return fail("omit-error-not-in-generate", format!("omit mode reports {:?} x{n}, generate mode reports it x{}", k, mg.get(k).copied().unwrap_or(0)));
        }
    }
    // (4) a header only in generate mode
    if r.header.is_some() || o.header.is_some() {
        return fail("header-outside-generate", "a support header was produced outside generate mode".into());
    }
    let has_dyn = g.accepted() && !empty_header;
    let has_err = g.has_error();
    let out = Outcome::pass(None).with_sample(want_sample.then(|| json!({"qml": qml, "accepted": [g.accepted(), r.accepted(), o.accepted()], "errors_generate": g.errors().count(), "errors_omit": o.errors().count()})));
    (out, has_dyn, has_err)
}

fn run_case(ch: &mut Chooser) -> Outcome {
    let case = gen_case(ch);
    let style = Style { group: ch.chance(1, 3), semicolons: ch.chance(1, 6), comments: false, children_first: false };
    let printed = print_doc(DEFAULT_IMPORTS, &case.root, style);
    let (mut out, has_dyn, has_err) = check_text(&printed.text, ch.want_sample);
    if has_dyn { ch.label("accepted-with-dynamic-code"); }
    if has_err { ch.label("rejected-in-generate-mode"); }
    if !has_dyn && !has_err { ch.label("accepted-static"); }
    if let Some(f) = &case.fault { ch.label(f.kind); }
    if matches!(out.verdict, Verdict::Pass) && (has_dyn || has_err) {
        out.nontrivial = Some(stable_hash(&printed.text));
    }
    out
}

pub fn replay(v: &Value) -> Outcome {
    if let Some(q) = v["qml"].as_str().or_else(|| v["detail"]["qml"].as_str()) {
        return check_text(q, false).0;
    }
    match choices_from_json(v) {
        Some(c) => run_case(&mut Chooser::new(&c)),
        None => Outcome::skip("replay file without choices"),
    }
}

pub fn run(env: &Env, known: &Known, started: Instant, replayed: u64, replay_violations: Vec<Violation>) -> i32 {
    verify_catalogue();
    let cfg = ChoiceRun { env, pid: PID, part: "documents", cases: env.tier.pick(60_000, 600_000), max_len: 900, known };
    let rr = run_choices(&cfg, run_case);
    let ev = Evidence {
        env, pid: PID, level: "exploration",
        rule: "documents of 1-25 objects with constant bindings from the whole catalogue, dynamic bindings and signal handlers on a third of the eligible objects (a third of the documents purely static), and in a third of the cases one or two planted faults (16 kinds); each text is translated in generate, reject and omit mode and the four clauses of the statement are compared across the three results (.ui bytes, accepted(reject) <=> accepted(generate) with empty header, errors(omit) subset of errors(generate) as multisets of (range, message), header only in generate). Non-trivial = document with dynamic code or with an error; distinct by text hash.",
        assumptions: vec!["'produced' is read as: accepted for generate/reject (what the command writes), built for omit (what the previewer shows)".into()],
        extra: json!({}),
    };
    finish(&ev, rr.stats, rr.violations, replayed, replay_violations, started)
}
