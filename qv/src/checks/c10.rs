//! C10 — object names are unique and every reference resolves, across both outputs
//! (DESIGN.md section 3, C10).

use super::c11::compare_tree;
use super::finish;
use crate::common::*;
use crate::doc::*;
use crate::form::{self, FKind, FValue};
use crate::gen::*;
use crate::hdr;
use crate::meta::meta;
use crate::translate::{translate, Mode};
use serde_json::{json, Value};
use std::collections::{BTreeMap, BTreeSet};
use std::time::Instant;

const PID: &str = "C10";

const LOOKALIKE_WIDGETS: &[&str] = &["Label1", "QLabel1", "KLabel", "Label", "Widget2", "Q3D", "QLabel", "QLabel", "QWidget"];
const WORDS: &[&str] = &["ok", "edit", "main", "x", "root", "ui", "separator", "this", "action", "layout", "widget", "label"];

fn lcfirst(s: &str) -> String {
    let mut c = s.chars();
    match c.next() {
        Some(f) => format!("{}{}", f.to_ascii_lowercase(), c.as_str()),
        None => String::new(),
    }
}

/// names that look like what a name generator could hand out for these classes
fn name_space(classes: &BTreeSet<String>) -> Vec<String> {
    let mut out = BTreeSet::new();
    for c in classes {
        let mut stems = vec![lcfirst(c), c.to_ascii_lowercase()];
        if c.len() > 1 && (c.starts_with('Q') || c.starts_with('K')) {
            stems.push(lcfirst(&c[1..]));
            stems.push(c[1..].to_ascii_lowercase());
            // all leading capitals lowered: QVBoxLayout -> vboxLayout
            let t = &c[1..];
            let n = t.chars().take_while(|ch| ch.is_ascii_uppercase()).count();
            if n >= 2 {
                stems.push(format!("{}{}", t[..n].to_ascii_lowercase(), &t[n..]));
            }
        }
        for s in stems {
            // a stem that already ends in a digit also yields the stem without it
            let trimmed = s.trim_end_matches(|ch: char| ch.is_ascii_digit()).to_owned();
            for base in [s.clone(), trimmed] {
                if base.is_empty() || !base.starts_with(|ch: char| ch.is_ascii_lowercase()) {
                    continue;
                }
                out.insert(base.clone());
                for k in [1, 2, 3, 4, 10, 11] {
                    out.insert(format!("{base}{k}"));
                }
            }
        }
    }
    out.into_iter().filter(|n| !matches!(n.as_str(), "this" | "default" | "new" | "id")).collect()
}

pub struct Case {
    pub root: Obj,
    pub explicit: BTreeMap<Vec<usize>, Vec<Vec<usize>>>,
    /// (object path, referenced object path) for buddy bindings
    pub buddies: Vec<(Vec<usize>, Vec<usize>)>,
    /// (object path with the binding, source object path or None for `this`)
    pub dyn_refs: Vec<(Vec<usize>, Option<Vec<usize>>)>,
    pub duplicate: Option<(Vec<usize>, Vec<usize>)>,
    /// (object path, index of the binding): a reference to an object of an incompatible class (must be rejected)
    pub incompatible: Option<(Vec<usize>, usize)>,
}

fn gen_case(ch: &mut Chooser) -> Case {
    let cfg = TreeCfg { max_objects: 40, ..TreeCfg::default() };
    let mut root = gen_tree(ch, &cfg);
    // look-alike classes on leaf widgets
    let paths: Vec<Vec<usize>> = root.flat().into_iter().map(|(p, _)| p).collect();
    for p in &paths {
        let o = root.at_mut(p);
        if LEAF_WIDGETS.contains(&o.class.as_str()) && ch.chance(1, 2) {
            o.class = (*ch.pick(LOOKALIKE_WIDGETS)).to_owned();
        } else if o.class == "QAction" && !is_separator(o) && ch.chance(1, 5) {
            o.class = "QAction1".to_owned();
        }
    }
    // several anonymous objects per class: duplicate a leaf a few times under a layout/widget
    let classes: BTreeSet<String> = root.flat().iter().map(|(_, o)| o.class.clone()).collect();
    let space = name_space(&classes);
    let mut used = BTreeSet::new();
    for p in &paths {
        if ch.chance(1, 2) {
            let id = match ch.weighted(&[75, 25]) {
                0 if !space.is_empty() => ch.pick(&space).clone(),
                _ => {
                    let w = *ch.pick(WORDS);
                    if ch.chance(1, 2) { format!("{w}{}", ch.below(4)) } else { w.to_owned() }
                }
            };
            if matches!(id.as_str(), "this" | "separator0") {
                continue;
            }
            if used.insert(id.clone()) {
                root.at_mut(p).id = Some(id);
            }
        }
    }
    let mut case = Case { root, explicit: BTreeMap::new(), buddies: vec![], dyn_refs: vec![], duplicate: None, incompatible: None };
    let flat: Vec<(Vec<usize>, String, Option<String>)> = case.root.flat().into_iter().map(|(p, o)| (p, o.class.clone(), o.id.clone())).collect();
    let widgets_with_id: Vec<&(Vec<usize>, String, Option<String>)> = flat.iter().filter(|(_, c, id)| kind_of(c) == Kind::Widget && id.is_some()).collect();
    // buddy references and dynamic bindings
    for (p, c, _) in &flat {
        if kind_of(c) != Kind::Widget {
            continue;
        }
        if meta().derives(c, "QLabel") && !widgets_with_id.is_empty() && ch.chance(1, 3) {
            let t = *ch.pick(&widgets_with_id);
            case.root.at_mut(p).binds.push(Bind::new("buddy", t.2.clone().unwrap()));
            case.buddies.push((p.clone(), t.0.clone()));
            ch.label("buddy-reference");
        }
        if ch.chance(1, 4) {
            if !widgets_with_id.is_empty() && ch.chance(2, 3) {
                let t = *ch.pick(&widgets_with_id);
                case.root.at_mut(p).binds.push(Bind::new("windowTitle", format!("{}.windowTitle", t.2.clone().unwrap())));
                case.dyn_refs.push((p.clone(), Some(t.0.clone())));
                ch.label("dynamic-reference-by-id");
            } else {
                case.root.at_mut(p).binds.push(Bind::new("toolTip", if ch.chance(1, 2) { "windowTitle" } else { "this.windowTitle" }));
                case.dyn_refs.push((p.clone(), None));
                ch.label("dynamic-reference-this");
            }
        }
    }
    // explicit actions list
    // (array literals need one element type: QAction1 is left out, menuAction() is a QAction*)
    let actionlike: Vec<&(Vec<usize>, String, Option<String>)> = flat.iter().filter(|(p, c, id)| (c == "QAction" || is_menu(c)) && id.is_some() && !p.is_empty()).collect();
    if !actionlike.is_empty() && ch.chance(1, 3) {
        let widgets: Vec<&(Vec<usize>, String, Option<String>)> = flat.iter().filter(|(_, c, _)| kind_of(c) == Kind::Widget).collect();
        let w = (*ch.pick(&widgets)).0.clone();
        let n = 1 + ch.below(4);
        let mut list = vec![];
        let mut texts = vec![];
        for _ in 0..n {
            let a = *ch.pick(&actionlike);
            texts.push(if is_menu(&a.1) { format!("{}.menuAction()", a.2.clone().unwrap()) } else { a.2.clone().unwrap() });
            list.push(a.0.clone());
        }
        case.root.at_mut(&w).binds.push(Bind::new("actions", format!("[{}]", texts.join(", "))));
        case.explicit.insert(w, list);
        ch.label("explicit-actions-list");
    }
    // incompatible reference variant: the buddy of a label names an action, a layout or a spacer
    // (declared objects, but not widgets), or an explicit actions list names a plain widget
    if ch.chance(1, 10) {
        let non_widgets: Vec<&(Vec<usize>, String, Option<String>)> = flat.iter().filter(|(p, c, id)| id.is_some() && !p.is_empty() && matches!(kind_of(c), Kind::Action | Kind::Layout)).collect();
        let labels: Vec<&(Vec<usize>, String, Option<String>)> = flat.iter().filter(|(p, c, _)| meta().derives(c, "QLabel") && !case.root.at(p).binds.iter().any(|b| b.path == "buddy")).collect();
        if !non_widgets.is_empty() && !labels.is_empty() {
            let l = (*ch.pick(&labels)).0.clone();
            let t = (*ch.pick(&non_widgets)).2.clone().unwrap();
            let o = case.root.at_mut(&l);
            o.binds.push(Bind::new("buddy", t));
            case.incompatible = Some((l, o.binds.len() - 1));
            ch.label("incompatible-buddy-reference");
            return case;
        }
    }
    // duplicated id variant
    if ch.chance(1, 10) {
        let with_id: Vec<&(Vec<usize>, String, Option<String>)> = flat.iter().filter(|(_, _, id)| id.is_some()).collect();
        if !with_id.is_empty() && flat.len() >= 2 {
            let a = (*ch.pick(&with_id)).clone();
            let b = ch.pick(&flat).clone();
            if a.0 != b.0 && b.2.is_none() {
                case.root.at_mut(&b.0).id = a.2.clone();
                // which one comes second in the text (pre-order)?
                let (first, second) = if a.0 < b.0 { (a.0.clone(), b.0.clone()) } else { (b.0.clone(), a.0.clone()) };
                case.duplicate = Some((first, second));
                ch.label("duplicated-id");
            }
        }
    }
    case
}

fn stem_ok(name: &str, class: &str) -> bool {
    // "derived from their class": the lower-cased name starts with the lower-cased class name,
    // with or without its leading Q/K
    let n = name.to_ascii_lowercase();
    let c = class.to_ascii_lowercase();
    n.starts_with(&c) || (c.len() > 1 && (c.starts_with('q') || c.starts_with('k')) && n.starts_with(&c[1..]))
}

fn run_case(ch: &mut Chooser) -> Outcome {
    let case = gen_case(ch);
    let style = Style { group: false, semicolons: ch.chance(1, 6), comments: false, children_first: ch.chance(1, 8) };
    let printed = print_doc(DEFAULT_IMPORTS, &case.root, style);
    let t = translate(&printed.text, "T", Mode::Generate);
    let detail = |why: &str| json!({"qml": printed.text, "why": why, "ui": t.ui_str(), "header": t.header_str(), "diagnostics": t.diag_summary(), "panic": t.panic});
    let fail = |k: &str, why: String| Outcome::fail(format!("c10-{k}"), why.clone(), detail(&why));
    if let Some(p) = &t.panic {
        return fail("panic", format!("translator panicked: {p}"));
    }
    if let Some((obj, bind)) = &case.incompatible {
        if t.accepted() {
            return fail("incompatible-reference-accepted", format!("`{}` names an object that is not a widget, yet the document is accepted", case.root.at(obj).binds[*bind].value));
        }
        let span = &printed.bind_spans[&(obj.clone(), *bind)];
        if !t.errors().any(|d| span.start <= d.start && d.end <= span.end) {
            return fail("incompatible-reference-diagnostic", format!("no error inside the reference binding (span {:?}); diagnostics {:?}", span, t.diag_summary()));
        }
        return Outcome::pass(Some(stable_hash(&case.root)));
    }
    if let Some((_first, second)) = &case.duplicate {
        if t.accepted() {
            return fail("duplicate-id-accepted", "document with a duplicated id was accepted".into());
        }
        // the statement only says "rejected"; the error must at least sit on one of the two ids
        let spans = [&printed.id_spans[_first], &printed.id_spans[second]];
        if !t.errors().any(|d| spans.iter().any(|span| span.start <= d.start && d.end <= span.end)) {
            return fail("duplicate-id-diagnostic", format!("no error on either occurrence of the id (spans {:?}); diagnostics {:?}", spans, t.diag_summary()));
        }
        return Outcome::pass(Some(stable_hash(&case.root)));
    }
    if !t.accepted() {
        return fail("rejects-valid", format!("valid document rejected: {:?}", t.diag_summary()));
    }
    let f = match form::decode(t.ui.as_deref().unwrap_or_default()) {
        Ok(f) => f,
        Err(e) => return fail("undecodable", e),
    };
    // (1) pairwise distinct names
    let all = f.root.all();
    let mut seen: BTreeMap<&str, usize> = BTreeMap::new();
    for o in &all {
        *seen.entry(o.name.as_str()).or_default() += 1;
    }
    if let Some((n, k)) = seen.iter().find(|(_, k)| **k > 1) {
        return fail("duplicate-name", format!("name {n:?} is carried by {k} objects"));
    }
    // (2) ids verbatim, structure (also gives path -> name)
    let names = match compare_tree(&case.root, &f, &case.explicit) {
        Ok(n) => n,
        Err((a, why)) => return fail(&format!("tree-{a}"), why),
    };
    // (3) generated names avoid ids and derive from the class
    let ids: BTreeSet<&str> = case.root.flat().iter().filter_map(|(_, o)| o.id.as_deref()).collect();
    for (p, o) in case.root.flat() {
        if o.id.is_none() && !is_separator(o) {
            let n = &names[&p];
            if ids.contains(n.as_str()) {
                return fail("generated-name-equals-id", format!("anonymous {} at {:?} got the name {n:?}, which is a user id", o.class, p));
            }
            if n.is_empty() || !stem_ok(n, &o.class) {
                return fail("generated-name-stem", format!("anonymous {} at {:?} got the name {n:?}", o.class, p));
            }
        }
    }
    // (4) references in the .ui
    let root_name = f.root.name.clone();
    for (lp, tp) in &case.buddies {
        let lo = f.root.find(&names[lp]).unwrap();
        match lo.prop("buddy").map(|p| &p.value) {
            Some(FValue::Cstring(s)) if *s == names[tp] => {}
            other => return fail("buddy", format!("buddy of {:?} is {:?}, expected cstring {:?}", names[lp], other, names[tp])),
        }
    }
    for o in &all {
        for a in &o.addactions {
            if a == "separator" {
                continue;
            }
            let targets: Vec<&&form::FObj> = all.iter().filter(|x| x.name == *a).collect();
            if targets.len() != 1 || !(targets[0].kind == FKind::Action || targets[0].class.as_deref().map(is_menu).unwrap_or(false)) {
                return fail("addaction-unresolved", format!("addaction {a:?} under {:?} resolves to {} objects of kind {:?}", o.name, targets.len(), targets.first().map(|t| &t.kind)));
            }
        }
    }
    // (5) references in the header
    let header = t.header_str().unwrap_or("");
    let declared: BTreeSet<&str> = all.iter().map(|o| o.name.as_str()).collect();
    for r in hdr::ui_refs(header) {
        if !declared.contains(r.as_str()) {
            return fail("header-dangling-ref", format!("header uses ui_->{r}, which no declared object carries"));
        }
        if r == root_name {
            return fail("header-root-via-ui", format!("header reaches the root object as ui_->{r} (uic exposes no such member)"));
        }
    }
    let access = |p: &Vec<usize>| if p.is_empty() { "this->root_".to_owned() } else { format!("this->ui_->{}", names[p]) };
    for (op, sp) in &case.dyn_refs {
        let (setter, getter_obj) = match sp {
            Some(s) => ("setWindowTitle", access(s)),
            None => ("setToolTip", access(op)),
        };
        let want_set = format!("{}->{}(", access(op), setter);
        let want_get = format!("{}->windowTitle()", getter_obj);
        if !header.contains(&want_set) {
            return fail("header-wrong-target", format!("header lacks `{want_set}` for the dynamic binding on {:?}", op));
        }
        if !header.contains(&want_get) {
            return fail("header-wrong-source", format!("header lacks `{want_get}` for the dynamic binding on {:?}", op));
        }
        let want_conn = format!("QObject::connect({},", getter_obj);
        if !header.contains(&want_conn) {
            return fail("header-wrong-sender", format!("header lacks `{want_conn}` for the dynamic binding on {:?}", op));
        }
    }
    // (6) function names unique
    match hdr::scan(header) {
        Ok(h) => {
            let mut fs = BTreeSet::new();
            for fu in &h.funcs {
                if !fs.insert(fu.name.clone()) {
                    return fail("header-duplicate-function", format!("function {} defined twice", fu.name));
                }
            }
            let mut bi = BTreeSet::new();
            for b in &h.binding_indices {
                if !bi.insert(b.clone()) {
                    return fail("header-duplicate-binding-index", format!("BindingIndex::{b} declared twice"));
                }
            }
        }
        Err(e) => return fail("header-unscannable", e),
    }
    // non-trivial: >= 2 anonymous objects share a class and >= 1 id lies in the generated-name space
    let mut anon: BTreeMap<&str, usize> = BTreeMap::new();
    for (_, o) in case.root.flat() {
        if o.id.is_none() {
            *anon.entry(o.class.as_str()).or_default() += 1;
        }
    }
    let classes: BTreeSet<String> = case.root.flat().iter().map(|(_, o)| o.class.clone()).collect();
    let space: BTreeSet<String> = name_space(&classes).into_iter().collect();
    let adversarial = ids.iter().any(|i| space.contains(*i));
    let nt = (anon.values().any(|k| *k >= 2) && adversarial).then(|| stable_hash(&case.root));
    if adversarial {
        ch.label("id-in-generated-name-space");
    }
    Outcome::pass(nt).with_sample(ch.want_sample.then(|| json!({"qml": printed.text, "names": names.values().collect::<Vec<_>>()})))
}

/// Model-free part of the oracle, for replay files that carry only QML text.
fn check_text(qml: &str) -> Outcome {
    let t = translate(qml, "T", Mode::Generate);
    let detail = json!({"qml": qml, "ui": t.ui_str(), "header": t.header_str(), "diagnostics": t.diag_summary(), "panic": t.panic});
    if let Some(p) = &t.panic {
        return Outcome::fail("c10-panic", format!("translator panicked: {p}"), detail);
    }
    if !t.accepted() {
        return Outcome::pass(None);
    }
    let f = match form::decode(t.ui.as_deref().unwrap_or_default()) {
        Ok(f) => f,
        Err(e) => return Outcome::fail("c10-undecodable", e, detail),
    };
    let all = f.root.all();
    let mut seen: BTreeMap<&str, usize> = BTreeMap::new();
    for o in &all {
        *seen.entry(o.name.as_str()).or_default() += 1;
    }
    if let Some((n, k)) = seen.iter().find(|(_, k)| **k > 1) {
        return Outcome::fail("c10-duplicate-name", format!("name {n:?} is carried by {k} objects"), detail);
    }
    let header = t.header_str().unwrap_or("");
    for r in hdr::ui_refs(header) {
        if !seen.contains_key(r.as_str()) || r == f.root.name {
            return Outcome::fail("c10-header-dangling-ref", format!("header uses ui_->{r}"), detail);
        }
    }
    if let Ok(h) = hdr::scan(header) {
        let mut fs = BTreeSet::new();
        for fu in &h.funcs {
            if !fs.insert(fu.name.clone()) {
                return Outcome::fail("c10-header-duplicate-function", format!("function {} defined twice", fu.name), detail);
            }
        }
    }
    Outcome::pass(None)
}

pub fn replay(v: &Value) -> Outcome {
    if let Some(q) = v["qml"].as_str() {
        return check_text(q);
    }
    match choices_from_json(v) {
        Some(c) => run_case(&mut Chooser::new(&c)),
        None => Outcome::skip("replay file without choices"),
    }
}

pub fn run(env: &Env, known: &Known, started: Instant, replayed: u64, replay_violations: Vec<Violation>) -> i32 {
    verify_catalogue();
    let cfg = ChoiceRun { env, pid: PID, part: "names", cases: env.tier.pick(160_000, 1_200_000), max_len: 600, known };
    let rr = run_choices(&cfg, run_case);
    let ev = Evidence {
        env, pid: PID, level: "exploration",
        rule: "object trees of 1-40 objects; half of the objects get an id drawn from the generated-name space of the classes present (stem, stem1, stem2, ... for several stemming rules) or from unrelated words; leaf classes are swapped for look-alikes (Label1, QLabel1, KLabel, Label, Widget2, Q3D, QAction1); buddy references, explicit actions lists, dynamic bindings that read another object by id or `this` on anonymous objects; a duplicated-id variant; a variant in which a label's buddy names an action or layout (must be rejected inside the binding). Oracle: validity predicate over the decoded .ui (names pairwise distinct; id = name; generated names avoid ids and start with the class stem; addaction/buddy resolve to exactly one object of the right kind) and over the header (every ui_-> token names a declared non-root object; setter/getter/connect of each dynamic binding use exactly the model's objects; function and BindingIndex names unique); duplicate id => rejected with an error on the second id. Non-trivial = >=2 anonymous objects share a class and >=1 id lies in the generated-name space; distinct by tree hash.",
        assumptions: vec!["'derived from their class' is read loosely: lower-cased name starts with the lower-cased class name with or without its leading Q/K".into()],
        extra: json!({}),
    };
    finish(&ev, rr.stats, rr.violations, replayed, replay_violations, started)
}
