//! C05 — static typing discipline: ill-typed programs are rejected, valid ones accepted
//! (DESIGN.md section 3, C05).

use super::finish;
use crate::common::*;
use crate::doc::*;
use crate::langdoc::*;
use crate::langgen::*;
use crate::translate::{translate, Mode};
use serde_json::{json, Value};
use std::time::Instant;

const PID: &str = "C05";

/// Direction 1: well-typed programs of the documented subset are accepted without diagnostics.
fn run_accept(ch: &mut Chooser) -> Outcome {
    let nb = 1 + ch.below(12);
    let nh = ch.below(4);
    let opts = GenOpts::default();
    let doc = gen_lang_doc(ch, nb, nh, &opts);
    let printed = print_doc(DEFAULT_IMPORTS, &doc.root, Style::default());
    let t = translate(&printed.text, "T", Mode::Generate);
    let detail = |why: &str| json!({"qml": printed.text, "why": why, "diagnostics": t.diag_summary(), "syntax_errors": t.syntax_errors, "panic": t.panic});
    if let Some(p) = &t.panic {
        return Outcome::fail("c05-panic", format!("translator panicked: {p}"), detail(p));
    }
    if !t.syntax_errors.is_empty() {
        return Outcome::fail("c05-valid-program-syntax-error", format!("well-formed program reported as syntax error: {:?}", t.syntax_errors), detail("syntax"));
    }
    if !t.diags.is_empty() {
        // name the diagnostic class so that distinct causes get distinct keys
        let m = &t.diags[0].message;
        let mut class: String = m.split(|c: char| c == ':' || c == '(').next().unwrap_or("").trim().replace(' ', "-").chars().filter(|c| c.is_ascii_alphanumeric() || *c == '-').take(40).collect();
        if let Some(kind) = m.strip_prefix("unexpected node kind: ") {
            class = format!("unexpected-node-kind-{kind}");
        }
        // which binding is blamed?
        let culprit = printed.bind_spans.iter().find(|(_, r)| r.start <= t.diags[0].start && t.diags[0].end <= r.end).map(|(_, r)| printed.text[r.clone()].to_owned());
        return Outcome::fail(format!("c05-rejects-valid-{class}"), format!("well-typed program is diagnosed: {:?}", t.diag_summary()), json!({"qml": printed.text, "diagnostics": t.diag_summary(), "blamed_binding": culprit}));
    }
    let nodes = printed.text.len();
    Outcome::pass((nb + nh >= 3).then(|| stable_hash(&printed.text)))
        .count("bindings", doc.bindings.len() as u64)
        .count("handlers", doc.handlers.len() as u64)
        .count("source_bytes", nodes as u64)
        .with_sample(ch.want_sample.then(|| json!({"qml": printed.text})))
}

pub fn replay(v: &Value) -> Outcome {
    match choices_from_json(v) {
        Some(c) => run_accept(&mut Chooser::new(&c)),
        None => Outcome::skip("replay file without choices"),
    }
}

pub fn run(env: &Env, known: &Known, started: Instant, replayed: u64, replay_violations: Vec<Violation>) -> i32 {
    let cfg = ChoiceRun { env, pid: PID, part: "well-typed", cases: env.tier.pick(12_000, 400_000), max_len: 3000, known };
    let rr = run_choices(&cfg, run_accept);
    let ev = Evidence {
        env, pid: PID, level: "exploration",
        rule: "well-typed programs must be accepted without diagnostics".into(),
        assumptions: vec![],
        extra: json!({}),
    };
    finish(&ev, rr.stats, rr.violations, replayed, replay_violations, started)
}
