//! C05 — static typing discipline: ill-typed programs are rejected, valid ones accepted
//! (DESIGN.md section 3, C05).

use super::finish;
use crate::common::*;
use crate::doc::*;
use crate::langdoc::*;
use crate::langgen::*;
use crate::translate::{translate, Mode};
use serde_json::{json, Value};
use std::time::Instant;

const PID: &str = "C05";

/// Direction 1: well-typed programs of the documented subset are accepted without diagnostics.
fn run_accept(ch: &mut Chooser) -> Outcome {
    run_accept_with(ch, false)
}

/// Probe: the same with the `<` operator allowed (known finding in the parser dependency).
fn run_accept_lt_probe(ch: &mut Chooser) -> Outcome {
    run_accept_with(ch, true)
}

fn run_accept_with(ch: &mut Chooser, less_than: bool) -> Outcome {
    let nb = 1 + ch.below(12);
    let nh = ch.below(4);
    let mut opts = GenOpts::default();
    opts.allow.less_than = less_than;
    let doc = gen_lang_doc(ch, nb, nh, &opts);
    let printed = print_doc(DEFAULT_IMPORTS, &doc.root, Style::default());
    let t = translate(&printed.text, "T", Mode::Generate);
    let detail = |why: &str| json!({"qml": printed.text, "why": why, "diagnostics": t.diag_summary(), "syntax_errors": t.syntax_errors, "panic": t.panic});
    if let Some(p) = &t.panic {
        return Outcome::fail("c05-panic", format!("translator panicked: {p}"), detail(p));
    }
    if less_than {
        let type_args = !t.syntax_errors.is_empty() || t.diags.iter().any(|d| d.message.starts_with("unexpected node kind: type_arguments") || d.message.starts_with("unexpected node kind: instantiation_expression") || d.message.starts_with("unexpected node kind: generic_type"));
        if type_args && printed.text.contains(" < ") {
            return Outcome::fail("c05-lt-taken-for-type-arguments", "a well-typed program using the `<` operator is reported as syntax error / unexpected node kind (type arguments)".to_owned(), detail("lt"));
        }
    }
    if !t.syntax_errors.is_empty() {
        return Outcome::fail("c05-valid-program-syntax-error", format!("well-formed program reported as syntax error: {:?}", t.syntax_errors), detail("syntax"));
    }
    if !t.diags.is_empty() {
        // name the diagnostic class so that distinct causes get distinct keys
        let m = &t.diags[0].message;
        let mut class: String = m.split(|c: char| c == ':' || c == '(').next().unwrap_or("").trim().replace(' ', "-").chars().filter(|c| c.is_ascii_alphanumeric() || *c == '-').take(40).collect();
        if let Some(kind) = m.strip_prefix("unexpected node kind: ") {
            class = format!("unexpected-node-kind-{kind}");
        }
        // which binding is blamed?
        let culprit = printed.bind_spans.iter().find(|(_, r)| r.start <= t.diags[0].start && t.diags[0].end <= r.end).map(|(_, r)| printed.text[r.clone()].to_owned());
        return Outcome::fail(format!("c05-rejects-valid-{class}"), format!("well-typed program is diagnosed: {:?}", t.diag_summary()), json!({"qml": printed.text, "diagnostics": t.diag_summary(), "blamed_binding": culprit}));
    }
    let nodes = printed.text.len();
    Outcome::pass((nb + nh >= 3).then(|| stable_hash(&printed.text)))
        .count("bindings", doc.bindings.len() as u64)
        .count("handlers", doc.handlers.len() as u64)
        .count("source_bytes", nodes as u64)
        .with_sample(ch.want_sample.then(|| json!({"qml": printed.text})))
}

/// Direction 2: a well-typed program with exactly one type-breaking edit is rejected.
fn run_reject(ch: &mut Chooser) -> Outcome {
    use crate::checks::c03::{ceval, G, K};
    use crate::doc::Bind;
    use crate::lang::*;
    use crate::langedit::*;
    let constant = ch.chance(1, 4);
    let handler = ch.chance(1, 3);
    ch.label(if constant { "ctx:constant" } else { "ctx:dynamic" });
    ch.label(if handler { "site:handler" } else { "site:binding" });
    let opts = GenOpts::default();
    // the document: other bindings stay valid
    let nbq = if handler { ch.below(2) } else { 1 + ch.below(3) };
    let nhq = if handler { 1 + ch.below(2) } else { ch.below(2) };
    let mut doc = gen_lang_doc(ch, nbq, nhq, &opts);
    if constant {
        // replace the program of the chosen site by a constant one
        if handler {
            let Some(h) = doc.handlers.first_mut() else { return Outcome::skip("no handler generated") };
            let (k, m, t) = ch.pick(&[(K::Int, "take", T::Int), (K::Str, "takeS", T::Str), (K::Bool, "takeB", T::Bool), (K::Double, "takeD", T::Double)]).clone();
            let mut g = G { ch, undefined: false };
            let d = 1 + g.ch.below(3);
            let e = g.expr(k, d);
            if ceval(&e).is_err() {
                return Outcome::skip("constant draw undefined");
            }
            let _ = t;
            let gi = doc.world.objs.iter().position(|o| o.class == "VSig").unwrap();
            h.program = Program { ty: T::Void, body: Body::Block(vec![S::Expr(E::CallMethod(Box::new(E::Obj(gi)), m, vec![e], T::Void))]), locals: vec![], params: 0 };
        } else {
            let Some(b) = doc.bindings.first_mut() else { return Outcome::skip("no binding generated") };
            let k = match DST_PROPS.iter().find(|(n, _)| *n == b.prop).map(|(_, t)| t) {
                Some(T::Int) => K::Int,
                Some(T::Double) => K::Double,
                Some(T::Str) => K::Str,
                Some(T::Bool) => K::Bool,
                _ => return Outcome::skip("target type has no constant expressions"),
            };
            let mut g = G { ch, undefined: false };
            let d = 1 + g.ch.below(3);
            let e = g.expr(k, d);
            match ceval(&e) {
                Ok(crate::checks::c03::CV::Int(v)) if v < i32::MIN as i64 || v > i32::MAX as i64 => return Outcome::skip("constant outside int"),
                Err(_) => return Outcome::skip("constant draw undefined"),
                _ => {}
            }
            b.program = Program { ty: b.program.ty.clone(), body: Body::Expr(e), locals: vec![], params: 0 };
        }
    }
    // pick the site
    let objs = doc.world.objs.clone();
    let (host, bind, mut program, is_handler) = if handler {
        let Some(h) = doc.handlers.first() else { return Outcome::skip("no handler generated") };
        (h.host, h.bind, h.program.clone(), true)
    } else {
        let Some(b) = doc.bindings.first() else { return Outcome::skip("no binding generated") };
        (b.host, b.bind, b.program.clone(), false)
    };
    let nodes = {
        let mut n = 0usize;
        visit(&mut program.clone(), &objs, &mut |_, _, _, _| { n += 1; false });
        n
    };
    // the edit
    let mech = ch.weighted(&[60, 25, 15]);
    let mut depth = 0usize;
    let mut replaced_text: Option<String> = None;
    let kind: String = match mech {
        0 => {
            let k = *ch.pick(EXPR_EDITS);
            match apply_expr_edit(ch, &mut program, &objs, k, constant) {
                Some(d) => depth = d,
                None => return Outcome::skip("edit kind has no qualifying site in this program"),
            }
            k.to_owned()
        }
        1 => {
            let (k, text) = statement_fault(ch, is_handler);
            if constant && text.contains("a0") {
                return Outcome::skip("statement fault reads a property (not a constant context)");
            }
            let mut ss = match program.body.clone() {
                Body::Expr(e) => vec![S::Expr(e)],
                Body::Block(ss) => ss,
            };
            let pos = ch.below(ss.len().max(1));
            ss.insert(pos.min(ss.len().saturating_sub(if is_handler { 0 } else { 1 })), S::Raw(text));
            program.body = Body::Block(ss);
            k.to_owned()
        }
        _ => {
            if is_handler {
                // E9: callback parameters / what the handler is attached to
                let h = doc.handlers.first().unwrap();
                let n = h.signal_params.len();
                let body = match &program.body {
                    Body::Block(_) => print_program(&Program { params: 0, ..program.clone() }, &objs, 2),
                    Body::Expr(_) => format!("{{ {} }}", print_program(&Program { params: 0, ..program.clone() }, &objs, 2)),
                };
                let names = ["p", "q", "r", "s"];
                let declared: Vec<String> = (0..program.params).map(|i| format!("{}: {}", names[i], h.signal_params[i].qml_name())).collect();
                let (k, text, name): (&str, String, Option<String>) = match ch.below(7) {
                    0 => {
                        // one parameter more than the signal carries
                        let mut ps: Vec<String> = (0..n).map(|i| format!("{}: {}", names[i], h.signal_params[i].qml_name())).collect();
                        ps.push(format!("{}: int", names[n]));
                        ("E9-too-many-parameters", format!("function({}) {}", ps.join(", "), body), None)
                    }
                    1 if n >= 1 => {
                        let bad = match h.signal_params[0] { T::Int => "QString", T::Str => "int", T::Bool => "QString", T::Double => "QString", _ => "int" };
                        let mut ps: Vec<String> = (0..n).map(|i| format!("{}: {}", names[i], h.signal_params[i].qml_name())).collect();
                        ps[0] = format!("{}: {bad}", names[0]);
                        ("E9-incompatible-parameter", format!("function({}) {}", ps.join(", "), body), None)
                    }
                    2 if n >= 1 => ("E9-parameter-without-annotation", format!("function({}) {}", names[..n].join(", "), body), None),
                    3 if n >= 2 => {
                        let ps: Vec<String> = (0..n).map(|i| format!("p: {}", h.signal_params[i].qml_name())).collect();
                        ("E9-duplicate-parameter", format!("function({}) {}", ps.join(", "), body), None)
                    }
                    4 => ("E9-overloaded-signal", "console.log(\"x\")".to_owned(), Some("onOv".to_owned())),
                    5 => ("E9-handler-on-slot", "console.log(\"x\")".to_owned(), Some("onDoIt".to_owned())),
                    _ => ("E9-handler-as-map", "1".to_owned(), Some(format!("on{}.x", cap(h.signal)))),
                };
                let _ = declared;
                if program.params > 0 && name.is_none() && k != "E9-too-many-parameters" && k != "E9-incompatible-parameter" {
                    // the body may use parameter names that the new list does not declare with the same type
                    if k == "E9-duplicate-parameter" {
                        return Outcome::skip("body uses parameters");
                    }
                }
                replaced_text = Some(text);
                if let Some(nm) = name {
                    doc.root.children[host].binds[bind].path = nm;
                }
                k.to_owned()
            } else {
                // E13: mixed-type returns / a path without value
                let wit = |t: &T| -> &'static str { match t { T::Str => "1", _ => "\"s\"" } };
                let ss = match program.body.clone() {
                    Body::Expr(e) => vec![S::Expr(e)],
                    Body::Block(ss) => ss,
                };
                if ch.chance(1, 2) {
                    let mut ss = ss;
                    ss.insert(0, S::Raw(format!("if ({}) return {};", if constant { "1 == 1" } else { "a0.b0" }, wit(&program.ty))));
                    program.body = Body::Block(ss);
                    "E13-mixed-return-types".to_owned()
                } else {
                    if matches!(program.ty, T::Void) {
                        return Outcome::skip("void program");
                    }
                    program.body = Body::Block(vec![S::If(E::Raw(if constant { "1 == 2".into() } else { "a0.b0".into() }, T::Bool), Box::new(S::Block(ss)), None)]);
                    "E13-path-without-value".to_owned()
                }
            }
        }
    };
    let text = replaced_text.unwrap_or_else(|| print_program(&program, &objs, 2));
    doc.root.children[host].binds[bind] = Bind::new(doc.root.children[host].binds[bind].path.clone(), text);
    let printed = print_doc(DEFAULT_IMPORTS, &doc.root, Style::default());
    let t = translate(&printed.text, "T", Mode::Generate);
    let span = printed.bind_spans[&(vec![host], bind)].clone();
    let detail = |why: &str| json!({"qml": printed.text, "edit": kind, "edited_binding": &printed.text[span.clone()], "why": why, "diagnostics": t.diag_summary(), "syntax_errors": t.syntax_errors, "panic": t.panic});
    // histogram key must be 'static: leak the small set of kind names
    let label: &'static str = Box::leak(format!("edit:{kind}").into_boxed_str());
    ch.label(label);
    if let Some(p) = &t.panic {
        return Outcome::fail("c05-panic", format!("translator panicked: {p}"), detail(p));
    }
    if t.accepted() {
        return Outcome::fail(format!("c05-accepts-{kind}"), format!("program with the edit {kind} is accepted: {}", &printed.text[span.clone()]), detail("accepted"));
    }
    // rejected: by a syntax error (unsupported syntax) or by an error diagnostic inside the binding
    let ok = !t.syntax_errors.is_empty() || t.errors().any(|d| span.start <= d.start && d.end <= span.end);
    if !ok {
        return Outcome::fail(format!("c05-no-diagnostic-{kind}"), format!("edit {kind}: rejected without an error inside the edited binding: {:?}", t.diag_summary()), detail("no diagnostic in span"));
    }
    let nt = (depth >= 1 || nodes >= 10).then(|| stable_hash(&printed.text));
    Outcome::pass(nt).with_sample(ch.want_sample.then(|| json!({"edit": kind, "edited_binding": &printed.text[span.clone()], "first_error": t.errors().next().map(|d| d.message.clone())})))
}

pub fn replay(v: &Value) -> Outcome {
    if let Some(q) = v["qml"].as_str() {
        // text replay: a well-typed document that must be accepted without diagnostics
        let t = translate(q, "T", Mode::Generate);
        if t.accepted() && t.diags.is_empty() {
            return Outcome::pass(None);
        }
        return Outcome::fail(v["key"].as_str().unwrap_or("c05-rejects-valid").to_owned(), format!("well-typed document is not accepted: {:?} {:?}", t.syntax_errors, t.diag_summary()), json!({"qml": q, "diagnostics": t.diag_summary(), "syntax_errors": t.syntax_errors}));
    }
    let reject = v["part"].as_str() == Some("single-edit");
    let lt = v["part"].as_str() == Some("less-than-probe");
    match choices_from_json(v) {
        Some(c) if reject => run_reject(&mut Chooser::new(&c)),
        Some(c) if lt => run_accept_lt_probe(&mut Chooser::new(&c)),
        Some(c) => run_accept(&mut Chooser::new(&c)),
        None => Outcome::skip("replay file without choices"),
    }
}

pub fn run(env: &Env, known: &Known, started: Instant, replayed: u64, replay_violations: Vec<Violation>) -> i32 {
    let cfg = ChoiceRun { env, pid: PID, part: "well-typed", cases: env.tier.pick(40_000, 400_000), max_len: 3000, known };
    let mut rr = run_choices(&cfg, run_accept);
    let cfg = ChoiceRun { env, pid: PID, part: "less-than-probe", cases: env.tier.pick(3_000, 60_000), max_len: 3000, known };
    let r3 = run_choices(&cfg, run_accept_lt_probe);
    rr.stats.merge(r3.stats);
    rr.violations.extend(r3.violations);
    let cfg = ChoiceRun { env, pid: PID, part: "single-edit", cases: env.tier.pick(90_000, 800_000), max_len: 3000, known };
    let r2 = run_choices(&cfg, run_reject);
    // the edit-kind x context x site matrix: an empty cell is a generator bug, not a pass
    let matrix: std::collections::BTreeMap<String, u64> = r2.stats.labels.iter().filter(|(k, _)| k.starts_with("edit:") || k.starts_with("ctx:") || k.starts_with("site:")).map(|(k, v)| (k.clone(), *v)).collect();
    rr.stats.merge(r2.stats);
    rr.violations.extend(r2.violations);
    let ev = Evidence {
        env, pid: PID, level: "exploration",
        rule: "direction 1: documents with 1-12 binding bodies and 0-3 handler bodies from the type-directed language generator (only constructs of docs/language.md: all operators on all admitted operand types, casts, Math.min/max, qsTr, arg, isEmpty, subscripts, let/const, if/else, switch, return) must be accepted with an empty diagnostic list. Direction 2: the same programs (and constant-only ones) with exactly ONE type-breaking edit from the catalogue of DESIGN appendix B (numeric mixing, string with number, non-bool condition, operator on unsupported type, unsupported operator/statement, assignment to const / read-only / rvalue, assignment/initialiser/argument of another type, wrong argument count, bad callback parameters, handler on overloaded signal / slot / as map, bad declarations, invalid casts, bad subscripts/members, result type not assignable, mixed return types, path without value, no common type), each ill-typed by construction under a rule the statement names, must be rejected with an error inside the edited binding (or a syntax error). Non-trivial: direction 1 = document with >= 3 programs; direction 2 = edit at depth >= 1 or program with >= 10 nodes; distinct by text hash.",
        assumptions: vec![
            "the `<` operator is excluded from the generators (known finding in the parser dependency, see C03); integer literals adapt to int/uint as documented by the repository's own tests".into(),
            "edits are ill-typed by construction (the position demands a type the replacement certainly lacks), not judged by a second type checker".into(),
        ],
        extra: json!({"edit_matrix": matrix}),
    };
    finish(&ev, rr.stats, rr.violations, replayed, replay_violations, started)
}
