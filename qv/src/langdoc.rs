//! Documents over the synthetic universe that carry generated binding programs and handlers
//! (shared by C01, C02, C05, C06, C13, C16).

use crate::common::Chooser;
use crate::doc::{Bind, Obj};
use crate::lang::*;
use crate::langgen::*;

pub const DST_PROPS: &[(&str, T)] = &[
    ("ti", T::Int), ("tu", T::Uint), ("td", T::Double), ("tb", T::Bool), ("ts", T::Str), ("tsl", T::ListStr), ("til", T::ListInt), ("te", T::Mode),
    ("tf", T::Opts), ("tp", T::Ptr("VSrc")), ("tw", T::Ptr("QWidget")), ("tv", T::Variant), ("ti2", T::Int), ("ts2", T::Str), ("tb2", T::Bool), ("td2", T::Double),
];

/// (signal, parameter types of its longest variant)
pub const SIG_SIGNALS: &[(&str, &[T])] = &[
    ("fired", &[]),
    ("firedI", &[T::Int]),
    ("firedIS", &[T::Int, T::Str]),
    ("firedB", &[T::Bool]),
    ("firedD", &[T::Double]),
    ("firedP", &[T::Ptr("VSrc")]),
    ("trig", &[T::Bool]),
    ("rng", &[T::Int, T::Int]),
];

#[derive(Clone, Debug)]
pub struct BindingSite {
    /// index of the hosting object in the world (= child index under the root)
    pub host: usize,
    /// index of the binding in the host's `binds`
    pub bind: usize,
    pub prop: &'static str,
    pub program: Program,
}

#[derive(Clone, Debug)]
pub struct HandlerSite {
    pub host: usize,
    pub bind: usize,
    pub signal: &'static str,
    /// all parameter types the signal carries
    pub signal_params: Vec<T>,
    pub program: Program,
}

#[derive(Clone, Debug)]
pub struct LangDoc {
    pub world: World,
    pub root: Obj,
    pub bindings: Vec<BindingSite>,
    pub handlers: Vec<HandlerSite>,
}

pub fn cap(s: &str) -> String {
    let mut c = s.chars();
    match c.next() {
        Some(f) => format!("{}{}", f.to_ascii_uppercase(), c.as_str()),
        None => String::new(),
    }
}

/// Builds the world: sources a0.., targets t0.., signal objects g0.. as children of a QWidget.
pub fn gen_world(ch: &mut Chooser, n_src: usize, n_dst: usize, n_sig: usize) -> (World, Obj) {
    let mut world = World::default();
    let mut root = Obj::new("QWidget");
    for i in 0..n_src {
        let class = if i == 0 { "VSrc" } else { *ch.pick(&["VSrc", "VSrc", "VSrc", "VSub", "VSub2"]) };
        world.objs.push(ObjDecl { id: format!("a{i}"), class });
        root.children.push(Obj::new(class).with_id(format!("a{i}")));
    }
    for i in 0..n_dst {
        world.objs.push(ObjDecl { id: format!("t{i}"), class: "VDst" });
        root.children.push(Obj::new("VDst").with_id(format!("t{i}")));
    }
    for i in 0..n_sig {
        world.objs.push(ObjDecl { id: format!("g{i}"), class: "VSig" });
        root.children.push(Obj::new("VSig").with_id(format!("g{i}")));
    }
    (world, root)
}

/// A document with `nb` bindings (spread over the VDst objects) and `nh` handlers.
pub fn gen_lang_doc(ch: &mut Chooser, nb: usize, nh: usize, opts: &GenOpts) -> LangDoc {
    let n_src = 2 + ch.below(3);
    let n_dst = nb.div_ceil(DST_PROPS.len()).max(1);
    let n_sig = if nh > 0 { 1 + ch.below(2) } else { 0 };
    let (world, mut root) = gen_world(ch, n_src, n_dst, n_sig);
    let mut bindings = vec![];
    let mut handlers = vec![];
    // bindings: fill target properties round-robin in a shuffled order of types
    let mut slots: Vec<(usize, usize)> = vec![];
    for d in 0..n_dst {
        for p in 0..DST_PROPS.len() {
            slots.push((d, p));
        }
    }
    // weight: scalar types more often than lists/pointers/variants
    for _ in 0..nb {
        if slots.is_empty() {
            break;
        }
        let mut k = ch.below(slots.len());
        // re-draw once when an exotic type comes up, to favour int/string/bool/double
        if !matches!(DST_PROPS[slots[k].1].1, T::Int | T::Str | T::Bool | T::Double | T::Uint) && ch.chance(1, 2) {
            k = ch.below(slots.len());
        }
        let (d, p) = slots.swap_remove(k);
        let host = n_src + d;
        let (prop, ty) = &DST_PROPS[p];
        let program = gen_binding(ch, &world, host, ty, Some(prop), opts.clone());
        let text = print_program(&program, &world.objs, 2);
        let o = &mut root.children[host];
        o.binds.push(Bind::new(*prop, text));
        bindings.push(BindingSite { host, bind: o.binds.len() - 1, prop, program });
    }
    // handlers
    let mut used: Vec<(usize, &str)> = vec![];
    for _ in 0..nh {
        let g = n_src + n_dst + ch.below(n_sig.max(1));
        let (sig, params) = *ch.pick(SIG_SIGNALS);
        if used.contains(&(g, sig)) {
            continue;
        }
        used.push((g, sig));
        let np = ch.below(params.len() + 1);
        let names = ["p", "q", "r"];
        let ps: Vec<(&str, T)> = (0..np).map(|i| (names[i], params[i].clone())).collect();
        let program = gen_handler(ch, &world, g, &ps, opts.clone());
        let text = print_program(&program, &world.objs, 2);
        let o = &mut root.children[g];
        o.binds.push(Bind::new(format!("on{}", cap(sig)), text));
        handlers.push(HandlerSite { host: g, bind: o.binds.len() - 1, signal: sig, signal_params: params.to_vec(), program });
    }
    LangDoc { world, root, bindings, handlers }
}
