//! Runs a choice-sequence search in child processes so that failures no `catch_unwind` can see
//! (stack exhaustion, runaway allocation, endless loops) become ordinary violations with a
//! replay file instead of killing the harness.
//!
//! Parent: one child per shard (`qv worker …`). Each child logs the choice sequence of the case it
//! is about to evaluate, has a watchdog thread (per-case limit, 1000x the normal cost) and an
//! address-space limit, and writes its statistics and shrunk violations to a result file.
//! A child that dies (signal, watchdog, memory) is followed by a confirmation run of exactly the
//! logged case in a fresh child; only a confirmed death is reported, an unconfirmed one makes the
//! run inconclusive (exit 2).

use crate::common::*;
use rayon::prelude::*;
use serde_json::{json, Value};
use std::os::unix::process::ExitStatusExt;
use std::path::{Path, PathBuf};
use std::process::{Command, Stdio};
use std::sync::atomic::{AtomicU64, Ordering};
use std::sync::Arc;

pub type CaseFn = fn(&mut Chooser) -> Outcome;

const HANG_EXIT: i32 = 99;
const CASE_LIMIT_MS: u64 = 10_000;
const CONFIRM_LIMIT_S: u64 = 60;
/// address-space limit of a child (KiB for `ulimit -v`)
const MEM_LIMIT_KIB: u64 = 6 * 1024 * 1024;

fn stats_to_json(s: &Stats) -> Value {
    json!({
        "evaluations": s.evaluations,
        "nontrivial": s.nontrivial.iter().collect::<Vec<_>>(),
        "labels": s.labels,
        "skipped": s.skipped,
        "counters": s.counters,
        "known_hits": s.known_hits,
        "samples": s.samples,
    })
}

fn stats_from_json(v: &Value) -> Stats {
    let mut s = Stats::default();
    s.evaluations = v["evaluations"].as_u64().unwrap_or(0);
    for h in v["nontrivial"].as_array().cloned().unwrap_or_default() {
        if let Some(h) = h.as_u64() {
            s.nontrivial.insert(h);
        }
    }
    let map = |x: &Value| -> std::collections::BTreeMap<String, u64> { x.as_object().map(|o| o.iter().map(|(k, v)| (k.clone(), v.as_u64().unwrap_or(0))).collect()).unwrap_or_default() };
    s.labels = map(&v["labels"]);
    s.skipped = map(&v["skipped"]);
    s.counters = map(&v["counters"]);
    s.known_hits = map(&v["known_hits"]);
    s.samples = v["samples"].as_array().cloned().unwrap_or_default();
    s
}

fn violation_to_json(v: &Violation) -> Value {
    json!({"key": v.failure.key, "what": v.failure.what, "detail": v.failure.detail, "choices": v.choices, "part": v.part})
}

fn violation_from_json(v: &Value) -> Violation {
    Violation {
        failure: Failure { key: v["key"].as_str().unwrap_or("").to_owned(), what: v["what"].as_str().unwrap_or("").to_owned(), detail: v["detail"].clone() },
        choices: choices_from_json(v),
        part: v["part"].as_str().unwrap_or("").to_owned(),
    }
}

/// Child entry: `qv worker <pid> <part> <shard> <cases> <max_len> <dir>` (seed/tier from env).
pub fn worker_main(args: &[String], lookup: &dyn Fn(&str, &str) -> Option<CaseFn>) -> i32 {
    let (pid, part) = (&args[0], &args[1]);
    let shard: u64 = args[2].parse().unwrap();
    let cases: u32 = args[3].parse().unwrap();
    let max_len: usize = args[4].parse().unwrap();
    let dir = PathBuf::from(&args[5]);
    let Some(f) = lookup(pid, part) else {
        eprintln!("worker: unknown case function {pid}/{part}");
        return 2;
    };
    let env = Env::from_env(None);
    let known = Known::load();
    let log = dir.join(format!("case.{shard}.json"));
    // watchdog: exits the process when one case exceeds the limit
    let started = Arc::new(AtomicU64::new(0));
    let epoch = std::time::Instant::now();
    {
        let started = started.clone();
        let hang = dir.join(format!("hang.{shard}"));
        std::thread::spawn(move || loop {
            std::thread::sleep(std::time::Duration::from_millis(250));
            let s = started.load(Ordering::Relaxed);
            if s != 0 && epoch.elapsed().as_millis() as u64 > s + CASE_LIMIT_MS {
                let _ = std::fs::write(&hang, b"hang");
                std::process::exit(HANG_EXIT);
            }
        });
    }
    let cfg = ChoiceRun { env: &env, pid, part, cases, max_len, known: &known };
    let (stats, violation) = run_shard_logged(&cfg, shard, cases, &|ch: &mut Chooser| f(ch), &|choices: &[u32]| {
        let _ = std::fs::write(&log, serde_json::to_vec(choices).unwrap_or_default());
        started.store(epoch.elapsed().as_millis() as u64 + 1, Ordering::Relaxed);
    });
    started.store(0, Ordering::Relaxed);
    let out = json!({"stats": stats_to_json(&stats), "violation": violation.as_ref().map(violation_to_json)});
    let _ = std::fs::write(dir.join(format!("result.{shard}.json")), serde_json::to_vec(&out).unwrap());
    0
}

/// Child entry: `qv worker-one <pid> <part> <choices-file>`: evaluates exactly one case.
pub fn worker_one_main(args: &[String], lookup: &dyn Fn(&str, &str) -> Option<CaseFn>) -> i32 {
    let Some(f) = lookup(&args[0], &args[1]) else { return 2 };
    let Ok(bytes) = std::fs::read(&args[2]) else { return 2 };
    let choices: Vec<u32> = serde_json::from_slice(&bytes).unwrap_or_default();
    let out = f(&mut Chooser::new(&choices));
    match out.verdict {
        Verdict::Fail(fl) => {
            println!("{}", json!({"key": fl.key, "what": fl.what, "detail": fl.detail}));
            1
        }
        _ => 0,
    }
}

fn spawn_limited(args: &[String]) -> std::io::Result<std::process::Child> {
    let exe = std::env::current_exe()?;
    let mut cmdline = format!("ulimit -v {MEM_LIMIT_KIB}; exec \"$0\" \"$@\"");
    let _ = &mut cmdline;
    Command::new("/bin/sh").arg("-c").arg(cmdline).arg(exe).args(args).stdin(Stdio::null()).stdout(Stdio::piped()).stderr(Stdio::piped()).spawn()
}

/// Re-runs one logged case alone; Some(description) when the child dies or hangs again.
fn confirm_death(pid: &str, part: &str, choices_file: &Path) -> Option<String> {
    let mut child = spawn_limited(&["worker-one".into(), pid.into(), part.into(), choices_file.display().to_string()]).ok()?;
    let t0 = std::time::Instant::now();
    loop {
        match child.try_wait().ok()? {
            Some(st) => {
                return match (st.code(), st.signal()) {
                    (Some(0), _) | (Some(1), _) | (Some(2), _) => None,
                    (c, s) => Some(format!("the process evaluating this single case ended with status {:?} / signal {:?}", c, s)),
                };
            }
            None => {
                if t0.elapsed().as_secs() > CONFIRM_LIMIT_S {
                    let _ = child.kill();
                    let _ = child.wait();
                    return Some(format!("the single case did not finish within {CONFIRM_LIMIT_S} s (normal cost: milliseconds)"));
                }
                std::thread::sleep(std::time::Duration::from_millis(20));
            }
        }
    }
}

pub struct IsolatedResult {
    pub result: RunResult,
    /// a child died and the death could not be confirmed: the run is inconclusive
    pub inconclusive: bool,
}

pub fn run_choices_isolated(cfg: &ChoiceRun) -> IsolatedResult {
    let dir = scratch_dir("iso");
    let per = (cfg.cases as u64).div_ceil(SHARDS) as u32;
    let outcomes: Vec<(Option<Value>, Option<(String, PathBuf)>, Vec<String>)> = (0..SHARDS)
        .into_par_iter()
        .map(|shard| {
            let args: Vec<String> = vec!["worker".into(), cfg.pid.into(), cfg.part.into(), shard.to_string(), per.to_string(), cfg.max_len.to_string(), dir.path().display().to_string()];
            let Ok(child) = spawn_limited(&args) else { return (None, Some(("cannot spawn worker".into(), PathBuf::new())), vec![]) };
            let out = child.wait_with_output().expect("wait for worker");
            let known_lines: Vec<String> = String::from_utf8_lossy(&out.stdout).lines().filter(|l| l.starts_with("KNOWN-FINDING:")).map(|l| l.to_owned()).collect();
            let result = std::fs::read(dir.path().join(format!("result.{shard}.json"))).ok().and_then(|b| serde_json::from_slice::<Value>(&b).ok());
            if out.status.success() && result.is_some() {
                return (result, None, known_lines);
            }
            let how = if out.status.code() == Some(HANG_EXIT) {
                format!("a case ran longer than {} s (normal cost: milliseconds)", CASE_LIMIT_MS / 1000)
            } else {
                format!("worker ended with status {:?} / signal {:?}: {}", out.status.code(), out.status.signal(), String::from_utf8_lossy(&out.stderr).lines().last().unwrap_or(""))
            };
            (None, Some((how, dir.path().join(format!("case.{shard}.json")))), known_lines)
        })
        .collect();
    let mut rr = RunResult::default();
    let mut inconclusive = false;
    let mut confirmed_deaths = 0usize;
    let mut printed = std::collections::BTreeSet::new();
    for (result, death, known_lines) in outcomes {
        for l in known_lines {
            // announce through the shared table so that a finding is printed once per run
            match l.rsplit_once("[key=").map(|(_, k)| k.trim_end_matches(']').to_owned()) {
                Some(k) if cfg.known.is_listed_known(cfg.pid, &k) => cfg.known.announce(cfg.pid, &k),
                _ => {
                    if printed.insert(l.clone()) {
                        println!("{l}");
                    }
                }
            }
        }
        if let Some(r) = result {
            rr.stats.merge(stats_from_json(&r["stats"]));
            if !r["violation"].is_null() {
                rr.violations.push(violation_from_json(&r["violation"]));
            }
        }
        if let Some((how, case_file)) = death {
            // one confirmed death decides the run; further dead shards (usually the same cause) are
            // not confirmed again (each confirmation may take up to the limit)
            if confirmed_deaths >= 1 {
                continue;
            }
            let choices: Option<Vec<u32>> = std::fs::read(&case_file).ok().and_then(|b| serde_json::from_slice(&b).ok());
            match (choices, confirm_death(cfg.pid, cfg.part, &case_file)) {
                (Some(c), Some(confirmed)) => {
                    confirmed_deaths += 1;
                    let key = if confirmed.contains("did not finish") { "does-not-terminate" } else { "process-died" };
                    let key = format!("{}-{key}", cfg.pid.to_ascii_lowercase());
                    if cfg.known.is_listed_known(cfg.pid, &key) {
                        cfg.known.announce(cfg.pid, &key);
                    } else {
                        rr.violations.push(Violation { failure: Failure { key, what: format!("{how}; confirmed: {confirmed}"), detail: json!({"note": "replay with `qv replay <this file>`; the case is given by its choice sequence"}) }, choices: Some(c), part: cfg.part.to_owned() });
                    }
                }
                _ => {
                    eprintln!("[isolate] {how}; the death was not confirmed on the logged case: inconclusive");
                    inconclusive = true;
                }
            }
        }
    }
    rr.stats.samples.truncate(4);
    if confirmed_deaths > 0 {
        inconclusive = false;
    }
    IsolatedResult { result: rr, inconclusive }
}
