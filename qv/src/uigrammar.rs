//! Content model of the subset of Designer's ui4 format that uic reads (DESIGN.md appendix C),
//! written from the format, not from qmluic.

use crate::xml::Elem;
use std::collections::BTreeSet;

type R = Result<(), String>;

fn only_attrs(e: &Elem, allowed: &[&str]) -> R {
    for (k, _) in &e.attrs {
        if !allowed.contains(&k.as_str()) {
            return Err(format!("<{}> has unexpected attribute {k:?}", e.name));
        }
    }
    Ok(())
}

fn need_attr(e: &Elem, name: &str) -> R {
    if e.attr(name).is_none() {
        return Err(format!("<{}> lacks attribute {name:?}", e.name));
    }
    Ok(())
}

fn text_only(e: &Elem) -> R {
    if e.elems().next().is_some() {
        return Err(format!("<{}> must contain text only", e.name));
    }
    Ok(())
}

fn no_text(e: &Elem) -> R {
    if e.has_nonblank_text() {
        return Err(format!("<{}> contains stray text {:?}", e.name, e.text()));
    }
    Ok(())
}

fn is_decimal(s: &str) -> bool {
    let t = s.strip_prefix('-').unwrap_or(s);
    !t.is_empty() && t.chars().all(|c| c.is_ascii_digit())
}

fn is_number(s: &str) -> bool {
    // what QString::toDouble / toInt read: decimal with optional fraction and exponent
    !s.is_empty() && s.parse::<f64>().map(|v| v.is_finite()).unwrap_or(false) && !s.contains(|c: char| c.is_ascii_alphabetic() && c != 'e' && c != 'E')
}

fn int_list(e: &Elem, attr: &str) -> R {
    if let Some(v) = e.attr(attr) {
        if !v.split(',').all(is_decimal) {
            return Err(format!("<{} {attr}={v:?}> is not a comma-separated list of integers", e.name));
        }
    }
    Ok(())
}

fn children_subset(e: &Elem, allowed: &[&str], unique: bool) -> R {
    no_text(e)?;
    let mut seen = BTreeSet::new();
    for c in e.elems() {
        if !allowed.contains(&c.name.as_str()) {
            return Err(format!("<{}> may not contain <{}>", e.name, c.name));
        }
        if unique && !seen.insert(c.name.clone()) {
            return Err(format!("<{}> contains <{}> twice", e.name, c.name));
        }
    }
    Ok(())
}

fn leafs(e: &Elem, allowed: &[&str], numeric: bool) -> R {
    children_subset(e, allowed, true)?;
    for c in e.elems() {
        text_only(c)?;
        if numeric && !is_decimal(&c.text()) {
            return Err(format!("<{}><{}> is not an integer: {:?}", e.name, c.name, c.text()));
        }
    }
    Ok(())
}

fn color(e: &Elem) -> R {
    only_attrs(e, &["alpha"])?;
    if let Some(a) = e.attr("alpha") {
        if !is_decimal(a) {
            return Err(format!("color alpha {a:?}"));
        }
    }
    leafs(e, &["red", "green", "blue"], true)?;
    if e.elems().count() != 3 {
        return Err("<color> needs red, green and blue".into());
    }
    Ok(())
}

fn brush(e: &Elem) -> R {
    only_attrs(e, &["brushstyle"])?;
    need_attr(e, "brushstyle")?;
    children_subset(e, &["color"], true)?;
    for c in e.elems() {
        color(c)?;
    }
    Ok(())
}

pub fn value(e: &Elem) -> R {
    match e.name.as_str() {
        "bool" => {
            only_attrs(e, &[])?;
            text_only(e)?;
            if !matches!(e.text().as_str(), "true" | "false") {
                return Err(format!("<bool>{}</bool>", e.text()));
            }
            Ok(())
        }
        "number" | "double" => {
            only_attrs(e, &[])?;
            text_only(e)?;
            if !is_number(&e.text()) {
                return Err(format!("<{}>{}</{}> is not a number", e.name, e.text(), e.name));
            }
            Ok(())
        }
        "string" => {
            only_attrs(e, &["notr", "comment", "extracomment", "id"])?;
            text_only(e)
        }
        "cstring" | "enum" | "set" | "cursorShape" => {
            only_attrs(e, &[])?;
            text_only(e)
        }
        "pixmap" => {
            only_attrs(e, &["resource", "alias"])?;
            text_only(e)
        }
        "iconset" => {
            only_attrs(e, &["theme", "resource"])?;
            children_subset(e, &["normaloff", "normalon", "disabledoff", "disabledon", "activeoff", "activeon", "selectedoff", "selectedon"], true)?;
            for c in e.elems() {
                text_only(c)?;
            }
            Ok(())
        }
        "font" => {
            only_attrs(e, &[])?;
            children_subset(e, &["family", "pointsize", "weight", "italic", "bold", "underline", "strikeout", "antialiasing", "stylestrategy", "kerning"], true)?;
            for c in e.elems() {
                text_only(c)?;
                match c.name.as_str() {
                    "pointsize" | "weight" if !is_decimal(&c.text()) => return Err(format!("<font><{}>{}", c.name, c.text())),
                    "italic" | "bold" | "underline" | "strikeout" | "kerning" if !matches!(c.text().as_str(), "true" | "false") => {
                        return Err(format!("<font><{}>{}", c.name, c.text()))
                    }
                    _ => {}
                }
            }
            Ok(())
        }
        "rect" => {
            only_attrs(e, &[])?;
            leafs(e, &["x", "y", "width", "height"], true)
        }
        "size" => {
            only_attrs(e, &[])?;
            leafs(e, &["width", "height"], true)
        }
        "sizepolicy" => {
            only_attrs(e, &["hsizetype", "vsizetype"])?;
            if e.attr("hsizetype").is_some() != e.attr("vsizetype").is_some() {
                return Err("<sizepolicy> needs both hsizetype and vsizetype".into());
            }
            leafs(e, &["horstretch", "verstretch"], true)
        }
        "color" => color(e),
        "brush" => brush(e),
        "palette" => {
            only_attrs(e, &[])?;
            children_subset(e, &["active", "inactive", "disabled"], true)?;
            for g in e.elems() {
                only_attrs(g, &[])?;
                children_subset(g, &["colorrole", "color"], false)?;
                let mut roles = BTreeSet::new();
                for r in g.elems() {
                    if r.name == "colorrole" {
                        only_attrs(r, &["role"])?;
                        need_attr(r, "role")?;
                        if !roles.insert(r.attr("role").unwrap().to_owned()) {
                            return Err(format!("colorrole {:?} twice in <{}>", r.attr("role"), g.name));
                        }
                        children_subset(r, &["brush"], true)?;
                        if r.elems().count() != 1 {
                            return Err("<colorrole> needs exactly one <brush>".into());
                        }
                        brush(r.elems().next().unwrap())?;
                    } else {
                        color(r)?;
                    }
                }
            }
            Ok(())
        }
        "stringlist" => {
            only_attrs(e, &["notr", "comment", "extracomment", "id"])?;
            children_subset(e, &["string"], false)?;
            for c in e.elems() {
                only_attrs(c, &[])?;
                text_only(c)?;
            }
            Ok(())
        }
        n => Err(format!("<{n}> is not a value element uic reads")),
    }
}

fn property_like(e: &Elem) -> R {
    only_attrs(e, &["name", "stdset"])?;
    need_attr(e, "name")?;
    if let Some(s) = e.attr("stdset") {
        if !matches!(s, "0" | "1") {
            return Err(format!("stdset={s:?}"));
        }
    }
    no_text(e)?;
    let vals: Vec<&Elem> = e.elems().collect();
    if vals.len() != 1 {
        return Err(format!("<{} name={:?}> has {} value elements", e.name, e.attr("name"), vals.len()));
    }
    value(vals[0])
}

fn unique_names(e: &Elem, tag: &str) -> R {
    let mut seen = BTreeSet::new();
    for p in e.elems_named(tag) {
        let n = p.attr("name").unwrap_or("").to_owned();
        if !seen.insert(n.clone()) {
            return Err(format!("<{}> has two <{tag} name={n:?}>", e.name));
        }
    }
    Ok(())
}

fn widget(e: &Elem) -> R {
    only_attrs(e, &["class", "name", "native"])?;
    need_attr(e, "class")?;
    need_attr(e, "name")?;
    no_text(e)?;
    unique_names(e, "property")?;
    unique_names(e, "attribute")?;
    for c in e.elems() {
        match c.name.as_str() {
            "property" | "attribute" => property_like(c)?,
            "addaction" => {
                only_attrs(c, &["name"])?;
                need_attr(c, "name")?;
                if !c.children.is_empty() {
                    return Err("<addaction> must be empty".into());
                }
            }
            "item" => {
                // model item
                only_attrs(c, &[])?;
                no_text(c)?;
                unique_names(c, "property")?;
                for p in c.elems() {
                    match p.name.as_str() {
                        "property" => property_like(p)?,
                        "item" => {}
                        n => return Err(format!("model <item> contains <{n}>")),
                    }
                }
            }
            "widget" => widget(c)?,
            "layout" => layout(c)?,
            "action" => action(c)?,
            "actiongroup" | "zorder" | "row" | "column" => {}
            n => return Err(format!("<widget> may not contain <{n}>")),
        }
    }
    Ok(())
}

fn action(e: &Elem) -> R {
    only_attrs(e, &["name", "menu"])?;
    need_attr(e, "name")?;
    no_text(e)?;
    unique_names(e, "property")?;
    unique_names(e, "attribute")?;
    for c in e.elems() {
        match c.name.as_str() {
            "property" | "attribute" => property_like(c)?,
            n => return Err(format!("<action> may not contain <{n}>")),
        }
    }
    Ok(())
}

fn spacer(e: &Elem) -> R {
    only_attrs(e, &["name"])?;
    need_attr(e, "name")?;
    no_text(e)?;
    unique_names(e, "property")?;
    for c in e.elems() {
        match c.name.as_str() {
            "property" => property_like(c)?,
            n => return Err(format!("<spacer> may not contain <{n}>")),
        }
    }
    Ok(())
}

fn layout(e: &Elem) -> R {
    only_attrs(e, &["class", "name", "stretch", "rowstretch", "columnstretch", "rowminimumheight", "columnminimumwidth"])?;
    need_attr(e, "class")?;
    need_attr(e, "name")?;
    for a in ["stretch", "rowstretch", "columnstretch", "rowminimumheight", "columnminimumwidth"] {
        int_list(e, a)?;
    }
    no_text(e)?;
    unique_names(e, "property")?;
    unique_names(e, "attribute")?;
    for c in e.elems() {
        match c.name.as_str() {
            "property" | "attribute" => property_like(c)?,
            "item" => {
                only_attrs(c, &["row", "column", "rowspan", "colspan", "alignment"])?;
                for a in ["row", "column", "rowspan", "colspan"] {
                    if let Some(v) = c.attr(a) {
                        if !is_decimal(v) {
                            return Err(format!("<item {a}={v:?}>"));
                        }
                    }
                }
                no_text(c)?;
                let inner: Vec<&Elem> = c.elems().collect();
                if inner.len() != 1 {
                    return Err(format!("layout <item> has {} children", inner.len()));
                }
                match inner[0].name.as_str() {
                    "widget" => widget(inner[0])?,
                    "layout" => layout(inner[0])?,
                    "spacer" => spacer(inner[0])?,
                    n => return Err(format!("layout <item> contains <{n}>")),
                }
            }
            n => return Err(format!("<layout> may not contain <{n}>")),
        }
    }
    Ok(())
}

/// Validates a whole document against the content model; `type_name` is what <class> must say.
pub fn validate(root: &Elem, type_name: &str) -> R {
    if root.name != "ui" {
        return Err(format!("root element <{}>", root.name));
    }
    only_attrs(root, &["version", "language"])?;
    if root.attr("version") != Some("4.0") {
        return Err("ui version is not 4.0".into());
    }
    no_text(root)?;
    let mut n_class = 0;
    let mut n_widget = 0;
    let mut n_cw = 0;
    for c in root.elems() {
        match c.name.as_str() {
            "class" => {
                n_class += 1;
                only_attrs(c, &[])?;
                text_only(c)?;
                if c.text() != type_name {
                    return Err(format!("<class>{:?} differs from the type name {:?}", c.text(), type_name));
                }
            }
            "widget" => {
                n_widget += 1;
                widget(c)?;
            }
            "customwidgets" => {
                n_cw += 1;
                only_attrs(c, &[])?;
                no_text(c)?;
                if c.elems().count() == 0 {
                    return Err("empty <customwidgets>".into());
                }
                for w in c.elems() {
                    if w.name != "customwidget" {
                        return Err(format!("<customwidgets> contains <{}>", w.name));
                    }
                    only_attrs(w, &[])?;
                    children_subset(w, &["class", "extends", "header", "container"], true)?;
                    for n in ["class", "extends", "header"] {
                        let Some(x) = w.first(n) else {
                            return Err(format!("<customwidget> lacks <{n}>"));
                        };
                        text_only(x)?;
                    }
                }
            }
            "resources" | "connections" | "tabstops" | "layoutdefault" | "author" | "comment" | "exportmacro" | "buttongroups" | "includes" | "slots" | "designerdata" | "pixmapfunction" => {}
            n => return Err(format!("<ui> may not contain <{n}>")),
        }
    }
    if n_class != 1 || n_widget != 1 || n_cw > 1 {
        return Err(format!("{n_class} <class>, {n_widget} root <widget>, {n_cw} <customwidgets>"));
    }
    Ok(())
}
