//! The expression/statement language L of DESIGN.md section 2.4: AST, printer, reference
//! semantics (big-step interpreter) and type-directed generator. Written from docs/language.md
//! and the property statements; it never looks at qmluic's IR.

use crate::common::Chooser;
use std::collections::BTreeMap;

// ---------------------------------------------------------------------------------------------
// types and values

#[derive(Clone, Debug, PartialEq, Eq, Hash, PartialOrd, Ord)]
pub enum T {
    Int,
    Uint,
    Double,
    Bool,
    Str,
    /// plain enum VSrc::Mode
    Mode,
    /// flags VSrc::Opts
    Opts,
    /// pointer to a class of the synthetic universe ("VSrc", "VSub", "QWidget")
    Ptr(&'static str),
    ListInt,
    ListStr,
    Variant,
    Void,
}

impl T {
    pub fn qml_name(&self) -> String {
        match self {
            T::Int => "int".into(),
            T::Uint => "uint".into(),
            T::Double => "double".into(),
            T::Bool => "bool".into(),
            T::Str => "QString".into(),
            T::Mode => "VSrc.Mode".into(),
            T::Opts => "VSrc.Opts".into(),
            T::Ptr(c) => (*c).into(),
            T::ListInt => "QList<int>".into(),
            T::ListStr => "QStringList".into(),
            T::Variant => "QVariant".into(),
            T::Void => "void".into(),
        }
    }
    pub fn is_numeric(&self) -> bool {
        matches!(self, T::Int | T::Uint | T::Double)
    }
}

pub const MODES: &[&str] = &["ModeA", "ModeB", "ModeC"];
pub const OPTS: &[&str] = &["OptA", "OptB", "OptC"];

#[derive(Clone, Debug, PartialEq)]
pub enum V {
    Int(i64),
    Uint(i64),
    Double(f64),
    Bool(bool),
    Str(String),
    /// index into MODES
    Mode(i64),
    /// bit set over OPTS (bit i = 1 << i)
    Opts(i64),
    /// object index or null
    Ptr(Option<usize>),
    ListInt(Vec<i64>),
    ListStr(Vec<String>),
    /// QVariant holding a value
    Variant(Box<V>),
    Void,
}

impl V {
    pub fn ty_matches(&self, t: &T) -> bool {
        matches!(
            (self, t),
            (V::Int(_), T::Int) | (V::Uint(_), T::Uint) | (V::Double(_), T::Double) | (V::Bool(_), T::Bool) | (V::Str(_), T::Str) | (V::Mode(_), T::Mode)
                | (V::Opts(_), T::Opts) | (V::Ptr(_), T::Ptr(_)) | (V::ListInt(_), T::ListInt) | (V::ListStr(_), T::ListStr) | (V::Variant(_), T::Variant) | (V::Void, T::Void)
        )
    }
}

/// Why an evaluation has no defined value (never a verdict: the case/step is skipped).
#[derive(Clone, Debug, PartialEq, Eq, Hash, PartialOrd, Ord)]
pub enum Undef {
    Overflow32,
    DivByZero,
    BadShift,
    NullDeref,
    OutOfRange,
    Unassigned,
    NonFinite,
    CastOutOfRange,
    StringOrderAmbiguous,
    /// the harness' own limits (e.g. step budget)
    Other(&'static str),
}

// ---------------------------------------------------------------------------------------------
// AST

#[derive(Clone, Copy, Debug, PartialEq, Eq, Hash)]
pub enum UnOp {
    Plus,
    Minus,
    BitNot,
    Not,
}

#[derive(Clone, Copy, Debug, PartialEq, Eq, Hash)]
pub enum BinOp {
    Add,
    Sub,
    Mul,
    Div,
    Rem,
    BitAnd,
    BitXor,
    BitOr,
    Shl,
    Shr,
    And,
    Or,
    Eq,
    Ne,
    StrictEq,
    StrictNe,
    Lt,
    Le,
    Gt,
    Ge,
}

impl BinOp {
    pub fn text(self) -> &'static str {
        use BinOp::*;
        match self {
            Add => "+",
            Sub => "-",
            Mul => "*",
            Div => "/",
            Rem => "%",
            BitAnd => "&",
            BitXor => "^",
            BitOr => "|",
            Shl => "<<",
            Shr => ">>",
            And => "&&",
            Or => "||",
            Eq => "==",
            Ne => "!=",
            StrictEq => "===",
            StrictNe => "!==",
            Lt => "<",
            Le => "<=",
            Gt => ">",
            Ge => ">=",
        }
    }
    /// JS precedence (higher binds tighter)
    pub fn prec(self) -> u8 {
        use BinOp::*;
        match self {
            Mul | Div | Rem => 12,
            Add | Sub => 11,
            Shl | Shr => 10,
            Lt | Le | Gt | Ge => 9,
            Eq | Ne | StrictEq | StrictNe => 8,
            BitAnd => 7,
            BitXor => 6,
            BitOr => 5,
            And => 4,
            Or => 3,
        }
    }
}

#[derive(Clone, Debug, PartialEq)]
pub enum E {
    /// integer literal in int context: value and spelling
    Int(i64, String),
    /// integer literal in uint context
    UInt(i64, String),
    Float(f64, String),
    /// string literal: value and spelling (with quotes)
    Str(String, String),
    Bool(bool),
    Null,
    /// `[]` in the context of the given list type
    EmptyList(T),
    /// VSrc.ModeB / VSrc.OptA
    EnumLit(&'static str, T),
    /// object by id (index into the world)
    Obj(usize),
    This,
    /// property read through an object-valued expression
    Prop(Box<E>, &'static str, T),
    /// property of the implicit this object
    ThisProp(&'static str, T),
    Local(usize),
    Un(UnOp, Box<E>),
    Bin(BinOp, Box<E>, Box<E>),
    Ternary(Box<E>, Box<E>, Box<E>),
    Cast(Box<E>, T),
    Max(Box<E>, Box<E>),
    Min(Box<E>, Box<E>),
    /// qsTr("literal")
    Tr(String, String),
    /// s.arg(x)
    Arg(Box<E>, Box<E>),
    IsEmpty(Box<E>),
    Subscript(Box<E>, Box<E>),
    Array(Vec<E>),
    Paren(Box<E>),
    // ---- effects (handlers) ----
    /// obj.method(args): recorded in the trace; (receiver, method, args, return type)
    CallMethod(Box<E>, &'static str, Vec<E>, T),
    AssignProp(Box<E>, &'static str, Box<E>),
    AssignLocal(usize, Box<E>),
    AssignSubscript(usize, Box<E>, Box<E>),
    ConsoleLog(&'static str, Vec<E>),
    /// verbatim text of the given (claimed) type; used for planted faults, never evaluated
    Raw(String, T),
}

#[derive(Clone, Debug, PartialEq)]
pub enum S {
    Expr(E),
    /// let/const: (local index, is_const, annotated?, initialiser)
    Decl(usize, bool, bool, Option<E>),
    Block(Vec<S>),
    If(E, Box<S>, Option<Box<S>>),
    /// value, cases (label, body), default (position among the bodies, body)
    Switch(E, Vec<(E, Vec<S>)>, Option<(usize, Vec<S>)>),
    Break,
    Return(Option<E>),
    Empty,
    /// verbatim statement text (planted faults)
    Raw(String),
}

#[derive(Clone, Debug, PartialEq)]
pub struct LocalInfo {
    pub name: String,
    pub ty: T,
}

/// A binding body or handler body.
#[derive(Clone, Debug, PartialEq)]
pub struct Program {
    /// result type (Void for handlers)
    pub ty: T,
    pub body: Body,
    pub locals: Vec<LocalInfo>,
    /// number of leading locals that are handler parameters
    pub params: usize,
}

#[derive(Clone, Debug, PartialEq)]
pub enum Body {
    /// bare expression
    Expr(E),
    /// `{ statements }`
    Block(Vec<S>),
}

// ---------------------------------------------------------------------------------------------
// the world: objects of the synthetic universe

#[derive(Clone, Debug, PartialEq)]
pub struct ObjDecl {
    pub id: String,
    pub class: &'static str,
}

/// readable, notifying properties of VSrc (and subclasses) with their types
pub const SRC_PROPS: &[(&str, T)] = &[
    ("i0", T::Int), ("i1", T::Int), ("u0", T::Uint), ("d0", T::Double), ("d1", T::Double), ("r0", T::Double), ("b0", T::Bool), ("b1", T::Bool),
    ("s0", T::Str), ("s1", T::Str), ("sl0", T::ListStr), ("il0", T::ListInt), ("e0", T::Mode), ("f0", T::Opts), ("v0", T::Variant),
    ("p0", T::Ptr("VSrc")), ("p1", T::Ptr("VSrc")), ("w0", T::Ptr("QWidget")), ("ov", T::Int), ("ro", T::Int),
];

pub fn is_src_class(c: &str) -> bool {
    matches!(c, "VSrc" | "VSub" | "VSub2")
}

pub fn derives(c: &str, base: &str) -> bool {
    c == base
        || match c {
            "VSub2" => derives("VSub", base),
            "VSub" => derives("VSrc", base),
            "VSrc" | "VDst" | "VSig" => base == "QWidget",
            _ => false,
        }
}

#[derive(Clone, Debug, PartialEq)]
pub struct ObjState {
    pub class: &'static str,
    pub props: BTreeMap<&'static str, V>,
}

pub fn default_value(t: &T) -> V {
    match t {
        T::Int => V::Int(0),
        T::Uint => V::Uint(0),
        T::Double => V::Double(0.0),
        T::Bool => V::Bool(false),
        T::Str => V::Str(String::new()),
        T::Mode => V::Mode(0),
        T::Opts => V::Opts(0),
        T::Ptr(_) => V::Ptr(None),
        T::ListInt => V::ListInt(vec![]),
        T::ListStr => V::ListStr(vec![]),
        T::Variant => V::Variant(Box::new(V::Int(0))),
        T::Void => V::Void,
    }
}

// ---------------------------------------------------------------------------------------------
// printer

pub struct Names<'a> {
    pub objs: &'a [ObjDecl],
    pub locals: &'a [LocalInfo],
}

fn prec_of(e: &E) -> u8 {
    match e {
        E::Bin(op, ..) => op.prec(),
        E::Ternary(..) => 2,
        E::Un(..) => 14,
        E::Cast(..) => 0, // always parenthesised by the printer itself
        E::Raw(..) => 0,
        E::AssignProp(..) | E::AssignLocal(..) | E::AssignSubscript(..) => 1,
        E::Int(v, _) | E::UInt(v, _) if *v < 0 => 14,
        E::Float(v, _) if *v < 0.0 || (*v == 0.0 && v.is_sign_negative()) => 14,
        _ => 20,
    }
}

pub fn print_expr(e: &E, n: &Names) -> String {
    let sub = |x: &E, min: u8| -> String {
        let s = print_expr(x, n);
        if prec_of(x) < min {
            format!("({s})")
        } else {
            s
        }
    };
    match e {
        E::Int(_, s) | E::UInt(_, s) | E::Float(_, s) | E::Str(_, s) => s.clone(),
        E::Bool(b) => b.to_string(),
        E::Null => "null".into(),
        E::EmptyList(_) => "[]".into(),
        E::EnumLit(v, _) => format!("VSrc.{v}"),
        E::Obj(i) => n.objs[*i].id.clone(),
        E::This => "this".into(),
        E::Prop(o, p, _) => format!("{}.{}", sub(o, 18), p),
        E::ThisProp(p, _) => (*p).into(),
        E::Local(i) => n.locals[*i].name.clone(),
        E::Un(op, a) => {
            let o = match op {
                UnOp::Plus => "+",
                UnOp::Minus => "-",
                UnOp::BitNot => "~",
                UnOp::Not => "!",
            };
            let inner = sub(a, 14);
            // avoid `--x` / `++x` / `- -3` gluing into other tokens
            if inner.starts_with('-') || inner.starts_with('+') {
                format!("{o}({inner})")
            } else {
                format!("{o}{inner}")
            }
        }
        E::Bin(op, l, r) => {
            let p = op.prec();
            // left-associative: right operand needs strictly higher precedence.
            // Known finding (parser dependency): `x REL y < z` is parsed as `x REL (y < z)`; chains
            // of relational operators are therefore always printed with explicit parentheses, a
            // dedicated probe in C03 keeps confirming the finding.
            let lmin = if p == 9 { p + 1 } else { p };
            // Same dependency: a `<` followed later by `>`/`>>` can be taken for type arguments
            // (`a < b >> 2`, `f(a < b, c > (d))`). `<` comparisons are printed self-contained:
            // in parentheses, with a parenthesised right operand unless it is a leaf.
            if matches!(op, BinOp::Lt) {
                return format!("({} < {})", sub(l, 13), sub(r, 13));
            }
            format!("{} {} {}", sub(l, lmin), op.text(), sub(r, p + 1))
        }
        E::Ternary(c, a, b) => format!("{} ? {} : {}", sub(c, 3), sub(a, 2), sub(b, 2)),
        E::Cast(a, t) => format!("({} as {})", sub(a, 14), t.qml_name()),
        E::Max(a, b) => format!("Math.max({}, {})", print_expr(a, n), print_expr(b, n)),
        E::Min(a, b) => format!("Math.min({}, {})", print_expr(a, n), print_expr(b, n)),
        E::Tr(_, s) => format!("qsTr({s})"),
        E::Arg(s, a) => format!("{}.arg({})", sub(s, 18), print_expr(a, n)),
        E::IsEmpty(s) => format!("{}.isEmpty()", sub(s, 18)),
        E::Subscript(l, i) => format!("{}[{}]", sub(l, 18), print_expr(i, n)),
        E::Array(xs) => format!("[{}]", xs.iter().map(|x| print_expr(x, n)).collect::<Vec<_>>().join(", ")),
        E::Paren(a) => format!("({})", print_expr(a, n)),
        E::CallMethod(o, m, args, _) => format!("{}.{}({})", sub(o, 18), m, args.iter().map(|x| print_expr(x, n)).collect::<Vec<_>>().join(", ")),
        E::AssignProp(o, p, v) => format!("{}.{} = {}", sub(o, 18), p, sub(v, 2)),
        E::AssignLocal(i, v) => format!("{} = {}", n.locals[*i].name, sub(v, 2)),
        E::AssignSubscript(i, idx, v) => format!("{}[{}] = {}", n.locals[*i].name, print_expr(idx, n), sub(v, 2)),
        E::ConsoleLog(lv, args) => format!("console.{}({})", lv, args.iter().map(|x| print_expr(x, n)).collect::<Vec<_>>().join(", ")),
        E::Raw(t, _) => t.clone(),
    }
}

pub fn print_stmts(ss: &[S], n: &Names, ind: usize, out: &mut String) {
    for s in ss {
        print_stmt(s, n, ind, out);
    }
}

pub fn print_stmt(s: &S, n: &Names, ind: usize, out: &mut String) {
    let pad = "    ".repeat(ind);
    match s {
        S::Expr(e) => {
            let t = print_expr(e, n);
            // an expression statement must not start with `{` or `function`
            out.push_str(&format!("{pad}{t};\n"));
        }
        S::Decl(i, is_const, annotated, init) => {
            let l = &n.locals[*i];
            let kw = if *is_const { "const" } else { "let" };
            let ann = if *annotated { format!(": {}", l.ty.qml_name()) } else { String::new() };
            match init {
                Some(e) => out.push_str(&format!("{pad}{kw} {}{ann} = {};\n", l.name, print_expr(e, n))),
                None => out.push_str(&format!("{pad}{kw} {}{ann};\n", l.name)),
            }
        }
        S::Block(ss) => {
            out.push_str(&format!("{pad}{{\n"));
            print_stmts(ss, n, ind + 1, out);
            out.push_str(&format!("{pad}}}\n"));
        }
        S::If(c, a, b) => {
            out.push_str(&format!("{pad}if ({})\n", print_expr(c, n)));
            print_arm(a, n, ind, out);
            if let Some(b) = b {
                out.push_str(&format!("{pad}else\n"));
                print_arm(b, n, ind, out);
            }
        }
        S::Switch(v, cases, default) => {
            out.push_str(&format!("{pad}switch ({}) {{\n", print_expr(v, n)));
            let nb = cases.len() + default.is_some() as usize;
            let mut ci = 0;
            for pos in 0..nb {
                match default {
                    Some((dp, body)) if *dp == pos => {
                        out.push_str(&format!("{pad}default:\n"));
                        print_stmts(body, n, ind + 1, out);
                    }
                    _ => {
                        let (label, body) = &cases[ci];
                        ci += 1;
                        out.push_str(&format!("{pad}case {}:\n", print_expr(label, n)));
                        print_stmts(body, n, ind + 1, out);
                    }
                }
            }
            out.push_str(&format!("{pad}}}\n"));
        }
        S::Break => out.push_str(&format!("{pad}break;\n")),
        S::Return(None) => out.push_str(&format!("{pad}return;\n")),
        S::Return(Some(e)) => out.push_str(&format!("{pad}return {};\n", print_expr(e, n))),
        S::Empty => out.push_str(&format!("{pad};\n")),
        S::Raw(t) => out.push_str(&format!("{pad}{t}\n")),
    }
}

fn print_arm(s: &S, n: &Names, ind: usize, out: &mut String) {
    match s {
        S::Block(_) => print_stmt(s, n, ind, out),
        _ => print_stmt(s, n, ind + 1, out),
    }
}

/// Text of a binding value / handler value.
pub fn print_program(p: &Program, objs: &[ObjDecl], ind: usize) -> String {
    let n = Names { objs, locals: &p.locals };
    let body = match &p.body {
        Body::Expr(e) => print_expr(e, &n),
        Body::Block(ss) => {
            let mut out = String::from("{\n");
            print_stmts(ss, &n, ind + 1, &mut out);
            out.push_str(&"    ".repeat(ind));
            out.push('}');
            out
        }
    };
    if p.params > 0 || (p.ty == T::Void && matches!(p.body, Body::Block(_)) && p.locals.iter().take(p.params).count() > 0) {
        let ps = p.locals[..p.params].iter().map(|l| format!("{}: {}", l.name, l.ty.qml_name())).collect::<Vec<_>>().join(", ");
        let b = match &p.body {
            Body::Expr(_) => format!("{{ {body} }}"),
            Body::Block(_) => body,
        };
        format!("function({ps}) {b}")
    } else {
        body
    }
}

// ---------------------------------------------------------------------------------------------
// reference semantics

#[derive(Clone, Debug, PartialEq)]
pub enum TraceItem {
    /// property write by the handler: (object, property, value)
    Set(usize, &'static str, V),
    /// method / slot call: (object, method, args)
    Call(usize, &'static str, Vec<V>),
    /// console.*: (level, args)
    Log(&'static str, Vec<V>),
}

pub struct Interp<'a> {
    pub objs: &'a mut Vec<ObjState>,
    pub this: usize,
    pub locals: Vec<Option<V>>,
    pub trace: Vec<TraceItem>,
    /// every property read: (object, property) in evaluation order
    pub reads: Vec<(usize, &'static str)>,
    pub steps: usize,
}

enum Flow {
    Next,
    Break,
    Return(V),
}

type R<X> = Result<X, Undef>;

pub fn tr_tag(s: &str) -> String {
    // the mock's QCoreApplication::translate is the same injective tagging function
    format!("\u{ab}{s}\u{bb}")
}

/// `QString::arg` as the mock implements it: replaces every occurrence of the lowest-numbered
/// place marker %1..%99; without a marker the string is returned unchanged.
pub fn qstring_arg(s: &str, a: &str) -> String {
    let cs: Vec<char> = s.chars().collect();
    let mut lowest: Option<u32> = None;
    let mut i = 0;
    let mut marks: Vec<(usize, usize, u32)> = vec![];
    while i < cs.len() {
        if cs[i] == '%' && i + 1 < cs.len() && cs[i + 1].is_ascii_digit() {
            let mut j = i + 1;
            let mut v = cs[j].to_digit(10).unwrap();
            j += 1;
            if j < cs.len() && cs[j].is_ascii_digit() {
                v = v * 10 + cs[j].to_digit(10).unwrap();
                j += 1;
            }
            if v >= 1 {
                marks.push((i, j, v));
                lowest = Some(lowest.map_or(v, |l: u32| l.min(v)));
                i = j;
                continue;
            }
        }
        i += 1;
    }
    let Some(low) = lowest else { return s.to_owned() };
    let mut out = String::new();
    let mut pos = 0;
    for (st, en, v) in marks {
        if v == low {
            out.extend(cs[pos..st].iter());
            out.push_str(a);
            pos = en;
        }
    }
    out.extend(cs[pos..].iter());
    out
}

fn utf16_order_differs(a: &str, b: &str) -> bool {
    a.chars().chain(b.chars()).any(|c| c as u32 >= 0xD800)
}

fn i32_range(v: i64) -> R<i64> {
    if v < i32::MIN as i64 || v > i32::MAX as i64 {
        Err(Undef::Overflow32)
    } else {
        Ok(v)
    }
}
fn u32_range(v: i64) -> R<i64> {
    if v < 0 || v > u32::MAX as i64 {
        Err(Undef::Overflow32)
    } else {
        Ok(v)
    }
}

impl Interp<'_> {
    fn tick(&mut self) -> R<()> {
        self.steps += 1;
        if self.steps > 100_000 {
            Err(Undef::Other("step budget"))
        } else {
            Ok(())
        }
    }

    fn obj_of(&mut self, e: &E) -> R<usize> {
        match self.eval(e)? {
            V::Ptr(Some(i)) => Ok(i),
            V::Ptr(None) => Err(Undef::NullDeref),
            _ => Err(Undef::Other("not a pointer")),
        }
    }

    pub fn eval(&mut self, e: &E) -> R<V> {
        self.tick()?;
        Ok(match e {
            E::Int(v, _) => V::Int(*v),
            E::UInt(v, _) => V::Uint(*v),
            E::Float(v, _) => V::Double(*v),
            E::Str(s, _) => V::Str(s.clone()),
            E::Bool(b) => V::Bool(*b),
            E::Null => V::Ptr(None),
            E::EmptyList(T::ListStr) => V::ListStr(vec![]),
            E::EmptyList(_) => V::ListInt(vec![]),
            E::EnumLit(v, T::Mode) => V::Mode(MODES.iter().position(|m| m == v).unwrap() as i64),
            E::EnumLit(v, _) => V::Opts(1 << OPTS.iter().position(|m| m == v).unwrap()),
            E::Obj(i) => V::Ptr(Some(*i)),
            E::This => V::Ptr(Some(self.this)),
            E::Prop(o, p, _) => {
                let i = self.obj_of(o)?;
                self.reads.push((i, p));
                self.objs[i].props.get(p).cloned().ok_or(Undef::Other("no such property"))?
            }
            E::ThisProp(p, _) => {
                self.reads.push((self.this, p));
                self.objs[self.this].props.get(p).cloned().ok_or(Undef::Other("no such property"))?
            }
            E::Local(i) => self.locals[*i].clone().ok_or(Undef::Unassigned)?,
            E::Paren(a) => self.eval(a)?,
            E::Un(op, a) => {
                let v = self.eval(a)?;
                match (op, v) {
                    (UnOp::Plus, v @ (V::Int(_) | V::Uint(_) | V::Double(_))) => v,
                    (UnOp::Minus, V::Int(x)) => V::Int(i32_range(-x)?),
                    (UnOp::Minus, V::Uint(x)) => V::Uint(u32_range(-x)?),
                    (UnOp::Minus, V::Double(x)) => V::Double(-x),
                    (UnOp::BitNot, V::Int(x)) => V::Int(!x),
                    (UnOp::BitNot, V::Uint(x)) => V::Uint((!(x as u32)) as i64),
                    (UnOp::Not, V::Bool(b)) => V::Bool(!b),
                    _ => return Err(Undef::Other("ill-typed unary")),
                }
            }
            E::Bin(op @ (BinOp::And | BinOp::Or), l, r) => {
                let V::Bool(a) = self.eval(l)? else { return Err(Undef::Other("ill-typed logical")) };
                if (*op == BinOp::And && !a) || (*op == BinOp::Or && a) {
                    V::Bool(a)
                } else {
                    let V::Bool(b) = self.eval(r)? else { return Err(Undef::Other("ill-typed logical")) };
                    V::Bool(b)
                }
            }
            E::Bin(op, l, r) => {
                let a = self.eval(l)?;
                let b = self.eval(r)?;
                bin(*op, a, b)?
            }
            E::Ternary(c, a, b) => {
                let V::Bool(c) = self.eval(c)? else { return Err(Undef::Other("ill-typed condition")) };
                if c {
                    self.eval(a)?
                } else {
                    self.eval(b)?
                }
            }
            E::Cast(a, t) => {
                let v = self.eval(a)?;
                cast(v, t)?
            }
            E::Max(a, b) | E::Min(a, b) => {
                let x = self.eval(a)?;
                let y = self.eval(b)?;
                let is_max = matches!(e, E::Max(..));
                // std::max(a, b) returns a unless a < b; std::min(a, b) returns a unless b < a
                let lt = |p: &V, q: &V| -> R<bool> {
                    match bin(BinOp::Lt, p.clone(), q.clone())? {
                        V::Bool(b) => Ok(b),
                        _ => Err(Undef::Other("ill-typed min/max")),
                    }
                };
                if is_max {
                    if lt(&x, &y)? { y } else { x }
                } else if lt(&y, &x)? {
                    y
                } else {
                    x
                }
            }
            E::Tr(s, _) => V::Str(tr_tag(s)),
            E::Arg(s, a) => {
                let V::Str(s) = self.eval(s)? else { return Err(Undef::Other("ill-typed arg")) };
                let a = match self.eval(a)? {
                    V::Str(x) => x,
                    V::Int(x) | V::Uint(x) => x.to_string(),
                    _ => return Err(Undef::Other("unsupported arg type")),
                };
                V::Str(qstring_arg(&s, &a))
            }
            E::IsEmpty(s) => match self.eval(s)? {
                V::Str(x) => V::Bool(x.is_empty()),
                V::ListInt(x) => V::Bool(x.is_empty()),
                V::ListStr(x) => V::Bool(x.is_empty()),
                _ => return Err(Undef::Other("ill-typed isEmpty")),
            },
            E::Subscript(l, i) => {
                let lv = self.eval(l)?;
                let idx = match self.eval(i)? {
                    V::Int(x) | V::Uint(x) => x,
                    _ => return Err(Undef::Other("ill-typed index")),
                };
                match lv {
                    V::ListInt(x) => V::Int(*usize::try_from(idx).ok().and_then(|k| x.get(k)).ok_or(Undef::OutOfRange)?),
                    V::ListStr(x) => V::Str(usize::try_from(idx).ok().and_then(|k| x.get(k)).ok_or(Undef::OutOfRange)?.clone()),
                    _ => return Err(Undef::Other("ill-typed subscript")),
                }
            }
            E::Array(xs) => {
                let vs: Vec<V> = xs.iter().map(|x| self.eval(x)).collect::<R<_>>()?;
                match vs.first() {
                    Some(V::Str(_)) => V::ListStr(vs.into_iter().map(|v| if let V::Str(s) = v { s } else { String::new() }).collect()),
                    _ => V::ListInt(vs.into_iter().map(|v| if let V::Int(i) | V::Uint(i) = v { i } else { 0 }).collect()),
                }
            }
            E::CallMethod(o, m, args, ret) => {
                // arguments are evaluated before the receiver (source order of the call syntax
                // does not matter: receivers are free of side effects by construction)
                let vs: Vec<V> = args.iter().map(|x| self.eval(x)).collect::<R<_>>()?;
                let i = self.obj_of(o)?;
                self.trace.push(TraceItem::Call(i, m, vs.clone()));
                match (*m, ret) {
                    ("twice", T::Int) => match vs.first() {
                        Some(V::Int(x)) => V::Int(i32_range(x * 2)?),
                        _ => return Err(Undef::Other("twice")),
                    },
                    _ => V::Void,
                }
            }
            E::AssignProp(o, p, v) => {
                let val = self.eval(v)?;
                let i = self.obj_of(o)?;
                self.trace.push(TraceItem::Set(i, p, val.clone()));
                self.objs[i].props.insert(p, val);
                V::Void
            }
            E::AssignLocal(i, v) => {
                let val = self.eval(v)?;
                self.locals[*i] = Some(val);
                V::Void
            }
            E::AssignSubscript(i, idx, v) => {
                let val = self.eval(v)?;
                let k = match self.eval(idx)? {
                    V::Int(x) | V::Uint(x) => x,
                    _ => return Err(Undef::Other("ill-typed index")),
                };
                let mut l = self.locals[*i].clone().ok_or(Undef::Unassigned)?;
                match (&mut l, val) {
                    (V::ListInt(xs), V::Int(x)) => *usize::try_from(k).ok().and_then(|k| xs.get_mut(k)).ok_or(Undef::OutOfRange)? = x,
                    (V::ListStr(xs), V::Str(x)) => *usize::try_from(k).ok().and_then(|k| xs.get_mut(k)).ok_or(Undef::OutOfRange)? = x,
                    _ => return Err(Undef::Other("ill-typed subscript assignment")),
                }
                self.locals[*i] = Some(l);
                V::Void
            }
            E::ConsoleLog(lv, args) => {
                let vs: Vec<V> = args.iter().map(|x| self.eval(x)).collect::<R<_>>()?;
                self.trace.push(TraceItem::Log(lv, vs));
                V::Void
            }
            E::Raw(..) => return Err(Undef::Other("raw text")),
        })
    }

    fn exec_list(&mut self, ss: &[S], last: &mut Option<V>) -> R<Flow> {
        for s in ss {
            match self.exec(s, last)? {
                Flow::Next => {}
                f => return Ok(f),
            }
        }
        Ok(Flow::Next)
    }

    fn exec(&mut self, s: &S, last: &mut Option<V>) -> R<Flow> {
        self.tick()?;
        match s {
            S::Expr(e) => {
                let v = self.eval(e)?;
                *last = Some(v);
                Ok(Flow::Next)
            }
            S::Decl(i, _, _, init) => {
                self.locals[*i] = match init {
                    Some(e) => Some(self.eval(e)?),
                    None => None,
                };
                Ok(Flow::Next)
            }
            S::Block(ss) => self.exec_list(ss, last),
            S::If(c, a, b) => {
                let V::Bool(c) = self.eval(c)? else { return Err(Undef::Other("ill-typed condition")) };
                if c {
                    self.exec(a, last)
                } else if let Some(b) = b {
                    self.exec(b, last)
                } else {
                    Ok(Flow::Next)
                }
            }
            S::Switch(v, cases, default) => {
                let x = self.eval(v)?;
                // labels are compared with == in source order of the case clauses
                let mut matched: Option<usize> = None;
                for (k, (label, _)) in cases.iter().enumerate() {
                    let l = self.eval(label)?;
                    if let V::Bool(true) = bin(BinOp::Eq, x.clone(), l)? {
                        matched = Some(k);
                        break;
                    }
                }
                // bodies in source order, default inserted at its position
                let nb = cases.len() + default.is_some() as usize;
                let mut bodies: Vec<&Vec<S>> = vec![];
                let mut case_pos = vec![];
                let mut ci = 0;
                let mut dpos = None;
                for pos in 0..nb {
                    match default {
                        Some((dp, body)) if *dp == pos => {
                            dpos = Some(pos);
                            bodies.push(body);
                        }
                        _ => {
                            case_pos.push(pos);
                            bodies.push(&cases[ci].1);
                            ci += 1;
                        }
                    }
                }
                let start = match matched {
                    Some(k) => Some(case_pos[k]),
                    None => dpos,
                };
                if let Some(st) = start {
                    for b in &bodies[st..] {
                        match self.exec_list(b, last)? {
                            Flow::Next => {}
                            Flow::Break => return Ok(Flow::Next),
                            f @ Flow::Return(_) => return Ok(f),
                        }
                    }
                }
                Ok(Flow::Next)
            }
            S::Break => Ok(Flow::Break),
            S::Return(None) => Ok(Flow::Return(V::Void)),
            S::Return(Some(e)) => Ok(Flow::Return(self.eval(e)?)),
            S::Empty => Ok(Flow::Next),
            S::Raw(_) => Err(Undef::Other("raw text")),
        }
    }

    /// Runs a program; returns its value (completion value or returned value).
    pub fn run(&mut self, p: &Program, args: &[V]) -> R<V> {
        self.locals = vec![None; p.locals.len()];
        for (i, a) in args.iter().enumerate().take(p.params) {
            self.locals[i] = Some(a.clone());
        }
        let v = match &p.body {
            Body::Expr(e) => self.eval(e)?,
            Body::Block(ss) => {
                let mut last = None;
                match self.exec_list(ss, &mut last)? {
                    Flow::Return(v) => v,
                    _ => last.unwrap_or(V::Void),
                }
            }
        };
        Ok(adapt(v, &p.ty))
    }
}

/// Literal pseudo-types adapt to the wanted type (integer literal -> uint, [] -> list type).
pub fn adapt(v: V, t: &T) -> V {
    match (v, t) {
        (V::Int(x), T::Uint) => V::Uint(x),
        (V::ListInt(x), T::ListStr) if x.is_empty() => V::ListStr(vec![]),
        (v, _) => v,
    }
}

fn unify(a: V, b: V) -> (V, V) {
    // integer literals evaluate to V::Int; next to a uint operand they are uint
    match (&a, &b) {
        (V::Uint(_), V::Int(y)) => (a.clone(), V::Uint(*y)),
        (V::Int(x), V::Uint(_)) => (V::Uint(*x), b.clone()),
        _ => (a, b),
    }
}

pub fn bin(op: BinOp, a: V, b: V) -> R<V> {
    use BinOp::*;
    let (a, b) = unify(a, b);
    Ok(match (op, a, b) {
        (Add | Sub | Mul | Div | Rem, V::Int(x), V::Int(y)) => V::Int(i32_range(int_arith(op, x, y)?)?),
        (Add | Sub | Mul | Div | Rem, V::Uint(x), V::Uint(y)) => V::Uint(u32_range(int_arith(op, x, y)?)?),
        (Add | Sub | Mul | Div | Rem, V::Double(x), V::Double(y)) => {
            let r = match op {
                Add => x + y,
                Sub => x - y,
                Mul => x * y,
                Div => x / y,
                _ => x % y, // fmod
            };
            if !r.is_finite() {
                return Err(Undef::NonFinite);
            }
            V::Double(r)
        }
        (Add, V::Str(x), V::Str(y)) => V::Str(x + &y),
        (BitAnd | BitXor | BitOr, V::Int(x), V::Int(y)) => V::Int(bit(op, x, y)),
        (BitAnd | BitXor | BitOr, V::Uint(x), V::Uint(y)) => V::Uint(bit(op, x, y)),
        (BitAnd | BitXor | BitOr, V::Bool(x), V::Bool(y)) => V::Bool(bit(op, x as i64, y as i64) != 0),
        (BitAnd | BitXor | BitOr, V::Opts(x), V::Opts(y)) => V::Opts(bit(op, x, y)),
        (Shl, V::Int(x), V::Int(y) | V::Uint(y)) => {
            if !(0..32).contains(&y) || x < 0 {
                return Err(Undef::BadShift);
            }
            V::Int(i32_range(x << y).map_err(|_| Undef::BadShift)?)
        }
        (Shl, V::Uint(x), V::Int(y) | V::Uint(y)) => {
            if !(0..32).contains(&y) {
                return Err(Undef::BadShift);
            }
            V::Uint(u32_range(x << y).map_err(|_| Undef::BadShift)?)
        }
        (Shr, V::Int(x), V::Int(y) | V::Uint(y)) => {
            if !(0..32).contains(&y) {
                return Err(Undef::BadShift);
            }
            V::Int(x >> y) // arithmetic
        }
        (Shr, V::Uint(x), V::Int(y) | V::Uint(y)) => {
            if !(0..32).contains(&y) {
                return Err(Undef::BadShift);
            }
            V::Uint(x >> y)
        }
        (Eq | StrictEq | Ne | StrictNe | Lt | Le | Gt | Ge, a, b) => {
            let ord: Option<std::cmp::Ordering> = match (&a, &b) {
                (V::Int(x), V::Int(y)) | (V::Uint(x), V::Uint(y)) | (V::Mode(x), V::Mode(y)) | (V::Opts(x), V::Opts(y)) => Some(x.cmp(y)),
                (V::Double(x), V::Double(y)) => x.partial_cmp(y),
                (V::Bool(x), V::Bool(y)) => Some(x.cmp(y)),
                (V::Str(x), V::Str(y)) => {
                    if matches!(op, Lt | Le | Gt | Ge) && utf16_order_differs(x, y) {
                        return Err(Undef::StringOrderAmbiguous);
                    }
                    Some(x.cmp(y))
                }
                (V::Ptr(x), V::Ptr(y)) => {
                    if matches!(op, Lt | Le | Gt | Ge) {
                        return Err(Undef::Other("pointer ordering"));
                    }
                    Some(if x == y { std::cmp::Ordering::Equal } else { std::cmp::Ordering::Less })
                }
                _ => return Err(Undef::Other("ill-typed comparison")),
            };
            let Some(o) = ord else { return Err(Undef::NonFinite) };
            use std::cmp::Ordering::*;
            V::Bool(match op {
                Eq | StrictEq => o == Equal,
                Ne | StrictNe => o != Equal,
                Lt => o == Less,
                Le => o != Greater,
                Gt => o == Greater,
                _ => o != Less,
            })
        }
        _ => return Err(Undef::Other("ill-typed binary")),
    })
}

fn int_arith(op: BinOp, x: i64, y: i64) -> R<i64> {
    Ok(match op {
        BinOp::Add => x + y,
        BinOp::Sub => x - y,
        BinOp::Mul => x.checked_mul(y).ok_or(Undef::Overflow32)?,
        BinOp::Div => {
            if y == 0 {
                return Err(Undef::DivByZero);
            }
            x / y // truncation toward zero
        }
        _ => {
            if y == 0 {
                return Err(Undef::DivByZero);
            }
            // INT_MIN % -1 overflows in 32-bit arithmetic just like INT_MIN / -1 (undefined in C++)
            if x == i32::MIN as i64 && y == -1 {
                return Err(Undef::Overflow32);
            }
            x % y // sign of the dividend
        }
    })
}

fn bit(op: BinOp, x: i64, y: i64) -> i64 {
    match op {
        BinOp::BitAnd => x & y,
        BinOp::BitXor => x ^ y,
        _ => x | y,
    }
}

pub fn cast(v: V, t: &T) -> R<V> {
    Ok(match (v, t) {
        (v, T::Void) => {
            let _ = v;
            V::Void
        }
        (V::Variant(inner), t) => {
            // QVariant::value<T>() of a variant that holds exactly a T
            if inner.ty_matches(t) {
                *inner
            } else {
                return Err(Undef::Other("variant holds another type"));
            }
        }
        (V::Int(x), T::Int) => V::Int(x),
        (V::Int(x), T::Uint) => V::Uint(u32_range(x).map_err(|_| Undef::CastOutOfRange)?),
        (V::Int(x), T::Double) => V::Double(x as f64),
        (V::Uint(x), T::Uint) => V::Uint(x),
        (V::Uint(x), T::Int) => V::Int(i32_range(x).map_err(|_| Undef::CastOutOfRange)?),
        (V::Uint(x), T::Double) => V::Double(x as f64),
        (V::Double(x), T::Double) => V::Double(x),
        (V::Double(x), T::Int) => {
            let tr = x.trunc();
            if !(tr >= i32::MIN as f64 && tr <= i32::MAX as f64) {
                return Err(Undef::CastOutOfRange);
            }
            V::Int(tr as i64)
        }
        (V::Double(x), T::Uint) => {
            let tr = x.trunc();
            if !(tr >= 0.0 && tr <= u32::MAX as f64) {
                return Err(Undef::CastOutOfRange);
            }
            V::Uint(tr as i64)
        }
        (V::Bool(b), T::Int) => V::Int(b as i64),
        (V::Bool(b), T::Uint) => V::Uint(b as i64),
        (V::Mode(x), T::Int) => V::Int(x),
        (V::Mode(x), T::Uint) => V::Uint(x),
        (V::Opts(x), T::Int) => V::Int(x),
        (V::Opts(x), T::Uint) => V::Uint(x),
        (V::Ptr(p), T::Ptr(_)) => V::Ptr(p),
        (v, t) if v.ty_matches(t) => v,
        _ => return Err(Undef::Other("unsupported cast")),
    })
}

// ---------------------------------------------------------------------------------------------
// literal speller (value -> ECMAScript spelling)

/// inserts `_` separators between digits at legal positions
fn with_separators(ch: &mut Chooser, digits: &str) -> String {
    let cs: Vec<char> = digits.chars().collect();
    let mut out = String::new();
    for (i, c) in cs.iter().enumerate() {
        out.push(*c);
        if i + 1 < cs.len() && ch.chance(1, 4) {
            out.push('_');
        }
    }
    out
}

/// A spelling of the non-negative integer `v`.
pub fn spell_uint(ch: &mut Chooser, v: u64) -> String {
    let form = ch.weighted(&[55, 12, 8, 8, 6, 5, 6]);
    match form {
        0 => v.to_string(),
        1 => {
            ch.label("lit-hex");
            let d = if ch.chance(1, 2) { format!("{v:x}") } else { format!("{v:X}") };
            let d = if ch.chance(1, 5) { with_separators(ch, &d) } else { d };
            format!("{}{}", if ch.chance(1, 2) { "0x" } else { "0X" }, d)
        }
        2 => {
            ch.label("lit-octal");
            let d = format!("{v:o}");
            let d = if ch.chance(1, 5) { with_separators(ch, &d) } else { d };
            format!("{}{}", if ch.chance(1, 2) { "0o" } else { "0O" }, d)
        }
        3 => {
            ch.label("lit-binary");
            let d = format!("{v:b}");
            let d = if ch.chance(1, 4) { with_separators(ch, &d) } else { d };
            format!("{}{}", if ch.chance(1, 2) { "0b" } else { "0B" }, d)
        }
        4 if v > 0 => {
            // legacy octal: leading zero, only digits 0-7
            ch.label("lit-legacy-octal");
            format!("0{v:o}")
        }
        5 if v >= 8 && v.to_string().contains(['8', '9']) => {
            // legacy "decimal with leading zero": 089 is 89
            ch.label("lit-legacy-decimal");
            format!("0{v}")
        }
        6 if v >= 10 => {
            ch.label("lit-separators");
            with_separators(ch, &v.to_string())
        }
        _ => v.to_string(),
    }
}

/// A double value and a spelling for it (the value is what a correctly rounding reader assigns
/// to the canonical form of the spelling).
pub fn spell_float(ch: &mut Chooser) -> (f64, String) {
    // digits, point position, exponent
    let int_part: String = match ch.weighted(&[30, 40, 20, 10]) {
        0 => "0".into(),
        1 => (1 + ch.below(99)).to_string(),
        2 => (ch.below(100000)).to_string(),
        _ => "123456789012345678".into(),
    };
    let frac_part: String = match ch.weighted(&[20, 35, 25, 20]) {
        0 => "0".into(),
        1 => (*ch.pick(&["5", "25", "125", "75", "0625"])).into(),
        2 => (ch.below(1000)).to_string(),
        _ => "1".repeat(1 + ch.below(17)),
    };
    let exp: Option<i32> = match ch.weighted(&[60, 30, 10]) {
        0 => None,
        1 => Some(ch.range(-5, 5) as i32),
        _ => Some(*ch.pick(&[-320, -310, -100, 20, 100, 300, 308])),
    };
    let canonical = format!("{int_part}.{frac_part}e{}", exp.unwrap_or(0));
    let value: f64 = canonical.parse().unwrap();
    let shape = ch.weighted(&[50, 15, 15, 20]);
    let mantissa = match shape {
        1 if int_part == "0" => {
            ch.label("lit-float-no-leading-digit");
            format!(".{frac_part}")
        }
        2 if frac_part == "0" => {
            ch.label("lit-float-trailing-point");
            format!("{int_part}.")
        }
        3 if frac_part == "0" && exp.is_some() => {
            ch.label("lit-float-exponent-only");
            int_part.clone()
        }
        _ => format!("{int_part}.{frac_part}"),
    };
    let text = match exp {
        None => mantissa,
        Some(e) => {
            ch.label("lit-float-exponent");
            let sign = if e < 0 { "-" } else if ch.chance(1, 2) { "+" } else { "" };
            format!("{mantissa}e{sign}{}", e.abs())
        }
    };
    (value, text)
}

/// A spelling of the string `s` as a JS string literal, choosing per character between the raw
/// character and the escape forms of the language.
pub fn spell_string(ch: &mut Chooser, s: &str) -> String {
    let q = if ch.chance(1, 3) { '\'' } else { '"' };
    let mut out = String::new();
    out.push(q);
    let cs: Vec<char> = s.chars().collect();
    for (i, &c) in cs.iter().enumerate() {
        let next_is_digit = cs.get(i + 1).map(|d| d.is_ascii_digit()).unwrap_or(false);
        let must_escape = c == q || c == '\\' || c == '\n' || c == '\r' || c == '\u{2028}' || c == '\u{2029}' || (c as u32) < 0x20 || c == '\u{7f}';
        let simple: Option<&str> = match c {
            '\n' => Some("\\n"),
            '\r' => Some("\\r"),
            '\t' => Some("\\t"),
            '\u{8}' => Some("\\b"),
            '\u{c}' => Some("\\f"),
            '\u{b}' => Some("\\v"),
            '\0' if !next_is_digit => Some("\\0"),
            '\'' => Some("\\'"),
            '"' => Some("\\\""),
            '\\' => Some("\\\\"),
            _ => None,
        };
        let forms = ch.weighted(&[if must_escape { 0 } else { 70 }, if simple.is_some() { 40 } else { 0 }, if (c as u32) < 0x100 { 8 } else { 0 }, if (c as u32) < 0x10000 { 8 } else { 0 }, 8]);
        match forms {
            0 => out.push(c),
            1 => {
                ch.label("lit-str-simple-escape");
                out.push_str(simple.unwrap())
            }
            2 => {
                ch.label("lit-str-x-escape");
                out.push_str(&format!("\\x{:02x}", c as u32))
            }
            3 => {
                ch.label("lit-str-u4-escape");
                out.push_str(&if ch.chance(1, 2) { format!("\\u{:04x}", c as u32) } else { format!("\\u{:04X}", c as u32) })
            }
            _ => {
                ch.label("lit-str-u-brace-escape");
                out.push_str(&format!("\\u{{{:x}}}", c as u32))
            }
        }
    }
    out.push(q);
    out
}

/// Strings for literals: mostly short ASCII, sometimes quotes/backslashes/controls/non-ASCII.
pub fn gen_lit_string(ch: &mut Chooser, nasty: bool) -> String {
    gen_lit_string_in(ch, nasty, false)
}

/// `xml_only`: only characters XML 1.0 can carry (for strings that end up in the .ui)
pub fn gen_lit_string_in(ch: &mut Chooser, nasty: bool, xml_only: bool) -> String {
    if !nasty || ch.chance(2, 3) {
        return (*ch.pick(&["", "a", "b", "ab", "x y", "%1", "%1-%2", "Z", "hello", "0", "é", "~"])).to_owned();
    }
    let n = 1 + ch.below(6);
    (0..n)
        .map(|_| match ch.weighted(&[40, 20, 15, 15, 10]) {
            0 => (0x20 + ch.below(95) as u8) as char,
            1 => *ch.pick(&['"', '\'', '\\', '%', '?', '/', '<', '&']),
            2 if xml_only => *ch.pick(&['\n', '\t', '\r', '\u{7f}', '\u{85}']),
            2 => *ch.pick(&['\n', '\t', '\r', '\0', '\u{1}', '\u{8}', '\u{b}', '\u{c}', '\u{1b}', '\u{7f}']),
            3 => char::from_u32(0xA0 + ch.below(0x500) as u32).unwrap_or('é'),
            _ if xml_only => *ch.pick(&['\u{2028}', '\u{fffd}', '😀', '𝒳', '\u{d7ff}', '\u{e000}', '日']),
            _ => *ch.pick(&['\u{2028}', '\u{ffff}', '😀', '𝒳', '\u{d7ff}', '\u{e000}', '日']),
        })
        .collect()
}

// ---------------------------------------------------------------------------------------------
// mutable traversal and the non-finite constant filter

/// Pre-order traversal; `f` returns true when it replaced the node (children are then skipped).
pub fn map_expr(e: &mut E, f: &mut dyn FnMut(&mut E) -> bool) {
    if f(e) {
        return;
    }
    match e {
        E::Prop(a, ..) | E::Un(_, a) | E::Cast(a, _) | E::IsEmpty(a) | E::Paren(a) | E::AssignLocal(_, a) => map_expr(a, f),
        E::Bin(_, a, b) | E::Max(a, b) | E::Min(a, b) | E::Arg(a, b) | E::Subscript(a, b) | E::AssignProp(a, _, b) | E::AssignSubscript(_, a, b) => {
            map_expr(a, f);
            map_expr(b, f);
        }
        E::Ternary(a, b, c) => {
            map_expr(a, f);
            map_expr(b, f);
            map_expr(c, f);
        }
        E::Array(xs) | E::ConsoleLog(_, xs) => xs.iter_mut().for_each(|x| map_expr(x, f)),
        E::CallMethod(o, _, xs, _) => {
            map_expr(o, f);
            xs.iter_mut().for_each(|x| map_expr(x, f));
        }
        _ => {}
    }
}

pub fn map_stmt(s: &mut S, f: &mut dyn FnMut(&mut E) -> bool) {
    match s {
        S::Expr(e) => map_expr(e, f),
        S::Decl(_, _, _, Some(e)) => map_expr(e, f),
        S::Block(ss) => ss.iter_mut().for_each(|x| map_stmt(x, f)),
        S::If(c, a, b) => {
            map_expr(c, f);
            map_stmt(a, f);
            if let Some(b) = b {
                map_stmt(b, f);
            }
        }
        S::Switch(v, cases, def) => {
            map_expr(v, f);
            for (l, b) in cases {
                map_expr(l, f);
                b.iter_mut().for_each(|x| map_stmt(x, f));
            }
            if let Some((_, b)) = def {
                b.iter_mut().for_each(|x| map_stmt(x, f));
            }
        }
        S::Return(Some(e)) => map_expr(e, f),
        _ => {}
    }
}

fn literal_only(e: &E) -> bool {
    match e {
        E::Int(..) | E::UInt(..) | E::Float(..) | E::Bool(_) => true,
        E::Paren(a) | E::Un(_, a) => literal_only(a),
        E::Cast(a, t) => t.is_numeric() && literal_only(a),
        E::Bin(_, a, b) | E::Max(a, b) | E::Min(a, b) => literal_only(a) && literal_only(b),
        _ => false,
    }
}

/// Replaces every literal-only numeric sub-tree that folds to a non-finite double (`1.0 / 0.0`,
/// `2.5 % 0.0`) by `1.5`: such constants are printed as `inf` / `NaN` in the support code (known
/// finding of C16, probed there); they may sit in branches no state executes. Returns the count.
pub fn avoid_nonfinite_constants(p: &mut Program) -> usize {
    fn eval_lit(e: &E) -> Result<V, Undef> {
        let mut objs: Vec<ObjState> = vec![];
        let mut it = Interp { objs: &mut objs, this: 0, locals: vec![], trace: vec![], reads: vec![], steps: 0 };
        it.eval(e)
    }
    let mut total = 0;
    for _ in 0..6 {
        let mut n = 0;
        // minimal offenders only: a double arithmetic node whose operands are fine but whose own
        // result is not finite (its static type is double, so the replacement is well-typed)
        let mut f = |e: &mut E| -> bool {
            let E::Bin(op, a, b) = &*e else { return false };
            if !matches!(op, BinOp::Add | BinOp::Sub | BinOp::Mul | BinOp::Div | BinOp::Rem) || !literal_only(e) {
                return false;
            }
            let fine = |x: &E| matches!(eval_lit(x), Ok(V::Double(d)) if d.is_finite());
            if fine(a) && fine(b) && matches!(eval_lit(e), Err(Undef::NonFinite)) {
                *e = E::Float(1.5, "1.5".into());
                n += 1;
                return true;
            }
            false
        };
        match &mut p.body {
            Body::Expr(e) => map_expr(e, &mut f),
            Body::Block(ss) => ss.iter_mut().for_each(|s| map_stmt(s, &mut f)),
        }
        total += n;
        if n == 0 {
            break;
        }
    }
    total
}
