//! Type-directed generator for the language L (DESIGN.md section 2.4): binding bodies in
//! tail-value form and handler bodies with effects. Preconditions are met by construction.

use crate::common::Chooser;
use crate::lang::*;
use std::collections::BTreeSet;

#[derive(Clone, Debug, Default)]
pub struct World {
    pub objs: Vec<ObjDecl>,
}

impl World {
    pub fn of_class(&self, base: &str) -> Vec<usize> {
        self.objs.iter().enumerate().filter(|(_, o)| derives(o.class, base)).map(|(i, _)| i).collect()
    }
    pub fn exactly(&self, class: &str) -> Vec<usize> {
        self.objs.iter().enumerate().filter(|(_, o)| o.class == class).map(|(i, _)| i).collect()
    }
}

/// Constructs that hit known findings; off in the main generators, on in the probes.
#[derive(Clone, Copy, Debug, Default)]
pub struct Allow {
    /// `%` on double operands (F2b)
    pub rem_double: bool,
    /// `& ^ |` `~` on the plain enum (F2c)
    pub enum_bitwise: bool,
    /// control characters and non-BMP in dynamic string literals (F2a)
    pub nasty_strings: bool,
    /// `let` directly inside a case body (F11)
    pub let_in_case: bool,
    /// Math.min/max with a uint operand and an integer literal
    pub uint_minmax_literal: bool,
    /// the `<` operator (the parser dependency may take it for the start of type arguments)
    pub less_than: bool,
    /// favour pointer chains, objects through locals and ternaries (C02)
    pub pointer_heavy: bool,
}

#[derive(Clone, Debug)]
pub struct GenOpts {
    pub allow: Allow,
    pub max_expr_depth: usize,
    pub max_stmt_depth: usize,
    /// statements not in tail-value form (C06): trailing declarations, empty statements, dead code
    pub loose_tail: bool,
}

impl Default for GenOpts {
    fn default() -> Self {
        GenOpts { allow: Allow::default(), max_expr_depth: 4, max_stmt_depth: 3, loose_tail: false }
    }
}

pub struct PGen<'c, 'a, 'w> {
    pub ch: &'c mut Chooser<'a>,
    pub world: &'w World,
    pub this: usize,
    pub locals: Vec<LocalInfo>,
    /// visible locals, innermost last
    scope: Vec<usize>,
    assigned: BTreeSet<usize>,
    consts: BTreeSet<usize>,
    pub opts: GenOpts,
    nodes: usize,
    handler: bool,
    /// property of `this` that must not be read (the binding target)
    avoid_this_prop: Option<&'static str>,
    /// inside a switch (a `break` is legal)
    in_switch: usize,
    /// a local the next tail value should depend on (set by statements that test scoping)
    must_use: Option<usize>,
    /// type of the tail value the current statement list leads to
    tail_ty: Option<T>,
}

fn lit_i(v: i64) -> E {
    if v < 0 {
        E::Un(UnOp::Minus, Box::new(E::Int(-v, (-v).to_string())))
    } else {
        E::Int(v, v.to_string())
    }
}

const DOUBLES: &[(f64, &str)] = &[
    (0.0, "0.0"), (0.5, "0.5"), (1.0, "1.0"), (2.5, "2.5"), (0.25, ".25"), (3.0, "3."), (10.0, "1e1"), (0.125, "1.25e-1"), (100.0, "1.0e+2"), (7.75, "7.75"),
    (0.1, "0.1"), (1.5, "1.5"), (1000.0, "1e3"), (2.0, "2.0"),
];

impl<'c, 'a, 'w> PGen<'c, 'a, 'w> {
    pub fn new(ch: &'c mut Chooser<'a>, world: &'w World, this: usize, opts: GenOpts) -> Self {
        PGen { ch, world, this, locals: vec![], scope: vec![], assigned: BTreeSet::new(), consts: BTreeSet::new(), opts, nodes: 0, handler: false, avoid_this_prop: None, in_switch: 0, must_use: None, tail_ty: None }
    }

    fn budget_left(&self) -> bool {
        self.nodes < 40
    }

    // ---- leaves -------------------------------------------------------------------------

    fn src_objs(&self) -> Vec<usize> {
        self.world.of_class("VSrc")
    }

    /// an expression of pointer type to a VSrc-derived object (free of side effects)
    fn src_ptr(&mut self, d: usize) -> Option<E> {
        let srcs = self.src_objs();
        if srcs.is_empty() {
            return None;
        }
        let locals: Vec<usize> = self.scope.iter().copied().filter(|i| self.assigned.contains(i) && self.locals[*i].ty == T::Ptr("VSrc")).collect();
        let k = if self.opts.allow.pointer_heavy {
            self.ch.weighted(&[25, if d > 0 { 45 } else { 0 }, if locals.is_empty() { 0 } else { 25 }, if d > 0 { 15 } else { 0 }])
        } else {
            self.ch.weighted(&[55, if d > 0 { 25 } else { 0 }, if locals.is_empty() { 0 } else { 12 }, if d > 0 { 8 } else { 0 }])
        };
        self.nodes += 1;
        Some(match k {
            0 => E::Obj(*self.ch.pick(&srcs)),
            1 => {
                self.ch.label("pointer-chain");
                let inner = self.src_ptr(d - 1)?;
                E::Prop(Box::new(inner), *self.ch.pick(&["p0", "p1"]), T::Ptr("VSrc"))
            }
            2 => {
                self.ch.label("object-through-local");
                E::Local(*self.ch.pick(&locals))
            }
            _ => {
                // ternary-selected object; both arms must have exactly the same class
                let exact = self.world.exactly("VSrc");
                if exact.len() < 2 {
                    return Some(E::Obj(*self.ch.pick(&srcs)));
                }
                self.ch.label("object-through-ternary");
                let c = self.expr(&T::Bool, d - 1);
                let a = *self.ch.pick(&exact);
                let b = *self.ch.pick(&exact);
                E::Paren(Box::new(E::Ternary(Box::new(c), Box::new(E::Obj(a)), Box::new(E::Obj(b)))))
            }
        })
    }

    /// makes a pointer expression have the static type VSrc* exactly
    fn exactly_vsrc(&mut self, e: E) -> E {
        match &e {
            E::Obj(i) if self.world.objs[*i].class != "VSrc" => {
                self.ch.label("pointer-upcast");
                E::Cast(Box::new(e), T::Ptr("VSrc"))
            }
            _ => e,
        }
    }

    fn prop_of(&mut self, names: &[&'static str], t: &T, d: usize) -> Option<E> {
        // implicit-this property when the host is a source object
        let this_class = self.world.objs[self.this].class;
        if is_src_class(this_class) && self.ch.chance(1, 6) {
            let n = *self.ch.pick(names);
            if Some(n) != self.avoid_this_prop {
                self.ch.label("implicit-this-property");
                return Some(if self.ch.chance(1, 2) { E::ThisProp(n, t.clone()) } else { E::Prop(Box::new(E::This), n, t.clone()) });
            }
        }
        let o = self.src_ptr(d.min(2))?;
        Some(E::Prop(Box::new(o), *self.ch.pick(names), t.clone()))
    }

    fn local_of(&mut self, t: &T) -> Option<E> {
        let c: Vec<usize> = self.scope.iter().copied().filter(|i| self.assigned.contains(i) && self.locals[*i].ty == *t).collect();
        if c.is_empty() {
            None
        } else {
            self.ch.label("reads-local");
            Some(E::Local(*self.ch.pick(&c)))
        }
    }

    fn int_literal(&mut self) -> E {
        let v: i64 = match self.ch.weighted(&[50, 25, 15, 10]) {
            0 => self.ch.below(10) as i64,
            1 => self.ch.below(200) as i64,
            2 => -(1 + self.ch.below(20) as i64),
            _ => *self.ch.pick(&[255i64, 256, 1000, 65535, -128, 32767]),
        };
        if v >= 0 && self.ch.chance(1, 8) {
            let s = spell_uint(self.ch, v as u64);
            E::Int(v, s)
        } else {
            lit_i(v)
        }
    }

    /// literal-only sub-tree (folded at translation time) of int type with a value in i32
    fn folded_int(&mut self) -> E {
        self.ch.label("folded-subtree");
        for _ in 0..4 {
            let a = self.int_literal();
            let b = self.int_literal();
            let op = *self.ch.pick(&[BinOp::Add, BinOp::Sub, BinOp::Mul, BinOp::Rem, BinOp::Div, BinOp::Shl, BinOp::Shr, BinOp::BitAnd, BinOp::BitOr, BinOp::BitXor]);
            let e = match self.ch.below(4) {
                0 => E::Un(UnOp::BitNot, Box::new(a)),
                1 => E::Un(UnOp::Minus, Box::new(E::Paren(Box::new(E::Bin(op, Box::new(a), Box::new(b)))))),
                _ => E::Bin(op, Box::new(a), Box::new(b)),
            };
            // keep it defined in both worlds: value within i32 under 64-bit folding
            if let Ok(crate::checks::c03::CV::Int(v)) = crate::checks::c03::ceval(&e) {
                if v >= i32::MIN as i64 && v <= i32::MAX as i64 && interp_agrees(&e, v) {
                    return E::Paren(Box::new(e));
                }
            }
        }
        self.int_literal()
    }

    fn str_literal(&mut self) -> E {
        let s = gen_lit_string(self.ch, self.opts.allow.nasty_strings);
        let sp = if self.opts.allow.nasty_strings { spell_string(self.ch, &s) } else { crate::qml::js_string(&s) };
        E::Str(s, sp)
    }

    // ---- expressions ------------------------------------------------------------------------

    pub fn expr(&mut self, t: &T, d: usize) -> E {
        self.nodes += 1;
        let leaf = d == 0 || !self.budget_left() || self.ch.chance(1, 4);
        if leaf {
            return self.leaf(t, d);
        }
        let e = match t {
            T::Int => self.int_expr(d),
            T::Uint => self.uint_expr(d),
            T::Double => self.double_expr(d),
            T::Bool => self.bool_expr(d),
            T::Str => self.str_expr(d),
            T::Mode | T::Opts | T::Ptr(_) | T::ListInt | T::ListStr | T::Variant => {
                if self.ch.chance(1, 3) {
                    let c = self.expr(&T::Bool, d - 1);
                    let a = self.expr(t, d - 1);
                    let b = self.expr(t, d - 1);
                    // both arms of a pointer ternary need exactly one class: use leaves of the same kind
                    if matches!(t, T::Ptr(_)) {
                        return self.leaf(t, d);
                    }
                    self.ch.label("ternary");
                    E::Ternary(Box::new(c), Box::new(a), Box::new(b))
                } else if *t == T::Opts && self.ch.chance(1, 2) {
                    self.ch.label("flag-operation");
                    let op = *self.ch.pick(&[BinOp::BitOr, BinOp::BitAnd, BinOp::BitXor]);
                    let a = self.expr(t, d - 1);
                    let b = self.expr(t, d - 1);
                    E::Bin(op, Box::new(a), Box::new(b))
                } else if *t == T::Mode && self.opts.allow.enum_bitwise && self.ch.chance(1, 2) {
                    let a = self.expr(t, d - 1);
                    let b = self.expr(t, d - 1);
                    E::Bin(BinOp::BitOr, Box::new(a), Box::new(b))
                } else {
                    self.leaf(t, d)
                }
            }
            T::Void => E::Cast(Box::new(self.expr(&T::Int, d - 1)), T::Void),
        };
        if self.ch.chance(1, 12) {
            E::Paren(Box::new(e))
        } else {
            e
        }
    }

    fn leaf(&mut self, t: &T, d: usize) -> E {
        if let Some(l) = self.ch.chance(1, 3).then(|| self.local_of(t)).flatten() {
            return l;
        }
        let dynamic = self.ch.chance(2, 3);
        match t {
            T::Int => {
                if dynamic {
                    if self.ch.chance(1, 8) {
                        // list subscript with a small literal index
                        if let Some(l) = self.prop_of(&["il0"], &T::ListInt, d) {
                            self.ch.label("list-subscript");
                            return E::Subscript(Box::new(l), Box::new(lit_i(self.ch.below(3) as i64)));
                        }
                    }
                    if let Some(p) = self.prop_of(&["i0", "i1", "ov", "ro"], &T::Int, d) {
                        return p;
                    }
                }
                self.int_literal()
            }
            T::Uint => {
                if dynamic {
                    if let Some(p) = self.prop_of(&["u0"], &T::Uint, d) {
                        return p;
                    }
                }
                let v = match self.ch.weighted(&[70, 20, 10]) {
                    0 => self.ch.below(50) as i64,
                    1 => self.ch.below(100000) as i64,
                    _ => *self.ch.pick(&[2147483648i64, 4294967295, 65536]),
                };
                let s = if self.ch.chance(1, 8) { spell_uint(self.ch, v as u64) } else { v.to_string() };
                E::UInt(v, s)
            }
            T::Double => {
                if dynamic {
                    if let Some(p) = self.prop_of(&["d0", "d1", "r0"], &T::Double, d) {
                        return p;
                    }
                }
                let (v, s) = *self.ch.pick(DOUBLES);
                E::Float(v, s.to_owned())
            }
            T::Bool => {
                if dynamic {
                    if let Some(p) = self.prop_of(&["b0", "b1"], &T::Bool, d) {
                        return p;
                    }
                }
                E::Bool(self.ch.chance(1, 2))
            }
            T::Str => {
                if dynamic {
                    if self.ch.chance(1, 8) {
                        if let Some(l) = self.prop_of(&["sl0"], &T::ListStr, d) {
                            self.ch.label("list-subscript");
                            return E::Subscript(Box::new(l), Box::new(lit_i(self.ch.below(3) as i64)));
                        }
                    }
                    if let Some(p) = self.prop_of(&["s0", "s1"], &T::Str, d) {
                        return p;
                    }
                }
                if self.ch.chance(1, 6) {
                    self.ch.label("qsTr");
                    let s = gen_lit_string(self.ch, false);
                    let sp = crate::qml::js_string(&s);
                    return E::Tr(s, sp);
                }
                self.str_literal()
            }
            T::Mode => {
                if dynamic {
                    if let Some(p) = self.prop_of(&["e0"], &T::Mode, d) {
                        return p;
                    }
                }
                E::EnumLit(*self.ch.pick(MODES), T::Mode)
            }
            T::Opts => {
                if dynamic {
                    if let Some(p) = self.prop_of(&["f0"], &T::Opts, d) {
                        return p;
                    }
                }
                E::EnumLit(*self.ch.pick(OPTS), T::Opts)
            }
            T::Ptr("VSrc") => match self.src_ptr(d.min(2)) {
                // value positions need exactly VSrc* (no implicit upcast outside assignment):
                // objects of a derived class are upcast explicitly
                Some(e) if dynamic => self.exactly_vsrc(e),
                _ => E::Null,
            },
            T::Ptr(_) => {
                // QWidget*: w0 of a source, or an explicit upcast of a source object
                if dynamic && self.ch.chance(1, 2) {
                    if let Some(p) = self.prop_of(&["w0"], &T::Ptr("QWidget"), d) {
                        return p;
                    }
                }
                match self.src_ptr(0) {
                    Some(e) if self.ch.chance(3, 4) => {
                        self.ch.label("pointer-upcast");
                        E::Cast(Box::new(e), T::Ptr("QWidget"))
                    }
                    _ => E::Null,
                }
            }
            T::ListInt => {
                if dynamic {
                    if let Some(p) = self.prop_of(&["il0"], &T::ListInt, d) {
                        return p;
                    }
                }
                // `[]` has no element type of its own: it is only generated where the context
                // fixes the type (whole value of a QStringList binding)
                let n = 1 + self.ch.below(3);
                self.ch.label("array-literal");
                let mut xs = vec![];
                for _ in 0..n {
                    // at least one non-literal element keeps it a run-time list
                    xs.push(self.expr(&T::Int, d.saturating_sub(1).min(1)));
                }
                E::Array(xs)
            }
            T::ListStr => {
                if dynamic {
                    if let Some(p) = self.prop_of(&["sl0"], &T::ListStr, d) {
                        return p;
                    }
                }
                let n = 1 + self.ch.below(2);
                self.ch.label("array-literal");
                // a constant list may not mix qsTr and bare strings: keep the list a run-time one
                let mut xs = vec![self.prop_of(&["s0", "s1"], &T::Str, 0).unwrap_or(E::Str("k".into(), "\"k\"".into()))];
                for _ in 0..n {
                    xs.push(self.expr(&T::Str, d.saturating_sub(1).min(1)));
                }
                if matches!(xs[0], E::Str(..)) {
                    xs.truncate(1);
                }
                E::Array(xs)
            }
            T::Variant => self.prop_of(&["v0"], &T::Variant, d).unwrap_or(E::Null),
            T::Void => E::Cast(Box::new(lit_i(0)), T::Void),
        }
    }

    fn int_expr(&mut self, d: usize) -> E {
        let k = self.ch.weighted(&[18, 8, 8, 8, 7, 7, 6, 8, 6, 6, 6, 6, 6]);
        match k {
            0 => {
                let op = *self.ch.pick(&[BinOp::Add, BinOp::Sub]);
                let a = self.expr(&T::Int, d - 1);
                let b = if self.ch.chance(1, 4) { self.folded_int() } else { self.expr(&T::Int, d - 1) };
                E::Bin(op, Box::new(a), Box::new(b))
            }
            1 => {
                // keep products small: one factor is a small literal
                let a = self.expr(&T::Int, d - 1);
                let b = lit_i(self.ch.range(-4, 9));
                if self.ch.chance(1, 2) { E::Bin(BinOp::Mul, Box::new(a), Box::new(b)) } else { E::Bin(BinOp::Mul, Box::new(b), Box::new(a)) }
            }
            2 | 3 => {
                self.ch.label("int-div-rem");
                let op = if k == 2 { BinOp::Div } else { BinOp::Rem };
                let a = self.expr(&T::Int, d - 1);
                let b = if self.ch.chance(4, 5) {
                    let v = *self.ch.pick(&[1i64, 2, 3, 7, 10, -2, -3, -7]);
                    lit_i(v)
                } else {
                    self.expr(&T::Int, d - 1)
                };
                // a constant zero divisor is a translation-time error, not a run-time question
                let b = if is_const_int(&b) && !matches!(crate::checks::c03::ceval(&b), Ok(crate::checks::c03::CV::Int(v)) if v != 0) { lit_i(3) } else { b };
                E::Bin(op, Box::new(a), Box::new(b))
            }
            4 => {
                self.ch.label("shift");
                let a = self.expr(&T::Int, d - 1);
                let masked = E::Paren(Box::new(E::Bin(BinOp::BitAnd, Box::new(a), Box::new(lit_i(255)))));
                E::Bin(BinOp::Shl, Box::new(masked), Box::new(lit_i(self.ch.below(9) as i64)))
            }
            5 => {
                self.ch.label("shift");
                let a = self.expr(&T::Int, d - 1);
                E::Bin(BinOp::Shr, Box::new(a), Box::new(lit_i(self.ch.below(12) as i64)))
            }
            6 => {
                let op = *self.ch.pick(&[BinOp::BitAnd, BinOp::BitOr, BinOp::BitXor]);
                let a = self.expr(&T::Int, d - 1);
                let b = self.expr(&T::Int, d - 1);
                E::Bin(op, Box::new(a), Box::new(b))
            }
            7 => {
                self.ch.label("ternary");
                let c = self.expr(&T::Bool, d - 1);
                let a = self.expr(&T::Int, d - 1);
                let b = self.expr(&T::Int, d - 1);
                E::Ternary(Box::new(c), Box::new(a), Box::new(b))
            }
            8 => {
                self.ch.label("math-min-max");
                let a = self.expr(&T::Int, d - 1);
                let b = self.expr(&T::Int, d - 1);
                if self.ch.chance(1, 2) { E::Max(Box::new(a), Box::new(b)) } else { E::Min(Box::new(a), Box::new(b)) }
            }
            9 => {
                let op = *self.ch.pick(&[UnOp::Minus, UnOp::Plus, UnOp::BitNot]);
                E::Un(op, Box::new(self.expr(&T::Int, d - 1)))
            }
            10 => {
                self.ch.label("cast");
                let from = self.ch.pick(&[T::Double, T::Uint, T::Bool, T::Mode, T::Opts, T::Variant]).clone();
                let inner = match &from {
                    // keep doubles in range: property reads and small literals only
                    T::Double => self.leaf(&T::Double, d - 1),
                    T::Uint => self.leaf(&T::Uint, d - 1),
                    f => self.expr(f, d - 1),
                };
                E::Cast(Box::new(inner), T::Int)
            }
            11 => self.folded_int(),
            _ => {
                // guarded pointer chain: a.p0 != null ? a.p0.i0 : lit
                let srcs = self.src_objs();
                if srcs.is_empty() {
                    return self.int_literal();
                }
                self.ch.label("guarded-pointer-chain");
                let o = *self.ch.pick(&srcs);
                let link = *self.ch.pick(&["p0", "p1"]);
                let chain = || E::Prop(Box::new(E::Obj(o)), link, T::Ptr("VSrc"));
                let cond = E::Bin(BinOp::Ne, Box::new(chain()), Box::new(E::Null));
                let read = E::Prop(Box::new(chain()), *self.ch.pick(&["i0", "i1"]), T::Int);
                E::Ternary(Box::new(cond), Box::new(read), Box::new(self.int_literal()))
            }
        }
    }

    fn uint_expr(&mut self, d: usize) -> E {
        self.ch.label("uint-arithmetic");
        match self.ch.below(6) {
            0 => {
                let a = self.expr(&T::Uint, d - 1);
                let b = self.expr(&T::Uint, d - 1);
                E::Bin(BinOp::Add, Box::new(a), Box::new(b))
            }
            1 => {
                let a = self.expr(&T::Uint, d - 1);
                let v = *self.ch.pick(&[1i64, 2, 3, 10]);
                let op = *self.ch.pick(&[BinOp::Div, BinOp::Rem, BinOp::Mul]);
                E::Bin(op, Box::new(a), Box::new(E::UInt(v, v.to_string())))
            }
            2 => {
                let op = *self.ch.pick(&[BinOp::BitAnd, BinOp::BitOr, BinOp::BitXor]);
                let a = self.expr(&T::Uint, d - 1);
                let b = self.expr(&T::Uint, d - 1);
                E::Bin(op, Box::new(a), Box::new(b))
            }
            3 => {
                self.ch.label("cast");
                let inner = match self.ch.below(3) {
                    0 => self.leaf(&T::Bool, d - 1),
                    1 => self.expr(&T::Mode, d - 1),
                    _ => self.expr(&T::Opts, d - 1),
                };
                E::Cast(Box::new(inner), T::Uint)
            }
            4 => {
                // a ternary over two integer constants is `int`: one arm must carry the uint type
                let c = self.expr(&T::Bool, d - 1);
                let a = self.prop_of(&["u0"], &T::Uint, d).unwrap_or(E::Cast(Box::new(E::Bool(true)), T::Uint));
                let b = self.expr(&T::Uint, d - 1);
                if self.ch.chance(1, 2) { E::Ternary(Box::new(c), Box::new(a), Box::new(b)) } else { E::Ternary(Box::new(c), Box::new(b), Box::new(a)) }
            }
            _ => {
                // Math.min/max needs two operands of one C++ type: two property reads, or (known
                // finding) a literal next to a uint operand
                self.ch.label("math-min-max");
                let a = self.prop_of(&["u0"], &T::Uint, d).unwrap_or(E::UInt(1, "1".into()));
                let b = if self.opts.allow.uint_minmax_literal { self.leaf(&T::Uint, 0) } else { self.prop_of(&["u0"], &T::Uint, d).unwrap_or(E::UInt(2, "2".into())) };
                if matches!((&a, &b), (E::UInt(..), _) | (_, E::UInt(..))) && !self.opts.allow.uint_minmax_literal {
                    return a;
                }
                E::Max(Box::new(a), Box::new(b))
            }
        }
    }

    fn double_expr(&mut self, d: usize) -> E {
        match self.ch.below(7) {
            0 | 1 => {
                let mut ops = vec![BinOp::Add, BinOp::Sub, BinOp::Mul, BinOp::Div];
                if self.opts.allow.rem_double {
                    ops.push(BinOp::Rem);
                }
                let op = *self.ch.pick(&ops);
                let a = self.expr(&T::Double, d - 1);
                let b = if op == BinOp::Div { let (v, s) = *self.ch.pick(&DOUBLES[1..]); E::Float(v, s.into()) } else { self.expr(&T::Double, d - 1) };
                E::Bin(op, Box::new(a), Box::new(b))
            }
            2 => E::Un(*self.ch.pick(&[UnOp::Minus, UnOp::Plus]), Box::new(self.expr(&T::Double, d - 1))),
            3 => {
                self.ch.label("cast");
                let inner = if self.ch.chance(1, 3) { self.int_literal() } else { self.expr(&T::Int, d - 1) };
                E::Cast(Box::new(inner), T::Double)
            }
            4 => {
                self.ch.label("ternary");
                let c = self.expr(&T::Bool, d - 1);
                let a = self.expr(&T::Double, d - 1);
                let b = self.expr(&T::Double, d - 1);
                E::Ternary(Box::new(c), Box::new(a), Box::new(b))
            }
            5 => {
                self.ch.label("math-min-max");
                let a = self.expr(&T::Double, d - 1);
                let b = self.expr(&T::Double, d - 1);
                if self.ch.chance(1, 2) { E::Max(Box::new(a), Box::new(b)) } else { E::Min(Box::new(a), Box::new(b)) }
            }
            _ => self.leaf(&T::Double, d),
        }
    }

    fn bool_expr(&mut self, d: usize) -> E {
        match self.ch.weighted(&[30, 14, 14, 10, 8, 8, 8, 8]) {
            0 => {
                self.ch.label("comparison");
                let ty = self.ch.pick(&[T::Int, T::Int, T::Uint, T::Double, T::Str, T::Bool, T::Mode]).clone();
                let mut op = *self.ch.pick(&[BinOp::Eq, BinOp::Ne, BinOp::StrictEq, BinOp::StrictNe, BinOp::Lt, BinOp::Le, BinOp::Gt, BinOp::Ge]);
                if op == BinOp::Lt && !self.opts.allow.less_than {
                    op = BinOp::Ge;
                }
                let a = self.expr(&ty, d - 1);
                let b = self.expr(&ty, d - 1);
                E::Bin(op, Box::new(a), Box::new(b))
            }
            1 => {
                self.ch.label("logical-and");
                let a = self.expr(&T::Bool, d - 1);
                let b = self.expr(&T::Bool, d - 1);
                E::Bin(BinOp::And, Box::new(a), Box::new(b))
            }
            2 => {
                self.ch.label("logical-or");
                let a = self.expr(&T::Bool, d - 1);
                let b = self.expr(&T::Bool, d - 1);
                E::Bin(BinOp::Or, Box::new(a), Box::new(b))
            }
            3 => E::Un(UnOp::Not, Box::new(self.expr(&T::Bool, d - 1))),
            4 => {
                self.ch.label("is-empty");
                let t = self.ch.pick(&[T::Str, T::ListInt, T::ListStr]).clone();
                let inner = self.leaf(&t, d - 1);
                let inner = if matches!(inner, E::EmptyList(_) | E::Array(_)) { self.prop_of(&["sl0"], &T::ListStr, d).unwrap_or(E::Str("".into(), "\"\"".into())) } else { inner };
                E::IsEmpty(Box::new(inner))
            }
            5 => {
                self.ch.label("pointer-comparison");
                let op = *self.ch.pick(&[BinOp::Eq, BinOp::Ne]);
                let a = self.leaf(&T::Ptr("VSrc"), d - 1);
                let b = if self.ch.chance(1, 2) { E::Null } else { self.leaf(&T::Ptr("VSrc"), d - 1) };
                // `null == null` is constant; `obj == null` needs a typed side first
                if matches!(a, E::Null) { E::Bin(op, Box::new(b), Box::new(a)) } else { E::Bin(op, Box::new(a), Box::new(b)) }
            }
            6 => {
                self.ch.label("bool-bitwise");
                let op = *self.ch.pick(&[BinOp::BitAnd, BinOp::BitOr, BinOp::BitXor]);
                let a = self.expr(&T::Bool, d - 1);
                let b = self.expr(&T::Bool, d - 1);
                E::Bin(op, Box::new(a), Box::new(b))
            }
            _ => {
                self.ch.label("ternary");
                let c = self.expr(&T::Bool, d - 1);
                let a = self.expr(&T::Bool, d - 1);
                let b = self.expr(&T::Bool, d - 1);
                E::Ternary(Box::new(c), Box::new(a), Box::new(b))
            }
        }
    }

    fn str_expr(&mut self, d: usize) -> E {
        match self.ch.weighted(&[35, 20, 15, 15, 15]) {
            0 => {
                self.ch.label("string-concatenation");
                let a = self.expr(&T::Str, d - 1);
                let b = self.expr(&T::Str, d - 1);
                E::Bin(BinOp::Add, Box::new(a), Box::new(b))
            }
            1 => {
                self.ch.label("ternary");
                let c = self.expr(&T::Bool, d - 1);
                let a = self.expr(&T::Str, d - 1);
                let b = self.expr(&T::Str, d - 1);
                E::Ternary(Box::new(c), Box::new(a), Box::new(b))
            }
            2 => {
                self.ch.label("string-arg");
                let base = if self.ch.chance(1, 2) {
                    let s = (*self.ch.pick(&["%1", "<%1>", "%1/%2", "n=%1", "%2 %1", "plain"])).to_owned();
                    let sp = crate::qml::js_string(&s);
                    if self.ch.chance(1, 2) { E::Tr(s, sp) } else { E::Paren(Box::new(E::Bin(BinOp::Add, Box::new(E::Str(s.clone(), sp)), Box::new(self.leaf(&T::Str, d - 1))))) }
                } else {
                    self.leaf(&T::Str, d - 1)
                };
                // a literal receiver needs its concrete type first: concatenations and reads have one
                let base = if matches!(base, E::Str(..)) { E::Paren(Box::new(E::Bin(BinOp::Add, Box::new(base), Box::new(self.prop_of(&["s0"], &T::Str, d).unwrap_or(E::Tr("t".into(), "\"t\"".into())))))) } else { base };
                let arg = if self.ch.chance(1, 2) { self.expr(&T::Int, d - 1) } else { self.expr(&T::Str, d - 1) };
                E::Arg(Box::new(base), Box::new(arg))
            }
            3 => {
                self.ch.label("math-min-max");
                let a = self.expr(&T::Str, d - 1);
                let b = self.expr(&T::Str, d - 1);
                if self.ch.chance(1, 2) { E::Max(Box::new(a), Box::new(b)) } else { E::Min(Box::new(a), Box::new(b)) }
            }
            _ => self.leaf(&T::Str, d),
        }
    }

    // ---- statements ---------------------------------------------------------------------

    fn new_local(&mut self, ty: T, shadow: Option<usize>) -> usize {
        let name = match shadow {
            Some(i) => self.locals[i].name.clone(),
            None => format!("x{}", self.locals.len()),
        };
        self.locals.push(LocalInfo { name, ty });
        self.locals.len() - 1
    }

    fn value_type_for_local(&mut self) -> T {
        self.ch.pick(&[T::Int, T::Int, T::Str, T::Bool, T::Double, T::Uint, T::Mode, T::Ptr("VSrc"), T::ListInt]).clone()
    }

    /// statements that produce no completion value of their own: declarations, assignments
    /// under control flow, empty statements
    fn prefix(&mut self, d: usize, out: &mut Vec<S>) {
        let n = self.ch.weighted(&[45, 35, 20]);
        for _ in 0..n {
            if !self.budget_left() {
                break;
            }
            match self.ch.weighted(&[40, 15, 20, 10, 5, 10, if d > 0 { 18 } else { 0 }, if self.opts.allow.pointer_heavy { 14 } else { 3 }]) {
                6 => self.prefix_switch(out),
                7 => self.reassigned_object_local(out),
                0 => {
                    // let / const with initialiser (annotation optional)
                    let ty = self.value_type_for_local();
                    let init = self.expr(&ty, d.min(2));
                    let is_const = self.ch.chance(1, 3);
                    // a declaration without annotation takes the type of the initialiser; literal
                    // pseudo-types (null, []) need the annotation
                    // integer constants are `int` unless annotated; QList<int> cannot be written as an
                    // annotation, so such locals always take their type from a typed initialiser
                    let needs_annotation = matches!(strip_parens(&init), E::Null | E::EmptyList(_)) || (ty == T::Uint && is_const_int(&init));
                    if ty == T::ListInt && needs_annotation {
                        continue;
                    }
                    let annotated = ty != T::ListInt && (needs_annotation || self.ch.chance(1, 3));
                    let i = self.new_local(ty, None);
                    self.scope.push(i);
                    self.assigned.insert(i);
                    if is_const {
                        self.consts.insert(i);
                    }
                    self.ch.label(if is_const { "const-declaration" } else { "let-declaration" });
                    out.push(S::Decl(i, is_const, annotated, Some(init)));
                }
                1 => {
                    // let with annotation only, assigned later on every path (if/else)
                    let ty = self.ch.pick(&[T::Int, T::Str, T::Bool]).clone();
                    let i = self.new_local(ty.clone(), None);
                    self.scope.push(i);
                    out.push(S::Decl(i, false, true, None));
                    let c = self.expr(&T::Bool, d.min(2));
                    let a = self.expr(&ty, d.min(2));
                    let b = self.expr(&ty, d.min(2));
                    self.ch.label("declared-then-assigned-in-branches");
                    out.push(S::If(
                        c,
                        Box::new(S::Block(vec![S::Expr(E::AssignLocal(i, Box::new(a)))])),
                        Some(Box::new(S::Block(vec![S::Expr(E::AssignLocal(i, Box::new(b)))]))),
                    ));
                    self.assigned.insert(i);
                }
                2 => {
                    // reassign a visible let
                    let c: Vec<usize> = self.scope.iter().copied().filter(|i| self.assigned.contains(i) && !self.consts.contains(i) && *i >= self.param_count()).collect();
                    if let Some(&i) = c.first().map(|_| self.ch.pick(&c)) {
                        let ty = self.locals[i].ty.clone();
                        let v = self.expr(&ty, d.min(2));
                        self.ch.label("local-reassignment");
                        if self.ch.chance(1, 2) {
                            let cnd = self.expr(&T::Bool, d.min(1));
                            out.push(S::If(cnd, Box::new(S::Expr(E::AssignLocal(i, Box::new(v)))), None));
                        } else {
                            out.push(S::Expr(E::AssignLocal(i, Box::new(v))));
                        }
                    }
                }
                3 => {
                    // nested block that shadows an outer name (declaration first in the block)
                    let c: Vec<usize> = self.scope.iter().copied().filter(|i| self.assigned.contains(i)).collect();
                    if let Some(&outer) = c.first().map(|_| self.ch.pick(&c)) {
                        let ty = self.value_type_for_local();
                        // (the initialiser does not mention the name it is about to shadow)
                        let scope_all = self.scope.clone();
                        let oname = self.locals[outer].name.clone();
                        self.scope.retain(|i| self.locals[*i].name != oname);
                        let init = self.expr(&ty, 1);
                        self.scope = scope_all;
                        if matches!(strip_parens(&init), E::Null | E::EmptyList(_)) || (ty == T::Uint && is_const_int(&init)) {
                            continue;
                        }
                        // the initialiser is evaluated before the inner name exists
                        let inner = self.new_local(ty, Some(outer));
                        let saved_scope = self.scope.clone();
                        let saved_assigned = self.assigned.clone();
                        self.scope.retain(|i| self.locals[*i].name != self.locals[inner].name);
                        self.scope.push(inner);
                        self.assigned.insert(inner);
                        let mut body = vec![S::Decl(inner, false, false, Some(init))];
                        // use the inner variable for an assignment to an outer let if there is one
                        let outs: Vec<usize> = self.scope.iter().copied().filter(|i| *i != inner && self.assigned.contains(i) && !self.consts.contains(i) && self.locals[*i].ty == self.locals[inner].ty && *i >= self.param_count()).collect();
                        if !outs.is_empty() {
                            let o = *self.ch.pick(&outs);
                            body.push(S::Expr(E::AssignLocal(o, Box::new(E::Local(inner)))));
                        }
                        self.scope = saved_scope;
                        self.assigned = saved_assigned;
                        self.ch.label("shadowing-block");
                        out.push(S::Block(body));
                    }
                }
                4 => {
                    self.ch.label("empty-statement");
                    out.push(S::Empty);
                }
                _ => {
                    if self.handler {
                        let e = self.effect(d);
                        out.push(S::Expr(e));
                    }
                }
            }
        }
    }

    fn param_count(&self) -> usize {
        0
    }

    /// `let o = <object>; let v = o.p; o = <other object>; let w = o.p;` in one basic block: the
    /// same property is read through the same local before and after the local is re-assigned.
    fn reassigned_object_local(&mut self, out: &mut Vec<S>) {
        let Some(first) = self.src_ptr(2) else { return };
        let first = self.exactly_vsrc(first);
        let Some(second) = self.src_ptr(2) else { return };
        let second = self.exactly_vsrc(second);
        if matches!(strip_parens(&first), E::Ternary(..)) || matches!(strip_parens(&second), E::Ternary(..)) {
            return; // a ternary starts new basic blocks
        }
        self.ch.label("object-local-reassigned-between-reads");
        let cands: Vec<(&'static str, T)> = vec![("i0", T::Int), ("i1", T::Int), ("s0", T::Str), ("s1", T::Str), ("b0", T::Bool), ("b1", T::Bool), ("d0", T::Double), ("d1", T::Double), ("ov", T::Int)];
        let pref: Vec<(&'static str, T)> = cands.iter().filter(|(_, t)| Some(t) == self.tail_ty.as_ref()).cloned().collect();
        let (prop, ty) = if !pref.is_empty() && self.ch.chance(3, 4) { self.ch.pick(&pref).clone() } else { self.ch.pick(&cands).clone() };
        let o = self.new_local(T::Ptr("VSrc"), None);
        out.push(S::Decl(o, false, true, Some(first)));
        let v = self.new_local(ty.clone(), None);
        out.push(S::Decl(v, false, false, Some(E::Prop(Box::new(E::Local(o)), prop, ty.clone()))));
        out.push(S::Expr(E::AssignLocal(o, Box::new(second))));
        let w = self.new_local(ty.clone(), None);
        out.push(S::Decl(w, false, false, Some(E::Prop(Box::new(E::Local(o)), prop, ty.clone()))));
        for i in [o, v, w] {
            self.scope.push(i);
            self.assigned.insert(i);
        }
        self.must_use = Some(w);
    }

    /// A switch in statement position whose bodies only reassign visible locals; the first body
    /// may declare a variable that shadows an outer one (directly in the case when
    /// `let_in_case` is allowed, inside a block otherwise). What follows the switch sees the
    /// outer variable again.
    fn prefix_switch(&mut self, out: &mut Vec<S>) {
        let targets: Vec<usize> = self.scope.iter().copied().filter(|i| self.assigned.contains(i) && !self.consts.contains(i) && *i >= self.param_count() && matches!(self.locals[*i].ty, T::Int | T::Str | T::Bool | T::Double)).collect();
        // make sure there is a variable of the tail type to work with
        let mut targets = targets;
        if let Some(tt) = self.tail_ty.clone() {
            if matches!(tt, T::Int | T::Str | T::Bool | T::Double) && !targets.iter().any(|i| self.locals[*i].ty == tt) {
                let init = self.expr(&tt, 1);
                if !(tt == T::Uint && is_const_int(&init)) {
                    let i = self.new_local(tt.clone(), None);
                    self.scope.push(i);
                    self.assigned.insert(i);
                    out.push(S::Decl(i, false, false, Some(init)));
                    targets.push(i);
                }
            }
        }
        if targets.is_empty() {
            return;
        }
        self.ch.label("switch-as-statement");
        let st = self.ch.pick(&[T::Int, T::Int, T::Mode, T::Bool, T::Str]).clone();
        let value = self.expr(&st, 2);
        let ncases = 1 + self.ch.below(3);
        let has_default = self.ch.chance(1, 2);
        let nb = ncases + has_default as usize;
        let dpos = if has_default { self.ch.below(nb) } else { usize::MAX };
        let saved_scope = self.scope.clone();
        let saved_assigned = self.assigned.clone();
        self.in_switch += 1;
        let mut bodies = vec![];
        let mut hidden: Option<String> = None;
        let mut shadowed_outer: Option<usize> = None;
        for pos in 0..nb {
            let scope_before = self.scope.clone();
            let assigned_before = self.assigned.clone();
            let mut body = vec![];
            let mut decl_here = false;
            if pos == 0 && self.ch.chance(2, 3) {
                // shadow an outer assigned local; the initialiser is evaluated before the inner name exists
                let c: Vec<usize> = self.scope.iter().copied().filter(|i| self.assigned.contains(i) && *i >= self.param_count()).collect();
                // prefer a variable of the type of the tail value (it can then decide the result)
                let pref: Vec<usize> = c.iter().copied().filter(|i| Some(&self.locals[*i].ty) == self.tail_ty.as_ref()).collect();
                let outer = if !pref.is_empty() && self.ch.chance(3, 4) { *self.ch.pick(&pref) } else { *self.ch.pick(&c) };
                // mostly the type of the outer variable, so that a later read type-checks either way
                let oty = self.locals[outer].ty.clone();
                let ty = if matches!(oty, T::Int | T::Str | T::Bool | T::Double) && self.ch.chance(3, 4) { oty } else { self.ch.pick(&[T::Int, T::Str, T::Bool]).clone() };
                let scope_all = self.scope.clone();
                let oname = self.locals[outer].name.clone();
                self.scope.retain(|i| self.locals[*i].name != oname);
                let init = self.expr(&ty, 1);
                self.scope = scope_all;
                shadowed_outer = Some(outer);
                let inner = self.new_local(ty, Some(outer));
                let name = self.locals[inner].name.clone();
                self.scope.retain(|i| self.locals[*i].name != name);
                self.scope.push(inner);
                self.assigned.insert(inner);
                body.push(S::Decl(inner, false, false, Some(init)));
                hidden = Some(name);
                decl_here = true;
                self.ch.label(if self.opts.allow.let_in_case { "let-in-case-shadows-outer" } else { "block-in-case-shadows-outer" });
            }
            let visible_targets: Vec<usize> = targets.iter().copied().filter(|i| self.scope.contains(i)).collect();
            if !visible_targets.is_empty() && self.ch.chance(4, 5) {
                let o = *self.ch.pick(&visible_targets);
                let ty = self.locals[o].ty.clone();
                let v = self.expr(&ty, 2);
                body.push(S::Expr(E::AssignLocal(o, Box::new(v))));
            }
            let falls = pos + 1 < nb && self.ch.chance(1, 4);
            if decl_here && !self.opts.allow.let_in_case {
                body = vec![S::Block(body)];
            }
            if !falls {
                body.push(S::Break);
            }
            self.scope = scope_before;
            self.assigned = assigned_before;
            // the rest of the switch must not mention the shadowed name (temporal dead zone)
            if let Some(n) = &hidden {
                let n = n.clone();
                self.scope.retain(|i| self.locals[*i].name != n);
            }
            bodies.push(body);
        }
        self.in_switch -= 1;
        let mut cases = vec![];
        let mut default = None;
        let mut used: Vec<String> = vec![];
        for (pos, body) in bodies.into_iter().enumerate() {
            if pos == dpos {
                default = Some((pos, body));
            } else {
                // distinct literal labels: start at a chosen candidate, advance to an unused one
                let cands: Vec<E> = match st {
                    T::Int => (-1..5).map(lit_i).collect(),
                    T::Str => ["", "a", "b", "ab", "abc"].iter().map(|s| E::Str((*s).to_owned(), crate::qml::js_string(s))).collect(),
                    T::Mode => MODES.iter().map(|m| E::EnumLit(m, T::Mode)).collect(),
                    _ => vec![E::Bool(false), E::Bool(true)],
                };
                let start = self.ch.below(cands.len());
                let mut l = cands[start].clone();
                for k in 0..cands.len() {
                    let e = &cands[(start + k) % cands.len()];
                    let key = format!("{e:?}");
                    if !used.contains(&key) {
                        used.push(key);
                        l = e.clone();
                        break;
                    }
                }
                cases.push((l, body));
            }
        }
        self.scope = saved_scope;
        self.assigned = saved_assigned;
        out.push(S::Switch(value, cases, default));
        // what follows the switch sees the outer variable again: copy it into a fresh local so
        // that the tail is likely to depend on it
        if let Some(o) = shadowed_outer {
            if matches!(self.locals[o].ty, T::Int | T::Str | T::Bool | T::Double | T::Mode) && self.ch.chance(3, 4) {
                let n = self.new_local(self.locals[o].ty.clone(), None);
                self.scope.push(n);
                self.assigned.insert(n);
                out.push(S::Decl(n, false, false, Some(E::Local(o))));
                self.must_use = Some(n);
                // in a handler the value is made observable through a log call
                if self.handler && matches!(self.locals[n].ty, T::Int | T::Str | T::Bool) {
                    self.ch.label("handler-logs-variable-shadowed-in-case");
                    out.push(S::Expr(E::ConsoleLog("log", vec![E::Local(n)])));
                }
            } else {
                self.must_use = Some(o);
                if self.handler && matches!(self.locals[o].ty, T::Int | T::Str | T::Bool) {
                    self.ch.label("handler-logs-variable-shadowed-in-case");
                    out.push(S::Expr(E::ConsoleLog("log", vec![E::Local(o)])));
                }
            }
        }
    }

    /// statements in tail-value form: every path ends in `return e` or executes a value
    /// expression statement last
    pub fn tail(&mut self, t: &T, d: usize) -> Vec<S> {
        let mut out = vec![];
        let saved_scope = self.scope.clone();
        let saved_assigned = self.assigned.clone();
        let saved_tail_ty = self.tail_ty.replace(t.clone());
        self.prefix(d, &mut out);
        self.tail_ty = saved_tail_ty;
        match self.must_use.take() {
            Some(l) if self.locals[l].ty == *t && self.scope.contains(&l) && matches!(t, T::Int | T::Str | T::Bool | T::Double) => {
                // the value depends on the local: x + e, x && e, ...
                self.ch.label("tail-depends-on-scoped-local");
                let e = self.expr(t, 1);
                let op = match t {
                    T::Bool => if self.ch.chance(1, 2) { BinOp::And } else { BinOp::Or },
                    _ => BinOp::Add,
                };
                out.push(S::Expr(E::Bin(op, Box::new(E::Local(l)), Box::new(e))));
            }
            _ => out.push(self.tail_stmt(t, d)),
        }
        self.scope = saved_scope;
        self.assigned = saved_assigned;
        out
    }

    fn tail_stmt(&mut self, t: &T, d: usize) -> S {
        let k = if d == 0 || !self.budget_left() { self.ch.weighted(&[80, 20]) } else { self.ch.weighted(&[28, 10, 27, 27, 8]) };
        match k {
            0 => {
                let e = self.expr(t, self.opts.max_expr_depth.min(d + 2));
                if *t == T::ListInt && matches!(strip_parens(&e), E::EmptyList(_)) { S::Expr(E::Array(vec![self.expr(&T::Int, 1)])) } else { S::Expr(e) }
            }
            1 => {
                self.ch.label("return-statement");
                S::Return(Some(self.expr(t, self.opts.max_expr_depth.min(d + 2))))
            }
            2 => {
                self.ch.label("if-else");
                let c = self.expr(&T::Bool, 2);
                let a = S::Block(self.tail(t, d - 1));
                // else-if chains and non-block arms
                let b = match self.ch.below(4) {
                    0 => {
                        self.ch.label("else-if-chain");
                        let c2 = self.expr(&T::Bool, 2);
                        S::If(c2, Box::new(S::Block(self.tail(t, d - 1))), Some(Box::new(S::Block(self.tail(t, d - 1)))))
                    }
                    1 => {
                        self.ch.label("non-block-arm");
                        if self.ch.chance(1, 2) { S::Expr(self.expr(t, 2)) } else { S::Return(Some(self.expr(t, 2))) }
                    }
                    _ => S::Block(self.tail(t, d - 1)),
                };
                S::If(c, Box::new(a), Some(Box::new(b)))
            }
            3 => self.switch_tail(t, d),
            _ => S::Block(self.tail(t, d - 1)),
        }
    }

    /// a literal of type `t` (no IR statement is needed to evaluate it), when the type has literals
    fn plain_literal(&mut self, t: &T) -> Option<E> {
        Some(match t {
            T::Int => lit_i(self.ch.below(9) as i64 - 2),
            T::Str => { let s = (*self.ch.pick(&["", "zero", "one", "zero or one", "many", "a"])).to_owned(); E::Str(s.clone(), crate::qml::js_string(&s)) }
            T::Bool => E::Bool(self.ch.chance(1, 2)),
            T::Double => { let (v, sp) = *self.ch.pick(DOUBLES); E::Float(v, sp.to_owned()) }
            T::Mode => E::EnumLit(*self.ch.pick(MODES), T::Mode),
            T::Opts => E::EnumLit(*self.ch.pick(OPTS), T::Opts),
            _ => return None,
        })
    }

    /// the value expression of a switch clause: a plain literal in one case of three (a clause made
    /// only of literal expression statements has a completion value but no statement)
    fn clause_value(&mut self, t: &T) -> E {
        if self.ch.chance(1, 3) {
            if let Some(l) = self.plain_literal(t) {
                self.ch.label("literal-only-switch-clause");
                return l;
            }
        }
        self.expr(t, 2)
    }

    fn case_label(&mut self, st: &T, pool: &mut Vec<E>) -> E {
        let e = match self.ch.weighted(&[75, 15, 10]) {
            0 => match st {
                T::Int => lit_i(self.ch.below(5) as i64),
                T::Uint => { let v = self.ch.below(5) as i64; E::UInt(v, v.to_string()) }
                T::Str => { let s = (*self.ch.pick(&["", "a", "b", "ab"])).to_owned(); E::Str(s.clone(), crate::qml::js_string(&s)) }
                T::Mode => E::EnumLit(*self.ch.pick(MODES), T::Mode),
                _ => E::Bool(self.ch.chance(1, 2)),
            },
            1 => {
                self.ch.label("dynamic-case-label");
                self.leaf(st, 1)
            }
            _ => {
                self.ch.label("ternary-in-case-label");
                let c = self.expr(&T::Bool, 1);
                // (a ternary over two integer constants is `int`: a uint label needs a typed arm)
                let a = if *st == T::Uint { self.prop_of(&["u0"], &T::Uint, 0).unwrap_or(E::Cast(Box::new(E::Bool(false)), T::Uint)) } else { self.leaf(st, 0) };
                let b = self.leaf(st, 0);
                E::Ternary(Box::new(c), Box::new(a), Box::new(b))
            }
        };
        pool.push(e.clone());
        e
    }

    fn switch_tail(&mut self, t: &T, d: usize) -> S {
        self.ch.label("switch");
        let st = self.ch.pick(&[T::Int, T::Int, T::Str, T::Mode, T::Uint, T::Bool]).clone();
        let value = self.expr(&st, 2);
        let ncases = self.ch.weighted(&[8, 20, 30, 25, 17]);
        let nb = ncases + 1; // default required for a value on every path
        let dpos = match self.ch.weighted(&[45, 20, 35]) {
            0 => ncases,
            1 => 0,
            _ => self.ch.below(nb),
        };
        if ncases == 0 { self.ch.label("switch-zero-cases"); }
        else if dpos == 0 { self.ch.label("switch-default-first"); }
        else if dpos < ncases { self.ch.label("switch-default-middle"); }
        else { self.ch.label("switch-default-last"); }
        self.in_switch += 1;
        let mut bodies: Vec<Vec<S>> = vec![];
        for pos in 0..nb {
            let last = pos + 1 == nb;
            let saved_scope = self.scope.clone();
            let saved_assigned = self.assigned.clone();
            let mut body = vec![];
            // declarations directly in a case body leak into the rest of the switch in the
            // translator (F11); the main generator wraps them in a block
            let mut pre = vec![];
            if self.ch.chance(1, 3) {
                self.prefix(d.saturating_sub(1), &mut pre);
            }
            let has_decl = pre.iter().any(|s| matches!(s, S::Decl(..)));
            let kind = if last { self.ch.weighted(&[45, 25, 30, 0]) } else { self.ch.weighted(&[40, 15, 15, 30]) };
            let mut rest = vec![];
            match kind {
                0 => {
                    // value; break
                    if self.ch.chance(1, 5) && d > 0 {
                        self.ch.label("break-under-nested-if");
                        let c = self.expr(&T::Bool, 1);
                        let v = self.expr(t, 2);
                        rest.push(S::If(c, Box::new(S::Block(vec![S::Expr(v), S::Break])), None));
                    }
                    rest.push(if d > 0 && self.ch.chance(1, 4) { self.tail_stmt(t, d - 1) } else { S::Expr(self.clause_value(t)) });
                    rest.push(S::Break);
                    if !last && dpos == pos { self.ch.label("break-ends-middle-default"); }
                }
                1 => {
                    self.ch.label("return-in-switch");
                    rest.push(S::Return(Some(self.expr(t, 2))));
                }
                2 => {
                    // value, then fall through (or end of switch)
                    rest.push(S::Expr(self.clause_value(t)));
                    if !last { self.ch.label("fall-through-after-value"); }
                }
                _ => {
                    // nothing (empty body) or only declarations/assignments: falls through
                    self.ch.label("fall-through-empty");
                }
            }
            if has_decl && !self.opts.allow.let_in_case {
                // block scope: everything that may use the declarations stays inside the block;
                // a `break` inside a block is still a break of the switch
                pre.extend(rest);
                if !pre.is_empty() {
                    body.push(S::Block(pre));
                }
            } else {
                if has_decl { self.ch.label("let-directly-in-case"); }
                body.extend(pre);
                body.extend(rest);
            }
            self.scope = saved_scope;
            self.assigned = saved_assigned;
            bodies.push(body);
        }
        self.in_switch -= 1;
        // directed shape, one switch in four: a clause with a value falls through into a clause that
        // consists of one literal only (a completion value without any statement)
        if nb >= 2 && self.ch.chance(1, 4) {
            if let Some(lit) = self.plain_literal(t) {
                self.ch.label("value-clause-falls-into-literal-only-clause");
                let p = self.ch.below(nb - 1);
                let v = self.expr(t, 2);
                bodies[p] = vec![S::Expr(v)];
                bodies[p + 1] = if p + 2 == nb && self.ch.chance(1, 2) { vec![S::Expr(lit)] } else { vec![S::Expr(lit), S::Break] };
            }
        }
        let mut wrap_decl: Option<S> = None;
        // directed shape, one switch in five: a clause declares a variable (shadowing an outer one when
        // there is one of the tail type) and falls through into a clause whose value reads it - the
        // clauses of a switch share one scope. Entering at the second clause leaves the variable
        // unassigned, which the reference semantics reports as undefined (such states are dropped).
        if nb >= 2 && self.opts.allow.let_in_case && matches!(t, T::Int | T::Str | T::Bool | T::Double) && self.ch.chance(1, 5) {
            let p = self.ch.below(nb - 1);
            let mut outers: Vec<usize> = self.scope.iter().copied().filter(|i| self.assigned.contains(i) && self.locals[*i].ty == *t).collect();
            // no variable of the tail type around: declare one in a block around the switch
            if outers.is_empty() && self.ch.chance(2, 3) {
                let init0 = self.expr(t, 1);
                let o = self.new_local(t.clone(), None);
                self.scope.push(o);
                self.assigned.insert(o);
                wrap_decl = Some(S::Decl(o, false, false, Some(init0)));
                outers.push(o);
            }
            let shadow = if !outers.is_empty() && self.ch.chance(3, 4) { Some(*self.ch.pick(&outers)) } else { None };
            // the other clauses were generated with the outer variable in mind: when one of them (or the
            // switch value) mentions the name, it would denote the inner variable after the declaration -
            // then a fresh name is used instead of a shadowing one
            let shadow = shadow.filter(|o| {
                let name = self.locals[*o].name.clone();
                let mut mentioned = false;
                let mut probe = |e: &mut E| -> bool {
                    if let E::Local(i) = e {
                        if self.locals[*i].name == name {
                            mentioned = true;
                        }
                    }
                    false
                };
                for (k, b) in bodies.iter().enumerate() {
                    if k != p && k != p + 1 {
                        for st in b.clone().iter_mut() {
                            map_stmt(st, &mut probe);
                        }
                    }
                }
                map_expr(&mut value.clone(), &mut probe);
                !mentioned
            });
            // neither the initialiser nor the other operand may mention the shadowed name (in the clauses
            // it denotes the inner variable, in its own initialiser it is in its dead zone)
            let scope_before = self.scope.clone();
            if let Some(o) = shadow {
                let n = self.locals[o].name.clone();
                self.scope.retain(|i| self.locals[*i].name != n);
            }
            let init = self.expr(t, 2);
            let inner = self.new_local(t.clone(), shadow);
            self.ch.label(if shadow.is_some() { "case-declaration-shadows-outer-and-is-read-in-next-clause" } else { "case-declaration-read-in-next-clause" });
            let other = self.expr(t, 1);
            self.scope = scope_before;
            let op = match t {
                T::Bool => BinOp::Or,
                _ => BinOp::Add,
            };
            bodies[p] = vec![S::Decl(inner, false, false, Some(init))];
            bodies[p + 1] = vec![S::Expr(E::Bin(op, Box::new(E::Local(inner)), Box::new(other))), S::Break];
        }
        let mut pool = vec![];
        let mut cases = vec![];
        let mut default = None;
        for (pos, body) in bodies.into_iter().enumerate() {
            if pos == dpos {
                default = Some((pos, body));
            } else {
                let label = self.case_label(&st, &mut pool);
                cases.push((label, body));
            }
        }
        match wrap_decl {
            Some(d) => S::Block(vec![d, S::Switch(value, cases, default)]),
            None => S::Switch(value, cases, default),
        }
    }

    // ---- handlers ---------------------------------------------------------------------------

    fn dst_objs(&self) -> Vec<usize> {
        self.world.exactly("VDst")
    }
    fn sig_objs(&self) -> Vec<usize> {
        self.world.exactly("VSig")
    }

    /// one observable effect
    pub fn effect(&mut self, d: usize) -> E {
        let dsts = self.dst_objs();
        let sigs = self.sig_objs();
        let k = self.ch.weighted(&[if dsts.is_empty() { 0 } else { 40 }, if sigs.is_empty() { 0 } else { 30 }, 20, 10]);
        match k {
            0 => {
                self.ch.label("effect-property-write");
                let o = *self.ch.pick(&dsts);
                let (p, t) = self.ch.pick(&[("ti", T::Int), ("ts", T::Str), ("tb", T::Bool), ("td", T::Double), ("tu", T::Uint), ("te", T::Mode), ("tp", T::Ptr("VSrc")), ("ti2", T::Int), ("ts2", T::Str)]).clone();
                let v = self.expr(&t, d.min(3));
                E::AssignProp(Box::new(E::Obj(o)), p, Box::new(v))
            }
            1 => {
                self.ch.label("effect-slot-call");
                let o = *self.ch.pick(&sigs);
                let recv = if o == self.this && self.ch.chance(1, 3) { E::This } else { E::Obj(o) };
                match self.ch.below(6) {
                    0 => E::CallMethod(Box::new(recv), "doIt", vec![], T::Void),
                    1 => E::CallMethod(Box::new(recv), "take", vec![self.expr(&T::Int, d.min(3))], T::Void),
                    2 => E::CallMethod(Box::new(recv), "take2", vec![self.expr(&T::Int, d.min(2)), self.expr(&T::Str, d.min(2))], T::Void),
                    3 => E::CallMethod(Box::new(recv), "takeS", vec![self.expr(&T::Str, d.min(3))], T::Void),
                    4 => E::CallMethod(Box::new(recv), "takeB", vec![self.expr(&T::Bool, d.min(3))], T::Void),
                    _ => E::CallMethod(Box::new(recv), "takeD", vec![self.expr(&T::Double, d.min(2))], T::Void),
                }
            }
            2 => {
                self.ch.label("effect-console");
                let lv = *self.ch.pick(&["log", "debug", "info", "warn", "error"]);
                let n = 1 + self.ch.below(3);
                let args = (0..n)
                    .map(|_| {
                        let t = self.ch.pick(&[T::Int, T::Str, T::Bool]).clone();
                        let a = self.expr(&t, d.min(2));
                        // a literal argument is passed as a C string: U+0000 would end it (known finding of C13, probed there)
                        match strip_parens(&a) {
                            E::Str(s, _) if s.contains('\0') => { let r: String = s.chars().filter(|c| *c != '\0').collect(); let sp = crate::qml::js_string(&r); E::Str(r, sp) }
                            _ => a,
                        }
                    })
                    .collect();
                E::ConsoleLog(lv, args)
            }
            _ => {
                // invokable with a return value used as argument
                if sigs.is_empty() {
                    return E::ConsoleLog("log", vec![self.expr(&T::Int, 1)]);
                }
                self.ch.label("effect-invokable-result");
                let o = *self.ch.pick(&sigs);
                let inner = E::CallMethod(Box::new(E::Obj(o)), "twice", vec![self.expr(&T::Int, 1)], T::Int);
                E::CallMethod(Box::new(E::Obj(o)), "take", vec![inner], T::Void)
            }
        }
    }

    fn handler_stmts(&mut self, d: usize) -> Vec<S> {
        let saved_scope = self.scope.clone();
        let saved_assigned = self.assigned.clone();
        let mut out = vec![];
        let n = 1 + self.ch.weighted(&[30, 35, 20, 15]);
        for _ in 0..n {
            if !self.budget_left() {
                break;
            }
            self.prefix(d, &mut out);
            let k = if d == 0 { if self.ch.chance(1, 8) { 6 } else { 0 } } else { self.ch.weighted(&[50, 18, 14, 8, 5, 5, 10]) };
            match k {
                6 => {
                    // declaration whose initialiser has a side effect (a value-returning invokable);
                    // often the last statement of its list
                    let sigs = self.sig_objs();
                    if sigs.is_empty() {
                        let e = self.effect(d + 1);
                        out.push(S::Expr(e));
                    } else {
                        self.ch.label("declaration-with-call-initialiser");
                        let o = *self.ch.pick(&sigs);
                        let arg = self.expr(&T::Int, 1);
                        let i = self.new_local(T::Int, None);
                        let is_const = self.ch.chance(1, 2);
                        out.push(S::Decl(i, is_const, false, Some(E::CallMethod(Box::new(E::Obj(o)), "twice", vec![arg], T::Int))));
                        self.scope.push(i);
                        self.assigned.insert(i);
                        if is_const {
                            self.consts.insert(i);
                        }
                    }
                }
                0 => {
                    let e = self.effect(d + 1);
                    out.push(S::Expr(e));
                }
                1 => {
                    self.ch.label("if-else");
                    let c = self.expr(&T::Bool, 2);
                    let a = S::Block(self.handler_stmts(d - 1));
                    let b = if self.ch.chance(1, 2) { Some(Box::new(S::Block(self.handler_stmts(d - 1)))) } else { None };
                    out.push(S::If(c, Box::new(a), b));
                }
                2 => {
                    self.ch.label("switch");
                    let st = self.ch.pick(&[T::Int, T::Str, T::Mode, T::Bool]).clone();
                    let value = self.expr(&st, 2);
                    let ncases = self.ch.below(4);
                    let has_default = self.ch.chance(2, 3);
                    let nb = ncases + has_default as usize;
                    let dpos = if has_default { self.ch.below(nb.max(1)) } else { usize::MAX };
                    self.in_switch += 1;
                    let mut cases = vec![];
                    let mut default = None;
                    let mut pool = vec![];
                    for pos in 0..nb {
                        let mut body = if self.ch.chance(1, 5) { vec![] } else { self.handler_stmts(d - 1) };
                        // declarations directly in a case body: wrap (F11)
                        if body.iter().any(|s| matches!(s, S::Decl(..))) && !self.opts.allow.let_in_case {
                            body = vec![S::Block(body)];
                        }
                        if self.ch.chance(2, 3) {
                            body.push(S::Break);
                        } else if pos + 1 < nb {
                            self.ch.label("fall-through-after-value");
                        }
                        if pos == dpos {
                            default = Some((pos, body));
                        } else {
                            let l = self.case_label(&st, &mut pool);
                            cases.push((l, body));
                        }
                    }
                    self.in_switch -= 1;
                    out.push(S::Switch(value, cases, default));
                }
                3 => {
                    self.ch.label("early-return");
                    let c = self.expr(&T::Bool, 2);
                    let r = if self.ch.chance(1, 3) { S::Return(Some(self.expr(&T::Int, 1))) } else { S::Return(None) };
                    out.push(S::If(c, Box::new(S::Block(vec![r])), None));
                }
                4 => {
                    // local list mutation
                    self.ch.label("local-list-mutation");
                    let i = self.new_local(T::ListInt, None);
                    self.scope.push(i);
                    self.assigned.insert(i);
                    let n = 2 + self.ch.below(2);
                    let init = E::Array((0..n).map(|_| self.expr(&T::Int, 1)).collect());
                    out.push(S::Decl(i, false, false, Some(init)));
                    let idx = self.ch.below(n) as i64;
                    out.push(S::Expr(E::AssignSubscript(i, Box::new(lit_i(idx)), Box::new(self.expr(&T::Int, 2)))));
                    let sigs = self.sig_objs();
                    if !sigs.is_empty() {
                        let o = *self.ch.pick(&sigs);
                        out.push(S::Expr(E::CallMethod(Box::new(E::Obj(o)), "take", vec![E::Subscript(Box::new(E::Local(i)), Box::new(lit_i(idx)))], T::Void)));
                    }
                }
                _ => out.push(S::Block(self.handler_stmts(d - 1))),
            }
        }
        self.scope = saved_scope;
        self.assigned = saved_assigned;
        out
    }
}

/// integer constant expression (folded at translation time; has no concrete type of its own)
pub fn is_const_int(e: &E) -> bool {
    match e {
        E::Int(..) | E::UInt(..) => true,
        E::Paren(a) | E::Un(UnOp::Minus | UnOp::Plus | UnOp::BitNot, a) => is_const_int(a),
        E::Bin(op, l, r) => !matches!(op, BinOp::And | BinOp::Or | BinOp::Eq | BinOp::Ne | BinOp::StrictEq | BinOp::StrictNe | BinOp::Lt | BinOp::Le | BinOp::Gt | BinOp::Ge) && is_const_int(l) && is_const_int(r),
        _ => false,
    }
}

fn interp_agrees(e: &E, v: i64) -> bool {
    // the 32-bit reference semantics must give the same value (no intermediate 32-bit overflow)
    let mut objs: Vec<ObjState> = vec![];
    let mut it = Interp { objs: &mut objs, this: 0, locals: vec![], trace: vec![], reads: vec![], steps: 0 };
    matches!(it.eval(e), Ok(V::Int(x)) if x == v)
}

fn strip_parens(e: &E) -> &E {
    match e {
        E::Paren(a) => strip_parens(a),
        x => x,
    }
}

/// A binding body of type `t` hosted by object `this`; `target_prop` is not read through `this`.
pub fn gen_binding(ch: &mut Chooser, world: &World, this: usize, t: &T, target_prop: Option<&'static str>, opts: GenOpts) -> Program {
    let mut g = PGen::new(ch, world, this, opts);
    g.avoid_this_prop = target_prop;
    let sd = g.opts.max_stmt_depth;
    let body = if g.ch.chance(1, 2) {
        let e = g.expr(t, g.opts.max_expr_depth);
        // `[]` alone is a constant the .ui cannot hold for QList<int> (the translator diagnoses it)
        let e = if *t == T::ListInt && matches!(strip_parens(&e), E::EmptyList(_)) { E::Array(vec![g.expr(&T::Int, 1)]) } else { e };
        let e = if *t == T::ListStr && g.ch.chance(1, 10) { g.ch.label("empty-list-literal"); E::EmptyList(T::ListStr) } else { e };
        Body::Expr(e)
    } else {
        g.ch.label("statement-body");
        Body::Block(g.tail(t, sd))
    };
    let mut p = Program { ty: t.clone(), body, locals: g.locals, params: 0 };
    if avoid_nonfinite_constants(&mut p) > 0 {
        ch.label("non-finite-constant-replaced");
    }
    p
}

/// A handler body with `params` (name, type) hosted by object `this`.
pub fn gen_handler(ch: &mut Chooser, world: &World, this: usize, params: &[(&str, T)], opts: GenOpts) -> Program {
    let mut g = PGen::new(ch, world, this, opts);
    g.handler = true;
    for (n, t) in params {
        g.locals.push(LocalInfo { name: (*n).to_owned(), ty: t.clone() });
        let i = g.locals.len() - 1;
        g.scope.push(i);
        g.assigned.insert(i);
        g.consts.insert(i); // parameters are not reassigned by the generator
    }
    let np = params.len();
    let sd = g.opts.max_stmt_depth;
    let body = if np == 0 && g.ch.chance(1, 4) {
        g.ch.label("handler-bare-expression");
        Body::Expr(g.effect(2))
    } else {
        Body::Block(g.handler_stmts(sd.min(2)))
    };
    let mut p = Program { ty: T::Void, body, locals: g.locals, params: np };
    if avoid_nonfinite_constants(&mut p) > 0 {
        ch.label("non-finite-constant-replaced");
    }
    p
}
