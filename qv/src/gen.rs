//! Generators shared by the document-level checks: legal object trees, ids, simple constant
//! bindings with their expected decoded value, strings.

use crate::common::Chooser;
use crate::doc::*;
use crate::meta::{meta, PropInfo, Ty};
use crate::qml::js_string;
use std::collections::BTreeSet;

#[derive(Clone, Debug)]
pub struct TreeCfg {
    pub max_objects: usize,
    pub max_depth: usize,
    pub max_fanout: usize,
    pub actions: bool,
    pub tabs: bool,
    pub main_window: bool,
}

impl Default for TreeCfg {
    fn default() -> Self {
        TreeCfg {
            max_objects: 60,
            max_depth: 6,
            max_fanout: 7,
            actions: true,
            tabs: true,
            main_window: true,
        }
    }
}

struct TreeGen<'c, 'a, 'b> {
    ch: &'c mut Chooser<'a>,
    cfg: &'b TreeCfg,
    budget: usize,
}

/// Generates a legal (accepted) object tree without ids and bindings, except the attached tab
/// titles that tab pages carry.
pub fn gen_tree(ch: &mut Chooser, cfg: &TreeCfg) -> Obj {
    let budget = match ch.weighted(&[10, 35, 35, 20]) {
        0 => 1 + ch.below(3),
        1 => 3 + ch.below(8),
        2 => 10 + ch.below(20),
        _ => 25 + ch.below(cfg.max_objects.saturating_sub(25).max(1)),
    }
    .min(cfg.max_objects);
    let mut g = TreeGen { ch, cfg, budget };
    g.budget = g.budget.saturating_sub(1);
    let root_class = if g.cfg.main_window && g.ch.chance(1, 8) {
        "QMainWindow"
    } else if g.cfg.tabs && g.ch.chance(1, 12) {
        "QTabWidget"
    } else {
        *g.ch.pick(ROOT_WIDGETS)
    };
    g.widget(root_class, 1)
}

impl TreeGen<'_, '_, '_> {
    fn take(&mut self) -> bool {
        if self.budget > 0 {
            self.budget -= 1;
            true
        } else {
            false
        }
    }

    fn fanout(&mut self) -> usize {
        let m = self.cfg.max_fanout;
        match self.ch.weighted(&[15, 45, 40]) {
            0 => 0,
            1 => 1 + self.ch.below(3.min(m)),
            _ => 1 + self.ch.below(m),
        }
    }

    fn widget(&mut self, class: &str, depth: usize) -> Obj {
        let mut o = Obj::new(class);
        if depth >= self.cfg.max_depth {
            return o;
        }
        match class {
            "QMainWindow" => {
                self.ch.label("tree-main-window");
                // menu bar, tool bars, central widget, status bar, actions in any order
                let mut parts: Vec<Obj> = vec![];
                if self.ch.chance(3, 4) && self.take() {
                    parts.push(self.menu_bar(depth + 1));
                }
                if self.ch.chance(1, 2) && self.take() {
                    parts.push(self.tool_bar(depth + 1));
                }
                if self.take() {
                    let c = *self.ch.pick(CONTAINER_WIDGETS);
                    parts.push(self.widget(c, depth + 1));
                }
                if self.ch.chance(1, 3) && self.take() {
                    parts.push(Obj::new("QStatusBar"));
                }
                while self.cfg.actions && self.ch.chance(1, 3) && self.take() {
                    parts.push(self.action());
                }
                self.shuffle(&mut parts);
                o.children = parts;
            }
            "QTabWidget" => {
                self.ch.label("tree-tab-widget");
                let n = self.fanout();
                for i in 0..n {
                    if !self.take() {
                        break;
                    }
                    let c = *self.ch.pick(CONTAINER_WIDGETS);
                    let mut page = self.widget(c, depth + 1);
                    if self.ch.chance(4, 5) {
                        page.binds.push(Bind::new("QTabWidget.title", format!("\"Tab {i}\"")));
                    }
                    o.children.push(page);
                }
            }
            "QStackedWidget" | "QScrollArea" | "QSplitter" => {
                let n = if class == "QScrollArea" { self.ch.below(2) } else { self.fanout() };
                for _ in 0..n {
                    if !self.take() {
                        break;
                    }
                    let c = *self.ch.pick(CONTAINER_WIDGETS);
                    o.children.push(self.widget(c, depth + 1));
                }
            }
            c if LEAF_WIDGETS.contains(&c) => {
                // leaf widgets may still own actions (context menus)
                if self.cfg.actions && self.ch.chance(1, 10) && self.take() {
                    o.children.push(self.action());
                }
            }
            _ => {
                // plain container: either one layout or direct child widgets; plus actions / menus
                let mut parts: Vec<Obj> = vec![];
                if self.ch.chance(3, 5) {
                    if self.take() {
                        let l = *self.ch.pick(LAYOUTS);
                        parts.push(self.layout(l, depth + 1));
                    }
                } else {
                    let n = self.fanout();
                    for _ in 0..n {
                        if !self.take() {
                            break;
                        }
                        parts.push(self.any_widget(depth + 1));
                    }
                }
                if self.cfg.actions {
                    while self.ch.chance(1, 4) && self.take() {
                        let a = if self.ch.chance(1, 4) { self.menu(depth + 1) } else { self.action() };
                        parts.push(a);
                    }
                }
                self.shuffle(&mut parts);
                o.children = parts;
            }
        }
        o
    }

    fn any_widget(&mut self, depth: usize) -> Obj {
        let k = self.ch.weighted(&[55, 30, 8, 7]);
        match k {
            0 => {
                let c = *self.ch.pick(LEAF_WIDGETS);
                self.widget(c, depth)
            }
            1 => {
                let c = *self.ch.pick(CONTAINER_WIDGETS);
                self.widget(c, depth)
            }
            2 if self.cfg.tabs => self.widget("QTabWidget", depth),
            _ => {
                let c = *self.ch.pick(&["QStackedWidget", "QScrollArea", "QGroupBox"]);
                self.widget(c, depth)
            }
        }
    }

    fn layout(&mut self, class: &str, depth: usize) -> Obj {
        let mut o = Obj::new(class);
        if depth >= self.cfg.max_depth {
            return o;
        }
        let n = self.fanout();
        for _ in 0..n {
            if !self.take() {
                break;
            }
            let k = self.ch.weighted(&[60, 25, 15]);
            let c = match k {
                0 => self.any_widget(depth + 1),
                1 => {
                    let l = *self.ch.pick(LAYOUTS);
                    self.layout(l, depth + 1)
                }
                _ => {
                    self.ch.label("tree-spacer");
                    Obj::new("QSpacerItem")
                }
            };
            o.children.push(c);
        }
        o
    }

    fn action(&mut self) -> Obj {
        if self.ch.chance(1, 4) {
            self.ch.label("tree-separator");
            Obj::new("QAction").bind("separator", "true")
        } else {
            self.ch.label("tree-action");
            Obj::new("QAction")
        }
    }

    fn menu(&mut self, depth: usize) -> Obj {
        self.ch.label("tree-menu");
        let mut o = Obj::new("QMenu");
        if depth >= self.cfg.max_depth {
            return o;
        }
        let n = self.fanout();
        for _ in 0..n {
            if !self.take() {
                break;
            }
            let c = if self.ch.chance(1, 5) { self.menu(depth + 1) } else { self.action() };
            o.children.push(c);
        }
        o
    }

    fn menu_bar(&mut self, depth: usize) -> Obj {
        let mut o = Obj::new("QMenuBar");
        let n = self.fanout();
        for _ in 0..n {
            if !self.take() {
                break;
            }
            let c = if self.ch.chance(4, 5) { self.menu(depth + 1) } else { self.action() };
            o.children.push(c);
        }
        o
    }

    fn tool_bar(&mut self, _depth: usize) -> Obj {
        let mut o = Obj::new("QToolBar");
        let n = self.fanout();
        for _ in 0..n {
            if !self.take() {
                break;
            }
            let c = if self.ch.chance(4, 5) { self.action() } else { Obj::new(*self.ch.pick(&["QComboBox", "QLineEdit", "QToolButton"])) };
            o.children.push(c);
        }
        o
    }

    /// every permutation equally likely (Fisher-Yates over choices; identity when exhausted)
    fn shuffle(&mut self, v: &mut [Obj]) {
        for i in (1..v.len()).rev() {
            let j = i - self.ch.below(i + 1);
            v.swap(i, j);
        }
    }
}

/// A separator per the statement: an action whose only binding is `separator: true`.
pub fn is_separator(o: &Obj) -> bool {
    kind_of(&o.class) == Kind::Action && o.binds.len() == 1 && o.binds[0].path == "separator" && o.binds[0].value == "true"
}

// ---------------------------------------------------------------------------------------------
// ids

/// Gives each object an id with probability num/den, unique, from `w<N>`-style names.
pub fn assign_plain_ids(ch: &mut Chooser, root: &mut Obj, num: u32, den: u32) {
    let mut n = 0usize;
    fn rec(ch: &mut Chooser, o: &mut Obj, n: &mut usize, num: u32, den: u32) {
        if ch.chance(num, den) {
            o.id = Some(format!("o{}", *n));
        }
        *n += 1;
        for c in &mut o.children {
            rec(ch, c, n, num, den);
        }
    }
    rec(ch, root, &mut n, num, den);
}

// ---------------------------------------------------------------------------------------------
// strings

#[derive(Clone, Copy, Debug, PartialEq, Eq)]
pub enum StrMode {
    /// short ASCII words
    Plain,
    /// anything XML 1.0 can carry (markup, quotes, blanks, line breaks, non-ASCII, astral)
    Xml,
}

pub fn gen_string(ch: &mut Chooser, mode: StrMode) -> String {
    const WORDS: &[&str] = &["", "a", "OK", "Open file", "x y", "Name:", "100%", "v1.2"];
    if mode == StrMode::Plain {
        return (*ch.pick(WORDS)).to_owned();
    }
    match ch.weighted(&[20, 15, 65]) {
        0 => (*ch.pick(WORDS)).to_owned(),
        1 => (*ch.pick(&[
            "<b>bold</b>", "a & b", "&amp;", "&lt;", "&#65;", "]]>", "<![CDATA[x]]>", "\"q\"", "'s'", "a\tb", "a\nb", "a\rb", "a\r\nb",
            " lead", "trail ", "  ", "\t", "\n", "\r", "<!-- c -->", "<?pi?>", "é", "日本語", "😀", "\u{85}", "\u{2028}", "\u{fffd}", "a\u{a0}b",
            "&", "<", ">", "&&", "<>", "&;", "&#x0;", "%s", "\\n", "\\", "\\\\", "a\\tb",
        ]))
        .to_owned(),
        _ => {
            let n = 1 + ch.below(12);
            let mut s = String::new();
            for _ in 0..n {
                let c = match ch.weighted(&[30, 20, 12, 10, 10, 8, 5, 5]) {
                    0 => (b'a' + ch.below(26) as u8) as char,
                    1 => *ch.pick(&['<', '>', '&', '\'', '"', ';', '#', ']', '[', '!', '-', '?', '=', '/']),
                    2 => *ch.pick(&[' ', ' ', '\t', '\n', '\r']),
                    3 => (0x20 + ch.below(95) as u8) as char,
                    4 => char::from_u32(0xA0 + ch.below(0x260) as u32).unwrap_or('é'),
                    5 => *ch.pick(&['\u{85}', '\u{2028}', '\u{2029}', '\u{feff}', '\u{fffd}', '\u{d7ff}', '\u{e000}', '\u{200b}', '\u{301}']),
                    6 => char::from_u32(0x4E00 + ch.below(0x500) as u32).unwrap_or('日'),
                    _ => char::from_u32(0x1F600 + ch.below(0x40) as u32).unwrap_or('😀'),
                };
                s.push(c);
            }
            s
        }
    }
}

// ---------------------------------------------------------------------------------------------
// simple constant bindings with expectations

#[derive(Clone, Debug, PartialEq)]
pub enum EVal {
    Bool(bool),
    Int(i64),
    Double(f64),
    Str { s: String, tr: bool },
    Enum(String),
    Set(BTreeSet<String>),
    Cstring(String),
    StrList { items: Vec<String>, tr: bool },
}

#[derive(Clone, Debug, PartialEq)]
pub enum Surface {
    /// `<property name=…>` under the object's element
    Prop(String),
    /// `<attribute name=…>` under the object's element (tab pages)
    Attr(String),
}

#[derive(Clone, Debug, PartialEq)]
pub struct Expect {
    pub surface: Surface,
    pub value: EVal,
    /// Some(true) when uic must use setProperty (stdset="0")
    pub stdset0: bool,
}

/// names the translator special-cases or that are not plain value properties
const SPECIAL: &[&str] = &[
    "actions", "model", "separator", "default_", "default", "horizontalHeader", "verticalHeader", "header", "flow", "columns", "rows",
    "contentsMargins", "buddy", "objectName",
];

/// Writable properties of `cls` with a scalar type the simple decorator can fill.
pub fn simple_props(cls: &str) -> Vec<PropInfo> {
    meta()
        .props(cls)
        .into_iter()
        .filter(|p| !SPECIAL.contains(&p.name.as_str()))
        .filter(|p| p.write.is_some() || cls == "QSpacerItem")
        .filter(|p| match &p.ty {
            Ty::Bool | Ty::Int | Ty::Double | Ty::Str => true,
            Ty::Enum(scope, name, _) => {
                let m = meta();
                m.find_enum(scope, name)
                    .map(|(_, e)| !e.is_class && e.values.iter().any(|v| v.starts_with(|c: char| c.is_ascii_uppercase())))
                    .unwrap_or(false)
            }
            _ => false,
        })
        .collect()
}

pub fn gen_value(ch: &mut Chooser, ty: &Ty, strings: StrMode) -> Option<(String, EVal)> {
    Some(match ty {
        Ty::Bool => {
            let b = ch.chance(1, 2);
            (b.to_string(), EVal::Bool(b))
        }
        Ty::Int => {
            let v = match ch.weighted(&[60, 20, 10, 10]) {
                0 => ch.below(20) as i64,
                1 => ch.below(1000) as i64,
                2 => -(ch.below(50) as i64) - 1,
                _ => *ch.pick(&[0i64, 1, 255, 65535, 2147483647, -2147483648 + 1]),
            };
            let text = if v >= 0 && ch.chance(1, 10) { format!("0x{v:x}") } else { v.to_string() };
            (text, EVal::Int(v))
        }
        Ty::Double => {
            let (t, v) = *ch.pick(&[("0.5", 0.5f64), ("1.25", 1.25), ("2.0", 2.0), ("0.0", 0.0), ("1e3", 1e3), ("-0.75", -0.75), ("100.125", 100.125), ("3.14159", 3.14159), (".5", 0.5), ("1.5e-3", 1.5e-3)]);
            (t.to_owned(), EVal::Double(v))
        }
        Ty::Str => {
            let s = gen_string(ch, strings);
            let tr = ch.chance(1, 3);
            let lit = js_string(&s);
            (if tr { format!("qsTr({lit})") } else { lit }, EVal::Str { s, tr })
        }
        Ty::Enum(scope, name, is_flag) => {
            let vars: Vec<String> = meta()
                .enum_variants(scope, name)
                .into_iter()
                .filter(|v| v.starts_with(|c: char| c.is_ascii_uppercase()))
                .collect();
            if vars.is_empty() {
                return None;
            }
            if *is_flag {
                let n = 1 + ch.below(3.min(vars.len()));
                let mut picked: Vec<String> = vec![];
                for _ in 0..n {
                    let v = ch.pick(&vars).clone();
                    if !picked.contains(&v) {
                        picked.push(v);
                    }
                }
                let text = picked.iter().map(|v| format!("{scope}.{v}")).collect::<Vec<_>>().join(" | ");
                (text, EVal::Set(picked.iter().map(|v| format!("{scope}::{v}")).collect()))
            } else {
                let v = ch.pick(&vars).clone();
                (format!("{scope}.{v}"), EVal::Enum(format!("{scope}::{v}")))
            }
        }
        _ => return None,
    })
}

/// Adds 0..max simple constant bindings to every object; records what the .ui must show.
/// `expects[tag-1]` belongs to the binding with that tag.
pub fn decorate_simple(ch: &mut Chooser, root: &mut Obj, max_per_obj: usize, strings: StrMode, expects: &mut Vec<Expect>) {
    fn rec(ch: &mut Chooser, o: &mut Obj, max: usize, strings: StrMode, expects: &mut Vec<Expect>) {
        if !is_separator(o) {
            let props = simple_props(&o.class);
            if !props.is_empty() {
                let n = ch.below(max + 1);
                let mut used: BTreeSet<String> = o.binds.iter().map(|b| b.path.clone()).collect();
                for _ in 0..n {
                    let p = ch.pick(&props).clone();
                    if used.contains(&p.name) {
                        continue;
                    }
                    if let Some((text, val)) = gen_value(ch, &p.ty, strings) {
                        used.insert(p.name.clone());
                        expects.push(Expect { surface: Surface::Prop(p.name.clone()), value: val, stdset0: !p.std_set && o.class != "QSpacerItem" });
                        o.binds.push(Bind::tagged(p.name.clone(), text, expects.len()));
                    }
                }
            }
        }
        for c in &mut o.children {
            rec(ch, c, max, strings, expects);
        }
    }
    rec(ch, root, max_per_obj, strings, expects);
}

/// Compares a decoded value with the expectation.
pub fn value_matches(got: &crate::form::FValue, want: &EVal) -> bool {
    use crate::form::FValue as F;
    match (got, want) {
        (F::Bool(a), EVal::Bool(b)) => a == b,
        (F::Number(s), EVal::Int(v)) => s.parse::<i64>().map(|x| x == *v).unwrap_or(false),
        (F::Number(s), EVal::Double(v)) => s.parse::<f64>().map(|x| x.to_bits() == v.to_bits() || (x == *v)).unwrap_or(false),
        (F::Str { text, notr }, EVal::Str { s, tr }) => text == s && *notr != *tr,
        (F::Enum(a), EVal::Enum(b)) => a == b,
        (F::Set(a), EVal::Set(b)) => &a.split('|').map(|x| x.to_owned()).collect::<BTreeSet<_>>() == b,
        (F::Cstring(a), EVal::Cstring(b)) => a == b,
        (F::StringList { items, notr }, EVal::StrList { items: w, tr }) => items == w && *notr != *tr,
        _ => false,
    }
}
