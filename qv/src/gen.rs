//! Generators shared by the document-level checks: legal object trees, ids, simple constant
//! bindings with their expected decoded value, strings.

use crate::common::Chooser;
use crate::doc::*;
use crate::meta::{meta, PropInfo, Ty};
use crate::qml::js_string;
use std::collections::BTreeSet;

#[derive(Clone, Debug)]
pub struct TreeCfg {
    pub max_objects: usize,
    pub max_depth: usize,
    pub max_fanout: usize,
    pub actions: bool,
    pub tabs: bool,
    pub main_window: bool,
}

impl Default for TreeCfg {
    fn default() -> Self {
        TreeCfg {
            max_objects: 60,
            max_depth: 6,
            max_fanout: 7,
            actions: true,
            tabs: true,
            main_window: true,
        }
    }
}

struct TreeGen<'c, 'a, 'b> {
    ch: &'c mut Chooser<'a>,
    cfg: &'b TreeCfg,
    budget: usize,
}

/// Generates a legal (accepted) object tree without ids and bindings, except the attached tab
/// titles that tab pages carry.
pub fn gen_tree(ch: &mut Chooser, cfg: &TreeCfg) -> Obj {
    let budget = match ch.weighted(&[10, 35, 35, 20]) {
        0 => 1 + ch.below(3),
        1 => 3 + ch.below(8),
        2 => 10 + ch.below(20),
        _ => 25 + ch.below(cfg.max_objects.saturating_sub(25).max(1)),
    }
    .min(cfg.max_objects);
    let mut g = TreeGen { ch, cfg, budget };
    g.budget = g.budget.saturating_sub(1);
    let root_class = if g.cfg.main_window && g.ch.chance(1, 8) {
        "QMainWindow"
    } else if g.cfg.tabs && g.ch.chance(1, 12) {
        "QTabWidget"
    } else {
        *g.ch.pick(ROOT_WIDGETS)
    };
    g.widget(root_class, 1)
}

impl TreeGen<'_, '_, '_> {
    fn take(&mut self) -> bool {
        if self.budget > 0 {
            self.budget -= 1;
            true
        } else {
            false
        }
    }

    fn fanout(&mut self) -> usize {
        let m = self.cfg.max_fanout;
        match self.ch.weighted(&[15, 45, 40]) {
            0 => 0,
            1 => 1 + self.ch.below(3.min(m)),
            _ => 1 + self.ch.below(m),
        }
    }

    fn widget(&mut self, class: &str, depth: usize) -> Obj {
        let mut o = Obj::new(class);
        if depth >= self.cfg.max_depth {
            return o;
        }
        match class {
            "QMainWindow" => {
                self.ch.label("tree-main-window");
                // menu bar, tool bars, central widget, status bar, actions in any order
                let mut parts: Vec<Obj> = vec![];
                if self.ch.chance(3, 4) && self.take() {
                    parts.push(self.menu_bar(depth + 1));
                }
                if self.ch.chance(1, 2) && self.take() {
                    parts.push(self.tool_bar(depth + 1));
                }
                if self.take() {
                    let c = *self.ch.pick(CONTAINER_WIDGETS);
                    parts.push(self.widget(c, depth + 1));
                }
                if self.ch.chance(1, 3) && self.take() {
                    parts.push(Obj::new("QStatusBar"));
                }
                while self.cfg.actions && self.ch.chance(1, 3) && self.take() {
                    parts.push(self.action());
                }
                self.shuffle(&mut parts);
                o.children = parts;
            }
            "QTabWidget" => {
                self.ch.label("tree-tab-widget");
                let n = self.fanout();
                for i in 0..n {
                    if !self.take() {
                        break;
                    }
                    // pages are containers or plain widgets, item views among them (they carry
                    // header attributes next to the attached tab attributes)
                    let c = if self.ch.chance(1, 3) { *self.ch.pick(&["QTableView", "QTreeView", "QTableView", "QTreeView", "QTextEdit", "QListWidget", "QLabel"]) } else { *self.ch.pick(CONTAINER_WIDGETS) };
                    let mut page = self.widget(c, depth + 1);
                    if self.ch.chance(4, 5) {
                        page.binds.push(Bind::new("QTabWidget.title", format!("\"Tab {i}\"")));
                    }
                    o.children.push(page);
                }
                // actions and menus of the tab widget itself, anywhere between the pages
                while self.cfg.actions && self.ch.chance(1, 4) && self.take() {
                    self.ch.label("tree-tab-widget-with-actions");
                    let c = if self.ch.chance(1, 2) { self.action() } else { self.menu(depth + 1) };
                    let at = self.ch.below(o.children.len() + 1);
                    o.children.insert(at, c);
                }
            }
            "QStackedWidget" | "QScrollArea" | "QSplitter" => {
                let n = if class == "QScrollArea" { self.ch.below(2) } else { self.fanout() };
                for _ in 0..n {
                    if !self.take() {
                        break;
                    }
                    let c = *self.ch.pick(CONTAINER_WIDGETS);
                    o.children.push(self.widget(c, depth + 1));
                }
            }
            c if LEAF_WIDGETS.contains(&c) => {
                // leaf widgets may still own actions (context menus)
                if self.cfg.actions && self.ch.chance(1, 10) && self.take() {
                    o.children.push(self.action());
                }
            }
            _ => {
                // plain container: either one layout or direct child widgets; plus actions / menus
                let mut parts: Vec<Obj> = vec![];
                if self.ch.chance(3, 5) {
                    if self.take() {
                        let l = *self.ch.pick(LAYOUTS);
                        parts.push(self.layout(l, depth + 1));
                    }
                } else {
                    let n = self.fanout();
                    for _ in 0..n {
                        if !self.take() {
                            break;
                        }
                        parts.push(self.any_widget(depth + 1));
                    }
                }
                if self.cfg.actions {
                    while self.ch.chance(1, 4) && self.take() {
                        let a = if self.ch.chance(1, 4) { self.menu(depth + 1) } else { self.action() };
                        parts.push(a);
                    }
                }
                self.shuffle(&mut parts);
                o.children = parts;
            }
        }
        o
    }

    fn any_widget(&mut self, depth: usize) -> Obj {
        let k = self.ch.weighted(&[55, 30, 8, 7]);
        match k {
            0 => {
                let c = *self.ch.pick(LEAF_WIDGETS);
                self.widget(c, depth)
            }
            1 => {
                let c = *self.ch.pick(CONTAINER_WIDGETS);
                self.widget(c, depth)
            }
            2 if self.cfg.tabs => self.widget("QTabWidget", depth),
            _ => {
                let c = *self.ch.pick(&["QStackedWidget", "QScrollArea", "QGroupBox"]);
                self.widget(c, depth)
            }
        }
    }

    fn layout(&mut self, class: &str, depth: usize) -> Obj {
        let mut o = Obj::new(class);
        if depth >= self.cfg.max_depth {
            return o;
        }
        let n = self.fanout();
        for _ in 0..n {
            if !self.take() {
                break;
            }
            let k = self.ch.weighted(&[60, 25, 15]);
            let c = match k {
                0 => self.any_widget(depth + 1),
                1 => {
                    let l = *self.ch.pick(LAYOUTS);
                    self.layout(l, depth + 1)
                }
                _ => {
                    self.ch.label("tree-spacer");
                    Obj::new("QSpacerItem")
                }
            };
            o.children.push(c);
        }
        o
    }

    fn action(&mut self) -> Obj {
        if self.ch.chance(1, 4) {
            self.ch.label("tree-separator");
            Obj::new("QAction").bind("separator", "true")
        } else {
            self.ch.label("tree-action");
            Obj::new("QAction")
        }
    }

    fn menu(&mut self, depth: usize) -> Obj {
        self.ch.label("tree-menu");
        let mut o = Obj::new("QMenu");
        if depth >= self.cfg.max_depth {
            return o;
        }
        let n = self.fanout();
        for _ in 0..n {
            if !self.take() {
                break;
            }
            let c = if self.ch.chance(1, 5) { self.menu(depth + 1) } else { self.action() };
            o.children.push(c);
        }
        o
    }

    fn menu_bar(&mut self, depth: usize) -> Obj {
        let mut o = Obj::new("QMenuBar");
        let n = self.fanout();
        for _ in 0..n {
            if !self.take() {
                break;
            }
            let c = if self.ch.chance(4, 5) { self.menu(depth + 1) } else { self.action() };
            o.children.push(c);
        }
        o
    }

    fn tool_bar(&mut self, _depth: usize) -> Obj {
        let mut o = Obj::new("QToolBar");
        let n = self.fanout();
        for _ in 0..n {
            if !self.take() {
                break;
            }
            let c = if self.ch.chance(4, 5) { self.action() } else { Obj::new(*self.ch.pick(&["QComboBox", "QLineEdit", "QToolButton"])) };
            o.children.push(c);
        }
        o
    }

    /// every permutation equally likely (Fisher-Yates over choices; identity when exhausted)
    fn shuffle(&mut self, v: &mut [Obj]) {
        for i in (1..v.len()).rev() {
            let j = i - self.ch.below(i + 1);
            v.swap(i, j);
        }
    }
}

/// A separator per the statement: an action whose only binding is `separator: true`.
pub fn is_separator(o: &Obj) -> bool {
    kind_of(&o.class) == Kind::Action && o.binds.len() == 1 && o.binds[0].path == "separator" && o.binds[0].value == "true"
}

// ---------------------------------------------------------------------------------------------
// ids

/// Gives each object an id with probability num/den, unique, from `w<N>`-style names.
pub fn assign_plain_ids(ch: &mut Chooser, root: &mut Obj, num: u32, den: u32) {
    let mut n = 0usize;
    fn rec(ch: &mut Chooser, o: &mut Obj, n: &mut usize, num: u32, den: u32) {
        if ch.chance(num, den) {
            o.id = Some(format!("o{}", *n));
        }
        *n += 1;
        for c in &mut o.children {
            rec(ch, c, n, num, den);
        }
    }
    rec(ch, root, &mut n, num, den);
}

// ---------------------------------------------------------------------------------------------
// strings

#[derive(Clone, Copy, Debug, PartialEq, Eq)]
pub enum StrMode {
    /// short ASCII words
    Plain,
    /// anything XML 1.0 can carry (markup, quotes, blanks, line breaks, non-ASCII, astral)
    Xml,
}

pub fn gen_string(ch: &mut Chooser, mode: StrMode) -> String {
    const WORDS: &[&str] = &["", "a", "OK", "Open file", "x y", "Name:", "100%", "v1.2"];
    if mode == StrMode::Plain {
        return (*ch.pick(WORDS)).to_owned();
    }
    match ch.weighted(&[20, 15, 65]) {
        0 => (*ch.pick(WORDS)).to_owned(),
        1 => (*ch.pick(&[
            "<b>bold</b>", "a & b", "&amp;", "&lt;", "&#65;", "]]>", "<![CDATA[x]]>", "\"q\"", "'s'", "a\tb", "a\nb", "a\rb", "a\r\nb",
            " lead", "trail ", "  ", "\t", "\n", "\r", "<!-- c -->", "<?pi?>", "é", "日本語", "😀", "\u{85}", "\u{2028}", "\u{fffd}", "a\u{a0}b",
            "&", "<", ">", "&&", "<>", "&;", "&#x0;", "%s", "\\n", "\\", "\\\\", "a\\tb",
        ]))
        .to_owned(),
        _ => {
            let n = 1 + ch.below(12);
            let mut s = String::new();
            for _ in 0..n {
                let c = match ch.weighted(&[30, 20, 12, 10, 10, 8, 5, 5]) {
                    0 => (b'a' + ch.below(26) as u8) as char,
                    1 => *ch.pick(&['<', '>', '&', '\'', '"', ';', '#', ']', '[', '!', '-', '?', '=', '/']),
                    2 => *ch.pick(&[' ', ' ', '\t', '\n', '\r']),
                    3 => (0x20 + ch.below(95) as u8) as char,
                    4 => char::from_u32(0xA0 + ch.below(0x260) as u32).unwrap_or('é'),
                    5 => *ch.pick(&['\u{85}', '\u{2028}', '\u{2029}', '\u{feff}', '\u{fffd}', '\u{d7ff}', '\u{e000}', '\u{200b}', '\u{301}']),
                    6 => char::from_u32(0x4E00 + ch.below(0x500) as u32).unwrap_or('日'),
                    _ => char::from_u32(0x1F600 + ch.below(0x40) as u32).unwrap_or('😀'),
                };
                s.push(c);
            }
            s
        }
    }
}

// ---------------------------------------------------------------------------------------------
// constant bindings with expectations (the binding catalogue of DESIGN.md appendix A)

use crate::xml::{Elem, Node};

#[derive(Clone, Debug, PartialEq)]
pub enum EVal {
    Bool(bool),
    Int(i64),
    Double(f64),
    Str { s: String, tr: bool },
    Enum(String),
    Set(BTreeSet<String>),
    Cstring(String),
    StrList { items: Vec<String>, tr: bool },
    CursorShape(String),
    Pixmap(String),
    /// structured value: expected element, compared up to child order and blank text
    Tree(Elem),
    /// model items of a combo box / list widget: texts with tr marking
    ModelItems(Vec<(String, bool)>),
}

#[derive(Clone, Debug, PartialEq)]
pub enum Surface {
    /// `<property name=…>` under the object's element
    Prop(String),
    /// `<attribute name=…>` under the object's element (tab pages, header views)
    Attr(String),
    /// `<item>` children of the widget element
    Items,
}

#[derive(Clone, Debug, PartialEq)]
pub struct Expect {
    pub obj: Vec<usize>,
    /// indices into obj.binds of the bindings that produce this value
    pub binds: Vec<usize>,
    /// catalogue kind, for histograms
    pub kind: &'static str,
    pub surface: Surface,
    pub value: EVal,
    /// uic must use setProperty (stdset="0")
    pub stdset0: bool,
}

/// names the translator special-cases or that are not plain value properties
const SPECIAL: &[&str] = &[
    "actions", "model", "separator", "default_", "default", "horizontalHeader", "verticalHeader", "header", "flow", "columns", "rows",
    "contentsMargins", "buddy", "objectName",
];

/// Writable properties of `cls` with a scalar type the simple decorator can fill.
pub fn simple_props(cls: &str) -> Vec<PropInfo> {
    meta()
        .props(cls)
        .into_iter()
        .filter(|p| !SPECIAL.contains(&p.name.as_str()))
        .filter(|p| p.write.is_some() || cls == "QSpacerItem")
        .filter(|p| match &p.ty {
            Ty::Bool | Ty::Int | Ty::Double | Ty::Str => true,
            Ty::Enum(scope, name, _) => {
                let m = meta();
                m.find_enum(scope, name)
                    .map(|(_, e)| !e.is_class && e.values.iter().any(|v| v.starts_with(|c: char| c.is_ascii_uppercase())))
                    .unwrap_or(false)
            }
            _ => false,
        })
        .collect()
}

pub fn gen_str_value(ch: &mut Chooser, strings: StrMode, allow_tr: bool) -> (String, String, bool) {
    let s = gen_string(ch, strings);
    let tr = allow_tr && ch.chance(1, 3);
    let lit = js_string(&s);
    (if tr { format!("qsTr({lit})") } else { lit }, s, tr)
}

pub fn gen_value(ch: &mut Chooser, ty: &Ty, strings: StrMode) -> Option<(String, EVal)> {
    Some(match ty {
        Ty::Bool => {
            let b = ch.chance(1, 2);
            (b.to_string(), EVal::Bool(b))
        }
        Ty::Int => {
            let v = match ch.weighted(&[60, 20, 10, 10]) {
                0 => ch.below(20) as i64,
                1 => ch.below(1000) as i64,
                2 => -(ch.below(50) as i64) - 1,
                _ => *ch.pick(&[0i64, 1, 255, 65535, 2147483647, -2147483647]),
            };
            let text = if v >= 0 && ch.chance(1, 10) { format!("0x{v:x}") } else { v.to_string() };
            (text, EVal::Int(v))
        }
        Ty::Double => {
            let (t, v) = *ch.pick(&[("0.5", 0.5f64), ("1.25", 1.25), ("2.0", 2.0), ("0.0", 0.0), ("1e3", 1e3), ("-0.75", -0.75), ("100.125", 100.125), ("3.14159", 3.14159), (".5", 0.5), ("1.5e-3", 1.5e-3)]);
            (t.to_owned(), EVal::Double(v))
        }
        Ty::Str => {
            let (text, s, tr) = gen_str_value(ch, strings, true);
            (text, EVal::Str { s, tr })
        }
        Ty::Enum(scope, name, is_flag) => {
            let vars: Vec<String> = meta()
                .enum_variants(scope, name)
                .into_iter()
                .filter(|v| v.starts_with(|c: char| c.is_ascii_uppercase()))
                .collect();
            if vars.is_empty() {
                return None;
            }
            if *is_flag {
                let n = 1 + ch.below(3.min(vars.len()));
                let mut picked: Vec<String> = vec![];
                for _ in 0..n {
                    let v = ch.pick(&vars).clone();
                    if !picked.contains(&v) {
                        picked.push(v);
                    }
                }
                let text = picked.iter().map(|v| format!("{scope}.{v}")).collect::<Vec<_>>().join(" | ");
                (text, EVal::Set(picked.iter().map(|v| format!("{scope}::{v}")).collect()))
            } else {
                let v = ch.pick(&vars).clone();
                (format!("{scope}.{v}"), EVal::Enum(format!("{scope}::{v}")))
            }
        }
        _ => return None,
    })
}

/// marks an expected element that holds child elements (possibly none), not text
const CONTAINER_MARK: &str = "\u{0}container";

fn el(name: &str, attrs: &[(&str, String)], children: Vec<Elem>) -> Elem {
    let mut c: Vec<Node> = children.into_iter().map(Node::Elem).collect();
    if c.is_empty() {
        c.push(Node::Text(CONTAINER_MARK.to_owned()));
    }
    Elem {
        name: name.to_owned(),
        attrs: attrs.iter().map(|(k, v)| ((*k).to_owned(), v.clone())).collect(),
        children: c,
    }
}

fn el_text(name: &str, attrs: &[(&str, String)], text: impl Into<String>) -> Elem {
    let t: String = text.into();
    Elem {
        name: name.to_owned(),
        attrs: attrs.iter().map(|(k, v)| ((*k).to_owned(), v.clone())).collect(),
        children: if t.is_empty() { vec![] } else { vec![Node::Text(t)] },
    }
}

fn str_el(name: &str, s: &str, tr: bool) -> Elem {
    if tr {
        el_text(name, &[], s)
    } else {
        el_text(name, &[("notr", "true".to_owned())], s)
    }
}

/// `<color alpha=…><red/><green/><blue/>` for a colour string the C19 oracle accepts
pub fn color_el(s: &str) -> Option<Elem> {
    let (r, g, b, a) = crate::checks::c19::expected(s)?;
    Some(el(
        "color",
        &[("alpha", a.to_string())],
        vec![el_text("red", &[], r.to_string()), el_text("green", &[], g.to_string()), el_text("blue", &[], b.to_string())],
    ))
}

fn solid_brush_el(color: &str) -> Option<Elem> {
    Some(el("brush", &[("brushstyle", "SolidPattern".to_owned())], vec![color_el(color)?]))
}

const COLORS: &[&str] = &["red", "#123", "#80123abc", "Blue", "transparent", "#fff", "#0f08", "darkkhaki", "#A1B2C3"];
const PIXMAPS: &[&str] = &["a.png", ":/icons/open.svg", "dir/with space.png", "x&y.png", "<p>.png"];
const ROLES: &[&str] = &["window", "windowText", "base", "text", "button", "buttonText", "highlight", "toolTipBase", "placeholderText", "link"];

fn cap(s: &str) -> String {
    let mut c = s.chars();
    match c.next() {
        Some(f) => format!("{}{}", f.to_ascii_uppercase(), c.as_str()),
        None => String::new(),
    }
}

struct Deco<'c, 'a, 'e> {
    ch: &'c mut Chooser<'a>,
    strings: StrMode,
    expects: &'e mut Vec<Expect>,
    rich: bool,
}

impl Deco<'_, '_, '_> {
    fn push(&mut self, o: &mut Obj, path: &[usize], kind: &'static str, surface: Surface, value: EVal, stdset0: bool, binds: Vec<Bind>) {
        let start = o.binds.len();
        let idxs: Vec<usize> = (start..start + binds.len()).collect();
        o.binds.extend(binds);
        self.expects.push(Expect { obj: path.to_vec(), binds: idxs, kind, surface, value, stdset0 });
        self.ch.label(kind);
    }

    fn scalar(&mut self, o: &mut Obj, path: &[usize], used: &mut BTreeSet<String>) {
        let props = simple_props(&o.class);
        if props.is_empty() {
            return;
        }
        let p = self.ch.pick(&props).clone();
        if used.contains(&p.name) {
            return;
        }
        if let Some((text, val)) = gen_value(self.ch, &p.ty, self.strings) {
            used.insert(p.name.clone());
            let stdset0 = !p.std_set && o.class != "QSpacerItem";
            self.push(o, path, "scalar", Surface::Prop(p.name.clone()), val, stdset0, vec![Bind::new(p.name.clone(), text)]);
        }
    }

    fn font(&mut self, o: &mut Obj, path: &[usize], prop: &str, stdset0: bool) {
        let mut binds = vec![];
        let mut kids = vec![];
        let members = ["family", "pointSize", "weight", "italic", "bold", "underline", "strikeout", "kerning", "styleStrategy"];
        let n = 1 + self.ch.below(4);
        let mut seen = BTreeSet::new();
        for _ in 0..n {
            let m = *self.ch.pick(&members);
            if !seen.insert(m) {
                continue;
            }
            let tag = m.to_ascii_lowercase();
            match m {
                "family" => {
                    let (text, s, tr) = gen_str_value(self.ch, self.strings, true);
                    binds.push(Bind::new(format!("{prop}.{m}"), text));
                    kids.push(str_el(&tag, &s, tr));
                }
                "pointSize" | "weight" => {
                    let v = 1 + self.ch.below(90);
                    binds.push(Bind::new(format!("{prop}.{m}"), v.to_string()));
                    kids.push(el_text(&tag, &[], v.to_string()));
                }
                "styleStrategy" => {
                    let v = *self.ch.pick(&["PreferDefault", "PreferAntialias", "NoAntialias", "PreferBitmap"]);
                    binds.push(Bind::new(format!("{prop}.{m}"), format!("QFont.{v}")));
                    kids.push(el_text(&tag, &[], v));
                }
                _ => {
                    let b = self.ch.chance(1, 2);
                    binds.push(Bind::new(format!("{prop}.{m}"), b.to_string()));
                    kids.push(el_text(&tag, &[], b.to_string()));
                }
            }
        }
        self.push(o, path, "gadget-font", Surface::Prop(prop.to_owned()), EVal::Tree(el("font", &[], kids)), stdset0, binds);
    }

    fn size_like(&mut self, o: &mut Obj, path: &[usize], prop: &str, tag: &str, members: &[&str]) {
        let mut binds = vec![];
        let mut kids = vec![];
        let all = self.ch.chance(2, 3);
        for m in members {
            if all || self.ch.chance(1, 2) {
                let v = self.ch.below(500) as i64;
                binds.push(Bind::new(format!("{prop}.{m}"), v.to_string()));
                kids.push(el_text(m, &[], v.to_string()));
            }
        }
        if binds.is_empty() {
            let m = members[0];
            binds.push(Bind::new(format!("{prop}.{m}"), "7"));
            kids.push(el_text(m, &[], "7"));
        }
        let kind = if tag == "rect" { "gadget-rect" } else { "gadget-size" };
        let std = meta().prop(&o.class, prop).map(|p| p.std_set).unwrap_or(true);
        self.push(o, path, kind, Surface::Prop(prop.to_owned()), EVal::Tree(el(tag, &[], kids)), !std && o.class != "QSpacerItem", binds);
    }

    fn size_policy(&mut self, o: &mut Obj, path: &[usize]) {
        let pols = ["Fixed", "Minimum", "Maximum", "Preferred", "Expanding", "MinimumExpanding", "Ignored"];
        let h = *self.ch.pick(&pols);
        let v = *self.ch.pick(&pols);
        let mut binds = vec![
            Bind::new("sizePolicy.horizontalPolicy", format!("QSizePolicy.{h}")),
            Bind::new("sizePolicy.verticalPolicy", format!("QSizePolicy.{v}")),
        ];
        let mut kids = vec![];
        if self.ch.chance(1, 3) {
            let s = self.ch.below(10);
            binds.push(Bind::new("sizePolicy.horizontalStretch", s.to_string()));
            kids.push(el_text("horstretch", &[], s.to_string()));
        }
        if self.ch.chance(1, 3) {
            let s = self.ch.below(10);
            binds.push(Bind::new("sizePolicy.verticalStretch", s.to_string()));
            kids.push(el_text("verstretch", &[], s.to_string()));
        }
        let k = self.ch.below(binds.len());
        binds.rotate_left(k);
        self.push(o, path, "gadget-sizepolicy", Surface::Prop("sizePolicy".into()),
            EVal::Tree(el("sizepolicy", &[("hsizetype", h.to_owned()), ("vsizetype", v.to_owned())], kids)), false, binds);
    }

    fn palette(&mut self, o: &mut Obj, path: &[usize]) {
        // default roles (palette.window: c) apply to all three groups unless the group overrides them
        let mut defaults: Vec<(String, &str)> = vec![];
        let mut groups: Vec<(&str, Vec<(String, &str)>)> = vec![("active", vec![]), ("inactive", vec![]), ("disabled", vec![])];
        let mut binds = vec![];
        let n = 1 + self.ch.below(5);
        let mut seen = BTreeSet::new();
        for _ in 0..n {
            let role = *self.ch.pick(ROLES);
            let color = *self.ch.pick(COLORS);
            let g = self.ch.below(4);
            let key = (g, role);
            if !seen.insert(key) {
                continue;
            }
            if g == 3 {
                defaults.push((cap(role), color));
                binds.push(Bind::new(format!("palette.{role}"), js_string(color)));
            } else {
                groups[g].1.push((cap(role), color));
                binds.push(Bind::new(format!("palette.{}.{role}", groups[g].0), js_string(color)));
            }
        }
        // bindings of one group must be adjacent for grouped printing; order does not matter
        binds.sort_by(|a, b| a.path.cmp(&b.path));
        let mut kids = vec![];
        for (gname, roles) in &groups {
            let mut merged: Vec<(String, &str)> = roles.clone();
            for (r, c) in &defaults {
                if !merged.iter().any(|(mr, _)| mr == r) {
                    merged.push((r.clone(), c));
                }
            }
            let role_els = merged.iter().map(|(r, c)| el("colorrole", &[("role", r.clone())], vec![solid_brush_el(c).unwrap()])).collect();
            kids.push(el(gname, &[], role_els));
        }
        self.push(o, path, "gadget-palette", Surface::Prop("palette".into()), EVal::Tree(el("palette", &[], kids)), false, binds);
    }

    fn icon(&mut self, o: &mut Obj, path: &[usize], prop: &str, surface: Surface) {
        let mut binds = vec![];
        let mut attrs: Vec<(&str, String)> = vec![];
        let mut kids = vec![];
        if self.ch.chance(1, 2) {
            let (text, s, _) = gen_str_value(self.ch, self.strings, false);
            binds.push(Bind::new(format!("{prop}.name"), text));
            attrs.push(("theme", s));
        }
        let states = ["normalOff", "normalOn", "disabledOff", "activeOn", "selectedOff"];
        let n = if binds.is_empty() { 1 + self.ch.below(2) } else { self.ch.below(3) };
        let mut seen = BTreeSet::new();
        for _ in 0..n {
            let st = *self.ch.pick(&states);
            if !seen.insert(st) {
                continue;
            }
            let px = if self.strings == StrMode::Xml && self.ch.chance(1, 2) { gen_string(self.ch, StrMode::Xml) } else { (*self.ch.pick(PIXMAPS)).to_owned() };
            binds.push(Bind::new(format!("{prop}.{st}"), js_string(&px)));
            kids.push(el_text(&st.to_ascii_lowercase(), &[], px));
        }
        let std = meta().prop(&o.class, prop).map(|p| p.std_set).unwrap_or(true);
        let stdset0 = matches!(surface, Surface::Prop(_)) && !std;
        self.push(o, path, "gadget-icon", surface, EVal::Tree(el("iconset", &attrs, kids)), stdset0, binds);
    }

    fn brush(&mut self, o: &mut Obj, path: &[usize], prop: &str) {
        let color = *self.ch.pick(COLORS);
        if self.ch.chance(1, 2) {
            self.push(o, path, "brush-solid", Surface::Prop(prop.into()), EVal::Tree(solid_brush_el(color).unwrap()), false, vec![Bind::new(prop, js_string(color))]);
        } else {
            let style = *self.ch.pick(&["Dense4Pattern", "SolidPattern", "CrossPattern", "NoBrush"]);
            let binds = vec![Bind::new(format!("{prop}.color"), js_string(color)), Bind::new(format!("{prop}.style"), format!("Qt.{style}"))];
            self.push(o, path, "gadget-brush", Surface::Prop(prop.into()),
                EVal::Tree(el("brush", &[("brushstyle", style.to_owned())], vec![color_el(color).unwrap()])), false, binds);
        }
    }

    fn rich_one(&mut self, o: &mut Obj, path: &[usize], used: &mut BTreeSet<String>, in_tab: bool) {
        let k = kind_of(&o.class);
        let m = meta();
        let is = |base: &str| m.derives(&o.class, base);
        let mut cands: Vec<&'static str> = vec![];
        if k == Kind::Widget {
            cands.extend(["font", "sizePolicy", "geometry", "minimumSize", "palette", "cursor", "windowIcon"]);
            if is("QAbstractButton") { cands.extend(["icon", "iconSize", "shortcut"]); }
            if is("QPushButton") { cands.push("default_"); }
            if is("QLabel") { cands.push("pixmap"); }
            if is("QComboBox") || is("QListWidget") { cands.push("model"); }
            if is("QTableView") { cands.extend(["horizontalHeader", "verticalHeader"]); }
            if is("QTreeView") { cands.push("header"); }
            if is("QGraphicsView") { cands.push("backgroundBrush"); }
            if o.class == "VSrc" { cands.push("sl0"); }
            if in_tab { cands.extend(["tab-toolTip", "tab-icon", "tab-whatsThis"]); }
        } else if k == Kind::Action {
            cands.extend(["font", "icon", "shortcut"]);
        } else if k == Kind::Layout {
            cands.push("contentsMargins");
        } else if k == Kind::Spacer {
            cands.push("sizeHint");
        }
        if cands.is_empty() {
            return;
        }
        // class-specific kinds would drown among the generic widget kinds: favour them
        let generic = ["font", "sizePolicy", "geometry", "minimumSize", "palette", "cursor", "windowIcon"];
        let specific: Vec<&'static str> = cands.iter().copied().filter(|c| !generic.contains(c)).collect();
        let c = if !specific.is_empty() && k == Kind::Widget && self.ch.chance(1, 2) { *self.ch.pick(&specific) } else { *self.ch.pick(&cands) };
        let key = c.to_owned();
        if !used.insert(key) {
            return;
        }
        match c {
            "font" => {
                let std = m.prop(&o.class, "font").map(|p| p.std_set).unwrap_or(true);
                self.font(o, path, "font", !std)
            }
            "sizePolicy" => self.size_policy(o, path),
            "geometry" => self.size_like(o, path, "geometry", "rect", &["x", "y", "width", "height"]),
            "minimumSize" => {
                let p = *self.ch.pick(&["minimumSize", "maximumSize", "baseSize"]);
                if used.insert(p.to_owned()) || p == "minimumSize" {
                    self.size_like(o, path, p, "size", &["width", "height"])
                }
            }
            "iconSize" => self.size_like(o, path, "iconSize", "size", &["width", "height"]),
            "sizeHint" => self.size_like(o, path, "sizeHint", "size", &["width", "height"]),
            "palette" => self.palette(o, path),
            "cursor" => {
                let v = *self.ch.pick(&["ArrowCursor", "IBeamCursor", "WaitCursor", "PointingHandCursor", "BlankCursor"]);
                self.push(o, path, "cursor", Surface::Prop("cursor".into()), EVal::CursorShape(v.into()), false, vec![Bind::new("cursor", format!("Qt.{v}"))]);
            }
            "windowIcon" | "icon" => self.icon(o, path, c, Surface::Prop(c.into())),
            "shortcut" => {
                if self.ch.chance(1, 2) {
                    let v = *self.ch.pick(&["Copy", "Paste", "Open", "Save", "HelpContents"]);
                    self.push(o, path, "keysequence-enum", Surface::Prop("shortcut".into()), EVal::Enum(format!("QKeySequence::{v}")), false, vec![Bind::new("shortcut", format!("QKeySequence.{v}"))]);
                } else {
                    let (text, s, tr) = if self.strings == StrMode::Xml { gen_str_value(self.ch, StrMode::Xml, true) } else { let s = (*self.ch.pick(&["Ctrl+C", "Alt+F4", "F1", "Ctrl+Shift+<"])).to_owned(); (js_string(&s), s, false) };
                    self.push(o, path, "keysequence-string", Surface::Prop("shortcut".into()), EVal::Str { s, tr }, false, vec![Bind::new("shortcut", text)]);
                }
            }
            "default_" => {
                let b = self.ch.chance(1, 2);
                self.push(o, path, "pseudo-default", Surface::Prop("default".into()), EVal::Bool(b), false, vec![Bind::new("default_", b.to_string())]);
            }
            "pixmap" => {
                let px = if self.strings == StrMode::Xml { gen_string(self.ch, StrMode::Xml) } else { (*self.ch.pick(PIXMAPS)).to_owned() };
                self.push(o, path, "pixmap", Surface::Prop("pixmap".into()), EVal::Pixmap(px.clone()), false, vec![Bind::new("pixmap", js_string(&px))]);
            }
            "model" => {
                let n = self.ch.below(5);
                let tr = self.ch.chance(1, 3);
                let mut items = vec![];
                let mut texts = vec![];
                for _ in 0..n {
                    let s = gen_string(self.ch, self.strings);
                    texts.push(if tr { format!("qsTr({})", js_string(&s)) } else { js_string(&s) });
                    items.push((s, tr));
                }
                self.push(o, path, "pseudo-model", Surface::Items, EVal::ModelItems(items), false, vec![Bind::new("model", format!("[{}]", texts.join(", ")))]);
            }
            "sl0" => {
                let n = self.ch.below(5);
                let tr = n > 0 && self.ch.chance(1, 3);
                let mut items = vec![];
                let mut texts = vec![];
                for _ in 0..n {
                    let s = gen_string(self.ch, self.strings);
                    texts.push(if tr { format!("qsTr({})", js_string(&s)) } else { js_string(&s) });
                    items.push(s);
                }
                self.push(o, path, "string-list", Surface::Prop("sl0".into()), EVal::StrList { items, tr }, false, vec![Bind::new("sl0", format!("[{}]", texts.join(", ")))]);
            }
            "horizontalHeader" | "verticalHeader" | "header" => {
                let hp: Vec<PropInfo> = simple_props("QHeaderView").into_iter().filter(|p| p.owner == "QHeaderView").collect();
                let n = 1 + self.ch.below(3);
                let mut seen = BTreeSet::new();
                for _ in 0..n {
                    let p = self.ch.pick(&hp).clone();
                    if !seen.insert(p.name.clone()) {
                        continue;
                    }
                    if let Some((text, val)) = gen_value(self.ch, &p.ty, self.strings) {
                        let attr = format!("{c}{}", cap(&p.name));
                        self.push(o, path, "pseudo-header-map", Surface::Attr(attr), val, !p.std_set, vec![Bind::new(format!("{c}.{}", p.name), text)]);
                    }
                }
            }
            "backgroundBrush" => self.brush(o, path, "backgroundBrush"),
            "contentsMargins" => {
                let sides = ["left", "top", "right", "bottom"];
                let all = self.ch.chance(1, 2);
                for s in sides {
                    if all || self.ch.chance(1, 2) {
                        let v = self.ch.below(30) as i64;
                        self.push(o, path, "pseudo-contents-margins", Surface::Prop(format!("{s}Margin")), EVal::Int(v), false, vec![Bind::new(format!("contentsMargins.{s}"), v.to_string())]);
                    }
                }
            }
            "tab-toolTip" | "tab-whatsThis" => {
                let name = &c[4..];
                let (text, s, tr) = gen_str_value(self.ch, self.strings, true);
                self.push(o, path, "attached-tab", Surface::Attr(name.into()), EVal::Str { s, tr }, false, vec![Bind::new(format!("QTabWidget.{name}"), text)]);
            }
            "tab-icon" => self.icon(o, path, "QTabWidget.icon", Surface::Attr("icon".into())),
            _ => {}
        }
    }
}

/// Adds constant bindings to every object (0..=max_per_obj attempts each) and records what the
/// .ui must show. With `rich` the whole catalogue is used (gadgets, pseudo properties, attached
/// tab properties), otherwise only scalar properties.
pub fn decorate(ch: &mut Chooser, root: &mut Obj, max_per_obj: usize, strings: StrMode, rich: bool, expects: &mut Vec<Expect>) {
    fn rec(d: &mut Deco, o: &mut Obj, path: &mut Vec<usize>, max: usize, in_tab: bool) {
        if !is_separator(o) {
            let n = d.ch.below(max + 1);
            let mut used: BTreeSet<String> = o.binds.iter().map(|b| first_seg(&b.path).to_owned()).collect();
            // tab titles generated with the tree become expectations too
            for _ in 0..n {
                if d.rich && d.ch.chance(2, 5) {
                    d.rich_one(o, path, &mut used, in_tab);
                } else {
                    d.scalar(o, path, &mut used);
                }
            }
        }
        let tab = o.class == "QTabWidget";
        for (i, c) in o.children.iter_mut().enumerate() {
            path.push(i);
            rec(d, c, path, max, tab);
            path.pop();
        }
    }
    let mut d = Deco { ch, strings, expects, rich };
    rec(&mut d, root, &mut vec![], max_per_obj, false);
}

fn first_seg(p: &str) -> &str {
    p.split('.').next().unwrap()
}

pub fn decorate_simple(ch: &mut Chooser, root: &mut Obj, max_per_obj: usize, strings: StrMode, expects: &mut Vec<Expect>) {
    decorate(ch, root, max_per_obj, strings, false, expects)
}

/// Structural equivalence up to child order and whitespace-only text (a = emitted, b = expected).
pub fn elem_equiv(a: &Elem, b: &Elem) -> bool {
    if a.name != b.name {
        return false;
    }
    let mut aa = a.attrs.clone();
    let mut ba = b.attrs.clone();
    aa.sort();
    ba.sort();
    if aa != ba {
        return false;
    }
    let ae: Vec<&Elem> = a.elems().collect();
    let be: Vec<&Elem> = b.elems().collect();
    if ae.len() != be.len() {
        return false;
    }
    if ae.is_empty() {
        if b.text() == CONTAINER_MARK {
            // expected: a container without children; blank text (indentation) is fine
            return !a.has_nonblank_text();
        }
        return a.text() == b.text();
    }
    if a.has_nonblank_text() || b.has_nonblank_text() {
        return false;
    }
    let mut usedb = vec![false; be.len()];
    for x in &ae {
        let mut found = false;
        for (j, y) in be.iter().enumerate() {
            if !usedb[j] && elem_equiv(x, y) {
                usedb[j] = true;
                found = true;
                break;
            }
        }
        if !found {
            return false;
        }
    }
    true
}

/// Compares a decoded value with the expectation.
pub fn value_matches(got: &crate::form::FValue, want: &EVal) -> bool {
    use crate::form::FValue as F;
    match (got, want) {
        (F::Bool(a), EVal::Bool(b)) => a == b,
        (F::Number(s), EVal::Int(v)) => s.parse::<i64>().map(|x| x == *v).unwrap_or(false),
        (F::Number(s), EVal::Double(v)) => s.parse::<f64>().map(|x| x == *v).unwrap_or(false),
        (F::Str { text, notr }, EVal::Str { s, tr }) => text == s && *notr != *tr,
        (F::Enum(a), EVal::Enum(b)) => a == b,
        (F::Set(a), EVal::Set(b)) => &a.split('|').map(|x| x.to_owned()).collect::<BTreeSet<_>>() == b,
        (F::Cstring(a), EVal::Cstring(b)) => a == b,
        (F::StringList { items, notr }, EVal::StrList { items: w, tr }) => items == w && (*notr != *tr),
        (F::CursorShape(a), EVal::CursorShape(b)) => a == b,
        (F::Pixmap(a), EVal::Pixmap(b)) => a == b,
        (F::Other(e), EVal::Tree(w)) => elem_equiv(e, w),
        _ => false,
    }
}

/// Finds the decoded object for a model path (separators have no element).
pub fn fobj_at<'f>(root: &Obj, f: &'f crate::form::Form, path: &[usize]) -> Option<&'f crate::form::FObj> {
    let mut cur = &f.root;
    let mut m = root;
    for i in path {
        if is_separator(m.children.get(*i)?) {
            return None;
        }
        let pos = m.children.iter().enumerate().filter(|(_, c)| !is_separator(c)).position(|(k, _)| k == *i)?;
        cur = &cur.children.get(pos)?.obj;
        m = &m.children[*i];
    }
    Some(cur)
}

/// Checks every expectation against the decoded form. Err((aspect, description)).
pub fn check_expects(root: &Obj, f: &crate::form::Form, expects: &[Expect]) -> Result<(), (String, String)> {
    for e in expects {
        let Some(fo) = fobj_at(root, f, &e.obj) else {
            return Err(("object-missing".into(), format!("object {:?} not found in the form", e.obj)));
        };
        let describe = || format!("{} binding(s) {:?} of object {:?} ({})", e.kind, e.binds.iter().map(|i| root.at(&e.obj).binds[*i].path.clone()).collect::<Vec<_>>(), e.obj, root.at(&e.obj).class);
        match &e.surface {
            Surface::Prop(n) | Surface::Attr(n) => {
                let is_attr = matches!(e.surface, Surface::Attr(_));
                let found = if is_attr { fo.attr(n) } else { fo.prop(n) };
                let Some(p) = found else {
                    return Err((format!("{}-missing", e.kind), format!("{}: no <{} name={:?}> under {:?}", describe(), if is_attr { "attribute" } else { "property" }, n, fo.name)));
                };
                if !value_matches(&p.value, &e.value) {
                    return Err((format!("{}-value", e.kind), format!("{}: emitted {:?}, expected {:?}", describe(), p.value, e.value)));
                }
                if p.stdset0 != e.stdset0 {
                    return Err((format!("{}-stdset", e.kind), format!("{}: stdset=\"0\" is {}, expected {}", describe(), p.stdset0, e.stdset0)));
                }
            }
            Surface::Items => {
                let EVal::ModelItems(want) = &e.value else { continue };
                let got: Vec<(String, bool)> = fo
                    .model_items
                    .iter()
                    .map(|props| match props.iter().find(|p| p.name == "text").map(|p| &p.value) {
                        Some(crate::form::FValue::Str { text, notr }) => (text.clone(), !*notr),
                        _ => ("<no text property>".to_owned(), false),
                    })
                    .collect();
                if &got != want {
                    return Err(("model-items".into(), format!("{}: items {:?}, expected {:?}", describe(), got, want)));
                }
            }
        }
    }
    Ok(())
}

// ---------------------------------------------------------------------------------------------
// dynamic bindings and handlers (simple catalogue; the full expression language lives in lang.rs)

#[derive(Clone, Debug, PartialEq)]
pub enum DynKind {
    /// property binding evaluated at run time: (property, setter function)
    Binding { prop: String, setter: String },
    /// signal handler: (signal name, number of arguments the signal's longest variant carries)
    Handler { signal: String },
}

#[derive(Clone, Debug, PartialEq)]
pub struct Dyn {
    pub obj: Vec<usize>,
    pub bind: usize,
    pub kind: DynKind,
}

/// (class, property, type) usable as notifying sources
const SOURCES: &[(&str, &str, &str)] = &[
    ("QCheckBox", "checked", "bool"),
    ("QPushButton", "checked", "bool"),
    ("QGroupBox", "checked", "bool"),
    ("QSpinBox", "value", "int"),
    ("QSlider", "value", "int"),
    ("QProgressBar", "value", "int"),
    ("QLineEdit", "text", "str"),
    ("QDoubleSpinBox", "value", "double"),
    ("QComboBox", "currentText", "str"),
    ("QTabWidget", "currentIndex", "int"),
    ("QStackedWidget", "currentIndex", "int"),
    ("VSrc", "i0", "int"),
    ("VSrc", "b0", "bool"),
    ("VSrc", "s0", "str"),
    ("VSrc", "d0", "double"),
];

/// signals without true overloads in the Qt 5 metatypes: (class, signal, parameter list)
const SIGNALS: &[(&str, &str, &[(&str, &str)])] = &[
    ("QAbstractButton", "clicked", &[("c", "bool")]),
    ("QAbstractButton", "toggled", &[("c", "bool")]),
    ("QAbstractButton", "pressed", &[]),
    ("QLineEdit", "textChanged", &[("t", "QString")]),
    ("QLineEdit", "returnPressed", &[]),
    ("QSlider", "valueChanged", &[("v", "int")]),
    ("QDialogButtonBox", "accepted", &[]),
    ("QDialogButtonBox", "rejected", &[]),
    ("QAction", "triggered", &[("c", "bool")]),
    ("QAction", "toggled", &[("c", "bool")]),
    ("QComboBox", "currentTextChanged", &[("t", "QString")]),
    ("QGroupBox", "toggled", &[("c", "bool")]),
    ("QTabWidget", "currentChanged", &[("i", "int")]),
    ("VSig", "fired", &[]),
    ("VSig", "firedI", &[("i", "int")]),
    ("VSig", "firedIS", &[("i", "int"), ("s", "QString")]),
];

pub struct SourceRef {
    pub path: Vec<usize>,
    pub id: String,
    pub class: String,
}

/// Objects with ids whose class offers a notifying source property.
pub fn sources_in(root: &Obj) -> Vec<SourceRef> {
    root.flat()
        .into_iter()
        .filter_map(|(p, o)| {
            let id = o.id.clone()?;
            if kind_of(&o.class) != Kind::Widget {
                return None;
            }
            Some(SourceRef { path: p, id, class: o.class.clone() })
        })
        .collect()
}

fn source_exprs(ch: &mut Chooser, srcs: &[SourceRef], ty: &str) -> Option<String> {
    let m = meta();
    // every widget notifies windowTitle
    let mut cands: Vec<String> = vec![];
    for s in srcs {
        for (c, p, t) in SOURCES {
            if *t == ty && m.derives(&s.class, c) {
                cands.push(format!("{}.{}", s.id, p));
            }
        }
        if ty == "str" {
            cands.push(format!("{}.windowTitle", s.id));
        }
    }
    if cands.is_empty() {
        return None;
    }
    Some(ch.pick(&cands).clone())
}

/// A dynamic expression of the given type ("bool" | "int" | "double" | "str") over the sources.
pub fn gen_dyn_expr(ch: &mut Chooser, srcs: &[SourceRef], ty: &str) -> Option<String> {
    let k = ch.below(5);
    Some(match (ty, k) {
        ("bool", 0) | ("bool", 1) => source_exprs(ch, srcs, "bool")?,
        ("bool", 2) => format!("!{}", source_exprs(ch, srcs, "bool")?),
        ("bool", 3) => format!("{} > {}", source_exprs(ch, srcs, "int")?, ch.below(10)),
        ("bool", _) => format!("{}.isEmpty()", source_exprs(ch, srcs, "str")?),
        ("int", 0) | ("int", 1) => source_exprs(ch, srcs, "int")?,
        ("int", 2) => format!("{} + {}", source_exprs(ch, srcs, "int")?, 1 + ch.below(9)),
        ("int", 3) => format!("Math.max({}, {})", source_exprs(ch, srcs, "int")?, ch.below(50)),
        ("int", _) => format!("{} ? {} : {}", source_exprs(ch, srcs, "bool")?, ch.below(10), 10 + ch.below(10)),
        ("double", 0) | ("double", 1) => source_exprs(ch, srcs, "double")?,
        ("double", 2) => format!("{} * 2.5", source_exprs(ch, srcs, "double")?),
        // (std::fmod, <cmath>) and (std::min, <algorithm>): several standard headers in one support header
        ("double", 3) => format!("{} % 2.5", source_exprs(ch, srcs, "double")?),
        ("double", _) => format!("Math.min({}, 1.5)", source_exprs(ch, srcs, "double")?),
        ("str", 0) | ("str", 1) => source_exprs(ch, srcs, "str")?,
        ("str", 2) => format!("\"[\" + {} + \"]\"", source_exprs(ch, srcs, "str")?),
        ("str", 3) => format!("{} ? qsTr(\"on\") : qsTr(\"off\")", source_exprs(ch, srcs, "bool")?),
        ("str", _) => format!("qsTr(\"%1 items\").arg({})", source_exprs(ch, srcs, "int")?),
        _ => return None,
    })
}

/// Adds dynamic property bindings and signal handlers. Sources are objects that already have
/// ids; call `plant_sources` first to make sure there are some.
pub fn add_dynamic(ch: &mut Chooser, root: &mut Obj, per_obj_num: u32, per_obj_den: u32, dyns: &mut Vec<Dyn>) {
    let srcs = sources_in(root);
    let m = meta();
    let root_id = root.id.clone();
    let paths: Vec<Vec<usize>> = root.flat().into_iter().map(|(p, _)| p).collect();
    let ids: Vec<(String, String)> = root.flat().iter().filter_map(|(_, o)| o.id.clone().map(|i| (i, o.class.clone()))).filter(|(_, c)| kind_of(c) == Kind::Widget).collect();
    for p in paths {
        let o = root.at(&p);
        if is_separator(o) {
            // a separator with a signal handler is an ordinary action (in every mode): its `separator: true`
            // becomes a support-code binding, the handler a callback
            if ch.chance(1, 8) {
                let (sig, body) = *ch.pick(&[("triggered", "console.log(\"sep\")"), ("toggled", "{ console.log(\"sep\") }"), ("triggered", "function() { console.log(\"sep\") }")]);
                let o = root.at_mut(&p);
                dyns.push(Dyn { obj: p.clone(), bind: 0, kind: DynKind::Binding { prop: "separator".to_owned(), setter: "setSeparator".to_owned() } });
                o.binds.push(Bind::new(format!("on{}", cap(sig)), body));
                dyns.push(Dyn { obj: p.clone(), bind: o.binds.len() - 1, kind: DynKind::Handler { signal: sig.to_owned() } });
                ch.label("separator-action-with-handler");
            }
            continue;
        }
        let k = kind_of(&o.class);
        let class = o.class.clone();
        let mut used: BTreeSet<String> = o.binds.iter().map(|b| first_seg(&b.path).to_owned()).collect();
        // property bindings on widgets and actions
        if matches!(k, Kind::Widget | Kind::Action) && !srcs.is_empty() {
            let tries = if ch.chance(per_obj_num, per_obj_den) { 1 + ch.below(3) } else { 0 };
            // (a dynamic binding needs the getter too: gadget maps read-modify-write, and the translator
            // insists on it for every dynamic binding)
            let props: Vec<PropInfo> = simple_props(&class).into_iter().filter(|p| matches!(p.ty, Ty::Bool | Ty::Int | Ty::Double | Ty::Str) && p.read.is_some()).collect();
            for _ in 0..tries {
                if props.is_empty() {
                    break;
                }
                let pi = ch.pick(&props).clone();
                if used.contains(&pi.name) {
                    continue;
                }
                let ty = match pi.ty {
                    Ty::Bool => "bool",
                    Ty::Int => "int",
                    Ty::Double => "double",
                    _ => "str",
                };
                if let Some(e) = gen_dyn_expr(ch, &srcs, ty) {
                    used.insert(pi.name.clone());
                    let o = root.at_mut(&p);
                    o.binds.push(Bind::new(pi.name.clone(), e));
                    dyns.push(Dyn { obj: p.clone(), bind: o.binds.len() - 1, kind: DynKind::Binding { prop: pi.name.clone(), setter: pi.write.clone().unwrap_or_default() } });
                    ch.label("dynamic-binding");
                }
            }
        }
        // `separator` of an action that is not a pure separator: not a Q_PROPERTY, so even a constant
        // value cannot go into the .ui; it is a binding of the support code
        if k == Kind::Action && !used.contains("separator") && ch.chance(1, 5) {
            let o = root.at(&p);
            let value = if ch.chance(1, 2) { "true" } else { "false" };
            // (a lone `separator: false` is silently dropped by the translator: known finding of C04, probed there)
            if !o.binds.is_empty() {
                let o = root.at_mut(&p);
                o.binds.push(Bind::new("separator", value));
                used.insert("separator".to_owned());
                dyns.push(Dyn { obj: p.clone(), bind: o.binds.len() - 1, kind: DynKind::Binding { prop: "separator".to_owned(), setter: "setSeparator".to_owned() } });
                ch.label("constant-separator-next-to-other-bindings");
            }
        }
        // handlers
        let sigs: Vec<&(&str, &str, &[(&str, &str)])> = SIGNALS.iter().filter(|(c, _, _)| m.derives(&class, c)).collect();
        let n_handlers = if !sigs.is_empty() && ch.chance(per_obj_num, per_obj_den) { 1 + ch.weighted(&[60, 25, 15]) } else { 0 };
        for _ in 0..n_handlers {
            let (_, sig, params) = **ch.pick(&sigs);
            let hname = format!("on{}", cap(sig));
            if !used.insert(hname.clone()) {
                continue;
            }
            let target = if !ids.is_empty() && ch.chance(3, 4) { Some(ch.pick(&ids).clone()) } else { None };
            let np = ch.below(params.len() + 1);
            let plist = params[..np].iter().map(|(n, t)| format!("{n}: {t}")).collect::<Vec<_>>().join(", ");
            let stmt = match (&target, ch.below(5)) {
                (Some((id, _)), 0) => format!("{id}.setFocus()"),
                (Some((id, _)), 1) => format!("{id}.windowTitle = \"clicked\""),
                (Some((id, _)), 2) => format!("{id}.enabled = !{id}.enabled"),
                (Some((id, _)), 3) if np >= 1 && params[0].1 == "bool" => format!("{id}.visible = {}", params[0].0),
                (Some((id, _)), 3) if np >= 1 && params[0].1 == "QString" => format!("{id}.toolTip = {}", params[0].0),
                _ => match &root_id {
                    Some(r) if ch.chance(1, 2) => format!("{r}.close()"),
                    _ => "console.log(\"handler\")".to_owned(),
                },
            };
            let text = if np > 0 {
                format!("function({plist}) {{ {stmt} }}")
            } else {
                match ch.below(3) {
                    0 => stmt.clone(),
                    1 => format!("{{ {stmt} }}"),
                    _ => format!("function() {{ {stmt} }}"),
                }
            };
            let o = root.at_mut(&p);
            o.binds.push(Bind::new(hname, text));
            dyns.push(Dyn { obj: p.clone(), bind: o.binds.len() - 1, kind: DynKind::Handler { signal: sig.to_owned() } });
            ch.label("signal-handler");
        }
    }
}

/// Swaps some leaf widgets for classes with notifying properties / plain signals and gives them
/// ids, so that `add_dynamic` has something to read.
pub fn plant_sources(ch: &mut Chooser, root: &mut Obj, num: u32, den: u32) {
    let paths: Vec<Vec<usize>> = root.flat().into_iter().map(|(p, _)| p).collect();
    let mut n = 0;
    for p in paths {
        let o = root.at_mut(&p);
        if LEAF_WIDGETS.contains(&o.class.as_str()) && ch.chance(num, den) {
            o.class = (*ch.pick(&["QCheckBox", "QSpinBox", "QLineEdit", "QSlider", "QDoubleSpinBox", "QComboBox", "VSrc", "QPushButton", "VSig", "QDialogButtonBox"])).to_owned();
            if o.id.is_none() {
                o.id = Some(format!("s{n}"));
                n += 1;
            }
        }
    }
    if root.id.is_none() && ch.chance(1, 2) {
        root.id = Some("root".to_owned());
    }
}

// ---------------------------------------------------------------------------------------------
// planted faults

#[derive(Clone, Debug, PartialEq)]
pub enum FaultSite {
    /// a faulty binding was appended to the object: (object path, binding index)
    Bind { obj: Vec<usize>, bind: usize },
    /// a faulty child object was inserted at this path
    Object { path: Vec<usize> },
}

#[derive(Clone, Debug, PartialEq)]
pub struct Fault {
    pub kind: &'static str,
    pub site: FaultSite,
}

pub const BINDING_FAULTS: &[&str] = &[
    "unknown-property", "unknown-signal", "ill-typed-constant", "ill-typed-dynamic", "unsupported-expression", "dynamic-to-read-only",
    "unknown-attached-type", "no-attached-class", "unused-attached", "handler-on-non-signal", "handler-as-map", "invalid-color", "duplicate-property",
    "duplicate-attached", "dynamic-on-pseudo-object", "nested-dynamic-in-group",
];
pub const OBJECT_FAULTS: &[&str] = &["unknown-object-type", "invalid-object-type"];

/// Plants exactly one fault of one of the `allowed` kinds on a random object of an otherwise
/// accepted document. Returns None when no object can host the chosen kind.
pub fn plant_fault(ch: &mut Chooser, root: &mut Obj, allowed: &[&'static str]) -> Option<Fault> {
    let kind = *ch.pick(allowed);
    let flat: Vec<(Vec<usize>, String, bool)> = root.flat().into_iter().map(|(p, o)| (p, o.class.clone(), is_separator(o))).collect();
    let widgets: Vec<&(Vec<usize>, String, bool)> = flat.iter().filter(|(_, c, _)| kind_of(c) == Kind::Widget).collect();
    let hosts: Vec<&(Vec<usize>, String, bool)> = flat.iter().filter(|(_, c, s)| matches!(kind_of(c), Kind::Widget | Kind::Action | Kind::Layout) && !*s).collect();
    let mut push = |root: &mut Obj, p: &Vec<usize>, path: &str, value: &str| -> Fault {
        let o = root.at_mut(p);
        o.binds.push(Bind::new(path, value));
        Fault { kind, site: FaultSite::Bind { obj: p.clone(), bind: o.binds.len() - 1 } }
    };
    let free = |root: &Obj, p: &Vec<usize>, name: &str| !root.at(p).binds.iter().any(|b| first_seg(&b.path) == name);
    if widgets.is_empty() || hosts.is_empty() {
        return None;
    }
    match kind {
        "unknown-property" => {
            let h = (*ch.pick(&hosts)).0.clone();
            Some(push(root, &h, *ch.pick(&["bogusProp", "txet", "windowtitle", "Text2"].iter().filter(|n| n.starts_with(|c: char| c.is_ascii_lowercase())).copied().collect::<Vec<_>>()), "1"))
        }
        "unknown-signal" => {
            let h = (*ch.pick(&hosts)).0.clone();
            Some(push(root, &h, "onBogusHappened", "console.log(\"x\")"))
        }
        "ill-typed-constant" => {
            let w = (*ch.pick(&widgets)).0.clone();
            let (n, v) = *ch.pick(&[("windowTitle", "1"), ("enabled", "\"yes\""), ("toolTip", "true"), ("minimumWidth", "1.5"), ("minimumHeight", "\"3\""), ("windowOpacity", "1"), ("focusPolicy", "3"), ("toolTip", "1 + \"a\"")]);
            free(root, &w, n).then(|| push(root, &w, n, v))
        }
        // the result type of a dynamic binding is only checked by the C++ pass (generate mode)
        "ill-typed-dynamic" => {
            let w = (*ch.pick(&widgets)).0.clone();
            let (n, v) = *ch.pick(&[("enabled", "windowTitle"), ("toolTip", "windowTitle + 1"), ("minimumWidth", "windowTitle"), ("statusTip", "windowTitle ? \"a\" : \"b\""), ("whatsThis", "windowTitle.isEmpty()")]);
            free(root, &w, n).then(|| push(root, &w, n, v))
        }
        // type errors among the operands are found while the expression is built (every mode)
        "ill-typed-dynamic-operands" => {
            let w = (*ch.pick(&widgets)).0.clone();
            let (n, v) = *ch.pick(&[("toolTip", "windowTitle + 1"), ("statusTip", "windowTitle ? \"a\" : \"b\""), ("whatsThis", "windowTitle - \"x\""), ("toolTip", "!windowTitle ? \"a\" : \"b\""), ("minimumWidth", "Math.max(windowTitle, 1)")]);
            free(root, &w, n).then(|| push(root, &w, n, v))
        }
        "unsupported-expression" => {
            let w = (*ch.pick(&widgets)).0.clone();
            let (n, v) = *ch.pick(&[("toolTip", "typeof 1"), ("toolTip", "`tpl`"), ("minimumWidth", "2 ** 3"), ("minimumWidth", "1 >>> 1"), ("enabled", "1 in [1]"), ("toolTip", "windowTitle ?? \"x\""), ("minimumWidth", "(function() { return 1 })()"), ("toolTip", "{ for (;;) {} }")]);
            free(root, &w, n).then(|| push(root, &w, n, v))
        }
        "dynamic-to-read-only" => {
            let w = (*ch.pick(&widgets)).0.clone();
            let (n, v) = *ch.pick(&[("width", "windowTitle.isEmpty() ? 1 : 2"), ("height", "windowTitle.isEmpty() ? 1 : 2"), ("x", "minimumWidth"), ("isActiveWindow", "true")]);
            free(root, &w, n).then(|| push(root, &w, n, v))
        }
        // a dynamic binding on a spacer property: this pseudo object exists only in the .ui,
        // so the binding can neither be embedded nor generated and must be diagnosed (generate and reject mode)
        "dynamic-on-pseudo-object" => {
            let srcs: Vec<String> = root.flat().iter().filter(|(_, o)| kind_of(&o.class) == Kind::Widget).filter_map(|(_, o)| o.id.clone()).collect();
            // (layouts are real objects: a dynamic binding on e.g. spacing is supported)
            let pseudo: Vec<&(Vec<usize>, String, bool)> = flat.iter().filter(|(_, c, _)| c == "QSpacerItem").collect();
            if srcs.is_empty() || pseudo.is_empty() {
                return None;
            }
            let (h, class, _) = (*ch.pick(&pseudo)).clone();
            let src = ch.pick(&srcs).clone();
            let _ = class;
            let (n, v) = ("orientation", format!("{src}.windowTitle.isEmpty() ? Qt.Horizontal : Qt.Vertical"));
            free(root, &h, n).then(|| push(root, &h, n, &v))
        }
        // two dynamic members in an object-valued group (the header view of an item view): not supported,
        // one error for the group, reported at one of the members
        "nested-dynamic-in-group" => {
            let srcs: Vec<String> = root.flat().iter().filter(|(_, o)| kind_of(&o.class) == Kind::Widget).filter_map(|(_, o)| o.id.clone()).collect();
            let views: Vec<&&(Vec<usize>, String, bool)> = widgets.iter().filter(|(_, c, _)| c == "QTreeView" || c == "QTableView").collect();
            if srcs.is_empty() || views.is_empty() {
                return None;
            }
            let (w, class, _) = (**ch.pick(&views)).clone();
            let group = if class == "QTreeView" { "header" } else { *ch.pick(&["horizontalHeader", "verticalHeader"]) };
            if !free(root, &w, group) {
                return None;
            }
            let src = ch.pick(&srcs).clone();
            root.at_mut(&w).binds.push(Bind::new(format!("{group}.defaultSectionSize"), format!("{src}.windowTitle.isEmpty() ? 10 : 20")));
            Some(push(root, &w, &format!("{group}.stretchLastSection"), &format!("{src}.windowTitle.isEmpty()")))
        }
        "unknown-attached-type" => {
            let h = (*ch.pick(&hosts)).0.clone();
            Some(push(root, &h, *ch.pick(&["Bogus.row", "QBogusLayout.column", "Keys.onPressed"].iter().filter(|s| !s.contains("on")).copied().collect::<Vec<_>>()), "1"))
        }
        "no-attached-class" => {
            let h = (*ch.pick(&hosts)).0.clone();
            Some(push(root, &h, *ch.pick(&["QLabel.row", "QWidget.title", "QAction.text"]), "1"))
        }
        "unused-attached" => {
            // QLayout.* on an object whose parent is not a layout; QTabWidget.* outside a tab widget
            let cands: Vec<&(Vec<usize>, String, bool)> = flat
                .iter()
                .filter(|(p, c, s)| {
                    !*s && matches!(kind_of(c), Kind::Widget | Kind::Action)
                        && (p.is_empty() || kind_of(&root.at(&p[..p.len() - 1]).class) != Kind::Layout)
                })
                .collect();
            if cands.is_empty() {
                return None;
            }
            let h = (*ch.pick(&cands)).0.clone();
            let in_tab = !h.is_empty() && root.at(&h[..h.len() - 1]).class == "QTabWidget";
            let opts: Vec<(&str, &str)> = if in_tab { vec![("QLayout.row", "1"), ("QLayout.alignment", "Qt.AlignLeft")] } else { vec![("QLayout.row", "1"), ("QLayout.columnStretch", "2"), ("QTabWidget.title", "\"t\""), ("QLayout.alignment", "Qt.AlignLeft")] };
            let (n, v) = *ch.pick(&opts);
            let attached_type = n.split('.').next().unwrap();
            // must not join an attached group the document already uses on this object
            if root.at(&h).binds.iter().any(|b| b.path.starts_with(attached_type)) {
                return None;
            }
            Some(push(root, &h, n, v))
        }
        "handler-on-non-signal" => {
            let w = (*ch.pick(&widgets)).0.clone();
            Some(push(root, &w, *ch.pick(&["onSetFocus", "onClose", "onUpdate"]), "console.log(\"x\")"))
        }
        "handler-as-map" => {
            let cands: Vec<&&(Vec<usize>, String, bool)> = widgets.iter().filter(|(_, c, _)| meta().derives(c, "QAbstractButton")).collect();
            if cands.is_empty() {
                return None;
            }
            let w = (**ch.pick(&cands)).0.clone();
            free(root, &w, "onClicked").then(|| push(root, &w, "onClicked.x", "1"))
        }
        "invalid-color" => {
            let w = (*ch.pick(&widgets)).0.clone();
            free(root, &w, "palette").then(|| push(root, &w, "palette.window", *ch.pick(&["\"#wtf\"", "\"notacolor\"", "\"#12345\"", "\"\""])))
        }
        "duplicate-property" => {
            // half of the time on an object that also has attached bindings (its place in a layout must survive)
            let attached: Vec<&&(Vec<usize>, String, bool)> = widgets.iter().filter(|(p, _, _)| root.at(p).binds.iter().any(|b| b.path == "QLayout.row" || b.path == "QLayout.column")).collect();
            let w = if !attached.is_empty() && ch.chance(2, 3) {
                ch.label("duplicate-property-on-object-with-explicit-cell");
                (**ch.pick(&attached)).0.clone()
            } else {
                (*ch.pick(&widgets)).0.clone()
            };
            let n = *ch.pick(&["toolTip", "statusTip", "whatsThis"]);
            if !free(root, &w, n) {
                return None;
            }
            root.at_mut(&w).binds.push(Bind::new(n, "\"first\""));
            Some(push(root, &w, n, "\"second\""))
        }
        "duplicate-attached" => {
            // second QLayout.row on a child of a grid layout
            let cands: Vec<&(Vec<usize>, String, bool)> = flat
                .iter()
                .filter(|(p, c, _)| !p.is_empty() && kind_of(c) == Kind::Widget && matches!(root.at(&p[..p.len() - 1]).class.as_str(), "QGridLayout" | "QFormLayout"))
                .collect();
            if cands.is_empty() {
                return None;
            }
            let h = (*ch.pick(&cands)).0.clone();
            if root.at(&h).binds.iter().any(|b| b.path == "QLayout.alignment") {
                return None;
            }
            root.at_mut(&h).binds.push(Bind::new("QLayout.alignment", "Qt.AlignLeft"));
            Some(push(root, &h, "QLayout.alignment", "Qt.AlignRight"))
        }
        "unknown-object-type" | "invalid-object-type" => {
            // a child object of unknown / non-class type under a widget, layout or menu
            let cands: Vec<&(Vec<usize>, String, bool)> = flat.iter().filter(|(_, c, s)| !*s && matches!(kind_of(c), Kind::Widget | Kind::Layout) && c != "QTabWidget").collect();
            if cands.is_empty() {
                return None;
            }
            let h = (*ch.pick(&cands)).0.clone();
            let cls = if kind == "unknown-object-type" { *ch.pick(&["Bogus", "QBogusWidget", "Labell", "QStringList"]) } else { "QVariant" /* a type without class representation; QString, QFont, ... are classes for the translator */ };
            let mut child = Obj::new(cls);
            // give the faulty object a subtree and bindings of its own: all of it must vanish
            if ch.chance(1, 2) {
                child.binds.push(Bind::new("text", "\"gone\""));
            }
            if ch.chance(1, 2) {
                child.children.push(Obj::new("QLabel").bind("text", "\"gone too\""));
            }
            let n = root.at(&h).children.len();
            let pos = ch.below(n + 1);
            root.at_mut(&h).children.insert(pos, child);
            let mut p = h.clone();
            p.push(pos);
            Some(Fault { kind, site: FaultSite::Object { path: p } })
        }
        _ => None,
    }
}
