//! The harness' own index over the type information (tweaked metatypes): classes, public
//! ancestors, properties, methods, enums.  Deliberately not qmluic's TypeMap.

use crate::translate::universe;
use qmluic::metatype::{AccessSpecifier, Class, Enum, Method, Property};
use std::collections::{BTreeMap, BTreeSet};
use std::sync::OnceLock;

pub struct Meta {
    pub classes: BTreeMap<String, &'static Class>,
}

#[derive(Clone, Debug, PartialEq, Eq, Hash, PartialOrd, Ord)]
pub enum Ty {
    Bool,
    Int,
    Uint,
    Double,
    Str,
    Variant,
    Void,
    /// (scope class, enum name as declared, flag?)  e.g. ("Qt", "Alignment", true)
    Enum(String, String, bool),
    Ptr(String),
    List(Box<Ty>),
    /// value class (gadget or internal struct), e.g. QFont, QSize
    Gadget(String),
    Unknown(String),
}

#[derive(Clone, Debug)]
pub struct PropInfo {
    pub name: String,
    pub owner: String,
    pub ty: Ty,
    pub raw_type: String,
    pub read: Option<String>,
    pub write: Option<String>,
    pub notify: Option<String>,
    pub constant: bool,
    /// setter follows set<Name> (uic can call it directly)
    pub std_set: bool,
}

pub fn meta() -> &'static Meta {
    static M: OnceLock<Meta> = OnceLock::new();
    M.get_or_init(|| {
        let mut classes = BTreeMap::new();
        for c in &universe().classes {
            // first definition wins (as in a name map filled in order); duplicates are not expected
            classes.entry(c.qualified_class_name.clone()).or_insert(c);
        }
        Meta { classes }
    })
}

impl Meta {
    pub fn class(&self, name: &str) -> Option<&'static Class> {
        self.classes.get(name).copied()
    }

    /// the class itself first, then public ancestors breadth-first, each once
    pub fn lineage(&self, name: &str) -> Vec<&'static Class> {
        let mut out = vec![];
        let mut seen = BTreeSet::new();
        let mut queue = std::collections::VecDeque::new();
        queue.push_back(name.to_owned());
        while let Some(n) = queue.pop_front() {
            if !seen.insert(n.clone()) {
                continue;
            }
            if let Some(c) = self.class(&n) {
                out.push(c);
                for s in &c.super_classes {
                    if s.access == AccessSpecifier::Public {
                        queue.push_back(s.name.clone());
                    }
                }
            }
        }
        out
    }

    pub fn derives(&self, cls: &str, base: &str) -> bool {
        self.lineage(cls)
            .iter()
            .any(|c| c.qualified_class_name == base)
    }

    pub fn find_enum(&self, scope: &str, name: &str) -> Option<(&'static Class, &'static Enum)> {
        for c in self.lineage(scope) {
            if let Some(e) = c.enums.iter().find(|e| e.name == name) {
                return Some((c, e));
            }
        }
        None
    }

    /// Resolves a metatype type string as seen from class `scope`.
    pub fn resolve(&self, scope: &str, raw: &str) -> Ty {
        let t = raw.trim();
        match t {
            "bool" => return Ty::Bool,
            "int" => return Ty::Int,
            "uint" | "unsigned int" => return Ty::Uint,
            "double" | "qreal" => return Ty::Double,
            "QString" => return Ty::Str,
            "QVariant" => return Ty::Variant,
            "void" => return Ty::Void,
            "QStringList" => return Ty::List(Box::new(Ty::Str)),
            _ => {}
        }
        if let Some(inner) = t.strip_suffix('*') {
            let inner = inner.trim();
            if self.class(inner).is_some() {
                return Ty::Ptr(inner.to_owned());
            }
            return Ty::Unknown(t.to_owned());
        }
        if let Some(inner) = t.strip_prefix("QList<").and_then(|s| s.strip_suffix('>')) {
            return Ty::List(Box::new(self.resolve(scope, inner)));
        }
        if let Some((cls, en)) = t.rsplit_once("::") {
            if let Some((c, e)) = self.find_enum(cls, en) {
                return Ty::Enum(c.qualified_class_name.clone(), e.name.clone(), e.is_flag);
            }
        } else if let Some((c, e)) = self.find_enum(scope, t) {
            return Ty::Enum(c.qualified_class_name.clone(), e.name.clone(), e.is_flag);
        }
        if let Some(c) = self.class(t) {
            if !c.object {
                return Ty::Gadget(t.to_owned());
            }
        }
        Ty::Unknown(t.to_owned())
    }

    fn prop_info(&self, owner: &Class, p: &Property) -> PropInfo {
        let std_set = match (&p.write, p.name.chars().next()) {
            (Some(w), Some(h)) => {
                w.starts_with("set")
                    && w[3..].starts_with(h.to_ascii_uppercase())
                    && w[3 + h.len_utf8()..] == p.name[h.len_utf8()..]
            }
            _ => false,
        };
        PropInfo {
            name: p.name.clone(),
            owner: owner.qualified_class_name.clone(),
            ty: self.resolve(&owner.qualified_class_name, &p.r#type),
            raw_type: p.r#type.clone(),
            read: p.read.clone(),
            write: p.write.clone(),
            notify: p.notify.clone(),
            constant: p.constant,
            std_set,
        }
    }

    /// all properties visible on `cls`: own declarations first, nearest ancestor wins
    pub fn props(&self, cls: &str) -> Vec<PropInfo> {
        let mut seen = BTreeSet::new();
        let mut out = vec![];
        for c in self.lineage(cls) {
            for p in &c.properties {
                if seen.insert(p.name.clone()) {
                    out.push(self.prop_info(c, p));
                }
            }
        }
        out
    }

    pub fn prop(&self, cls: &str, name: &str) -> Option<PropInfo> {
        for c in self.lineage(cls) {
            if let Some(p) = c.properties.iter().find(|p| p.name == name) {
                return Some(self.prop_info(c, p));
            }
        }
        None
    }

    /// public signals named `name` visible on `cls` (nearest declaring class only)
    pub fn signals(&self, cls: &str, name: &str) -> Vec<(&'static Class, &'static Method)> {
        for c in self.lineage(cls) {
            let v: Vec<_> = c
                .signals
                .iter()
                .filter(|m| m.name == name && m.access == AccessSpecifier::Public)
                .map(|m| (c, m))
                .collect();
            if !v.is_empty() {
                return v;
            }
        }
        vec![]
    }

    pub fn enum_variants(&self, scope: &str, name: &str) -> Vec<String> {
        self.find_enum(scope, name)
            .map(|(_, e)| e.values.clone())
            .unwrap_or_default()
    }
}
