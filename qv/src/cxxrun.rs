//! Campaign runner for the checks that compile and execute generated support headers
//! (C01, C02, C13, C16): cases are drawn as choice sequences, built into documents with a baked-in
//! script and expectations from the reference interpreter, compiled in groups and executed.

use crate::common::*;
use crate::cxx::{self, DocUnit, Step, UnitOutcome};
use crate::form;
use crate::lang::*;
use crate::langgen::World;
use crate::translate::{translate, Mode};
use rayon::prelude::*;
use serde_json::{json, Value};
use std::collections::{BTreeMap, BTreeSet};

pub struct CxxCase {
    pub unit: DocUnit,
    pub qml: String,
    pub nontrivial: Option<u64>,
    pub labels: BTreeSet<&'static str>,
    pub counters: Vec<(&'static str, u64)>,
    pub sample: Value,
}

pub enum Built {
    Case(Box<CxxCase>),
    Skip(&'static str),
    Fail(Failure),
}

/// classes every API model of the campaign covers
pub fn base_classes() -> BTreeSet<String> {
    ["QWidget", "VSrc", "VSub", "VSub2", "VDst", "VSig"].iter().map(|s| (*s).to_owned()).collect()
}

pub fn api_for(units: &[&DocUnit]) -> String {
    let mut classes = base_classes();
    for u in units {
        classes.extend(cxx::classes_of(&u.form));
    }
    cxx::emit_api(&classes)
}

pub fn case_detail(c: &CxxCase, why: &str) -> Value {
    json!({
        "qml": c.qml,
        "type_name": c.unit.name,
        "init": c.unit.init,
        "steps": c.unit.steps,
        "why": why,
        "header": String::from_utf8_lossy(&c.unit.header),
    })
}

/// Rebuilds a unit from the text form stored in replay files / violation details.
pub fn unit_from_json(v: &Value) -> Result<(DocUnit, String), String> {
    let qml = v["qml"].as_str().ok_or("no qml")?.to_owned();
    let name = v["type_name"].as_str().unwrap_or("R0").to_owned();
    let init: Vec<String> = serde_json::from_value(v["init"].clone()).map_err(|e| e.to_string())?;
    let steps: Vec<Step> = serde_json::from_value(v["steps"].clone()).map_err(|e| e.to_string())?;
    let t = translate(&qml, &name, Mode::Generate);
    if let Some(p) = &t.panic {
        return Err(format!("panic: {p}"));
    }
    if !t.accepted() {
        return Err(format!("rejected: {:?}", t.diag_summary()));
    }
    let form = form::decode(t.ui.as_deref().ok_or("no ui")?)?;
    let header = t.header.clone().ok_or("no header")?;
    Ok((DocUnit { name, header, form, init, steps }, qml))
}

pub fn run_single(u: &DocUnit, tag: &str) -> Option<(String, String)> {
    let api = api_for(&[u]);
    let out = cxx::run_group(&api, &[u], tag);
    cxx::compare(u, &out[0])
}

pub struct Campaign<'a> {
    pub env: &'a Env,
    pub pid: &'a str,
    pub part: &'a str,
    pub cases: usize,
    pub max_len: usize,
    pub per_tu: usize,
    pub known: &'a Known,
    /// oracle calls (each = one compile and run) spent on shrinking one failure
    pub shrink_steps: usize,
}

/// Maps a raw mismatch (kind, message) of a case to a finding key; lets a check name known
/// signatures narrowly.
pub type KeyFn = dyn Fn(&CxxCase, &str, &str) -> String + Sync;

pub fn campaign<B>(cfg: &Campaign, build: B, key_of: &KeyFn) -> RunResult
where
    B: Fn(&mut Chooser, &str) -> Built + Sync,
{
    let seqs = sample_choices(cfg.env, cfg.pid, cfg.part, cfg.cases, cfg.max_len);
    let mut rr = RunResult::default();
    // 1. build all cases
    let built: Vec<(usize, Built, BTreeSet<&'static str>)> = seqs
        .par_iter()
        .enumerate()
        .map(|(k, c)| {
            let mut ch = Chooser::new(c);
            let b = catch(|| build(&mut ch, &format!("D{k}")));
            match b {
                Ok(b) => (k, b, ch.labels.clone()),
                Err(p) => (k, Built::Fail(Failure { key: "harness-panic".into(), what: format!("harness panicked while building a case: {p}"), detail: json!({}) }), ch.labels.clone()),
            }
        })
        .collect();
    let mut cases: Vec<(usize, Box<CxxCase>)> = vec![];
    let mut fails: BTreeMap<String, (Failure, Vec<u32>)> = BTreeMap::new();
    for (k, b, labels) in built {
        rr.stats.evaluations += 1;
        for l in &labels {
            *rr.stats.labels.entry((*l).to_owned()).or_default() += 1;
        }
        match b {
            Built::Skip(why) => *rr.stats.skipped.entry(why.to_owned()).or_default() += 1,
            Built::Fail(f) => {
                if cfg.known.matches(cfg.pid, &f.key).is_some() {
                    cfg.known.announce(cfg.pid, &f.key);
                    *rr.stats.known_hits.entry(f.key.clone()).or_default() += 1;
                } else {
                    fails.entry(f.key.clone()).or_insert((f, seqs[k].clone()));
                }
            }
            Built::Case(c) => cases.push((k, c)),
        }
    }
    // 2. compile and run in groups
    let groups: Vec<&[(usize, Box<CxxCase>)]> = cases.chunks(cfg.per_tu.max(1)).collect();
    let results: Vec<Vec<Option<(String, String)>>> = groups
        .par_iter()
        .enumerate()
        .map(|(g, grp)| {
            let units: Vec<&DocUnit> = grp.iter().map(|(_, c)| &c.unit).collect();
            let api = api_for(&units);
            let outs = cxx::run_group(&api, &units, &format!("{}g{g}", cfg.pid));
            units.iter().zip(&outs).map(|(u, o)| cxx::compare(u, o)).collect()
        })
        .collect();
    // 3. judge
    let mut failing: Vec<(usize, &CxxCase, String, String)> = vec![];
    for (grp, res) in groups.iter().zip(&results) {
        for ((k, c), r) in grp.iter().zip(res) {
            for (n, v) in &c.counters {
                *rr.stats.counters.entry((*n).to_owned()).or_default() += v;
            }
            match r {
                None => {
                    if let Some(h) = c.nontrivial {
                        rr.stats.nontrivial.insert(h);
                    }
                    if rr.stats.samples.len() < 3 {
                        rr.stats.samples.push(c.sample.clone());
                    }
                    *rr.stats.counters.entry("documents_compiled_and_run".into()).or_default() += 1;
                    *rr.stats.counters.entry("steps_compared".into()).or_default() += c.unit.steps.len() as u64;
                    *rr.stats.counters.entry("values_compared".into()).or_default() += c.unit.steps.iter().map(|s| s.expect.len() as u64).sum::<u64>();
                }
                Some((kind, msg)) => failing.push((*k, c, kind.clone(), msg.clone())),
            }
        }
    }
    // one violation per key; the first case of each key is minimised by choice shrinking
    let mut by_key: BTreeMap<String, (usize, &CxxCase, String, String)> = BTreeMap::new();
    for (k, c, kind, msg) in failing {
        let key = key_of(c, &kind, &msg);
        if cfg.known.matches(cfg.pid, &key).is_some() {
            cfg.known.announce(cfg.pid, &key);
            *rr.stats.known_hits.entry(key).or_default() += 1;
            continue;
        }
        by_key.entry(key).or_insert((k, c, kind, msg));
    }
    for (key, (k, c, kind, msg)) in by_key {
        let mut best_detail = case_detail(c, &msg);
        let mut best_msg = msg.clone();
        let small = shrink_choices(seqs[k].clone(), cfg.shrink_steps, |cand| {
            let mut ch = Chooser::new(cand);
            match catch(|| build(&mut ch, "S0")) {
                Ok(Built::Case(c2)) => match run_single(&c2.unit, &format!("{}s", cfg.pid)) {
                    Some((k2, m2)) if key_of(&c2, &k2, &m2) == key => {
                        best_detail = case_detail(&c2, &m2);
                        best_msg = m2;
                        true
                    }
                    _ => false,
                },
                _ => false,
            }
        });
        let _ = kind;
        rr.violations.push(Violation { failure: Failure { key, what: best_msg, detail: best_detail }, choices: Some(small), part: cfg.part.to_owned() });
    }
    for (_, (f, choices)) in fails {
        rr.violations.push(Violation { failure: f, choices: Some(choices), part: cfg.part.to_owned() });
    }
    rr
}

// ---------------------------------------------------------------------------------------------
// states of the synthetic world

pub fn gen_int(ch: &mut Chooser) -> i64 {
    match ch.weighted(&[40, 25, 15, 10, 10]) {
        0 => ch.below(8) as i64,
        1 => ch.range(-20, 200),
        2 => *ch.pick(&[255i64, 256, 1000, 65535, 65536, -128, -129, 32767, 100000]),
        3 => *ch.pick(&[i32::MAX as i64, i32::MIN as i64, i32::MAX as i64 - 1, i32::MIN as i64 + 1, 1 << 30, -(1 << 30)]),
        _ => -(ch.below(8) as i64) - 1,
    }
}

pub fn gen_value_of(ch: &mut Chooser, t: &T, world: &World) -> V {
    match t {
        T::Int => V::Int(gen_int(ch)),
        T::Uint => V::Uint(match ch.weighted(&[50, 30, 20]) {
            0 => ch.below(8) as i64,
            1 => ch.below(70000) as i64,
            _ => *ch.pick(&[u32::MAX as i64, i32::MAX as i64, i32::MAX as i64 + 1, 1 << 31, 4294967294]),
        }),
        T::Double => V::Double(match ch.weighted(&[40, 30, 30]) {
            0 => ch.range(-4, 9) as f64,
            1 => *ch.pick(&[0.5, -0.5, 1.5, 2.25, -3.75, 0.1, 1e10, -1e-3, 123456.789, 2147483647.0, 4294967296.5]),
            _ => (ch.range(-2000, 2000) as f64) / 8.0,
        }),
        T::Bool => V::Bool(ch.chance(1, 2)),
        T::Str => V::Str(gen_state_string(ch)),
        T::Mode => V::Mode(ch.below(3) as i64),
        T::Opts => V::Opts(ch.below(8) as i64),
        T::Ptr(c) => {
            if ch.chance(1, 6) {
                V::Ptr(None)
            } else {
                let cands = world.of_class(c);
                if cands.is_empty() { V::Ptr(None) } else { V::Ptr(Some(*ch.pick(&cands))) }
            }
        }
        T::ListInt => V::ListInt((0..ch.below(4)).map(|_| gen_int(ch).clamp(-1000, 1000)).collect()),
        T::ListStr => V::ListStr((0..ch.below(4)).map(|_| gen_state_string(ch)).collect()),
        T::Variant => V::Variant(Box::new(match ch.below(4) {
            0 => V::Int(gen_int(ch)),
            1 => V::Bool(ch.chance(1, 2)),
            2 => V::Str(gen_state_string(ch)),
            _ => V::Double(ch.range(-8, 8) as f64 / 2.0),
        })),
        T::Void => V::Void,
    }
}

fn gen_state_string(ch: &mut Chooser) -> String {
    match ch.weighted(&[25, 45, 30]) {
        0 => String::new(),
        1 => (*ch.pick(&["a", "b", "ab", "abc", "A", "x %1", "%1%2", "0", "12", " ", "é", "日本", "z\u{10348}", "a\"b", "back\\slash", "tab\there"])).to_owned(),
        _ => {
            let n = 1 + ch.below(5);
            (0..n).map(|_| *ch.pick(&['a', 'b', 'c', 'A', 'Z', '0', '9', ' ', '%', '1', 'é', 'ß', '\u{4e2d}'])).collect()
        }
    }
}

/// properties of an object of the synthetic world with their model types
pub fn props_of(class: &str) -> Vec<(&'static str, T)> {
    if is_src_class(class) {
        SRC_PROPS.iter().map(|(n, t)| (*n, t.clone())).collect()
    } else if class == "VDst" {
        crate::langdoc::DST_PROPS.iter().map(|(n, t)| (*n, t.clone())).collect()
    } else {
        vec![]
    }
}

pub fn gen_world_state(ch: &mut Chooser, world: &World) -> Vec<ObjState> {
    world
        .objs
        .iter()
        .map(|o| {
            let mut props = BTreeMap::new();
            for (n, t) in props_of(o.class) {
                let v = if is_src_class(o.class) { gen_value_of(ch, &t, world) } else { default_value(&t) };
                props.insert(n, v);
            }
            ObjState { class: o.class, props }
        })
        .collect()
}

pub fn obj_names(world: &World) -> Vec<String> {
    world.objs.iter().map(|o| o.id.clone()).collect()
}

/// C++ statement setting a property of a world object through its setter
pub fn cxx_set(world: &World, obj: usize, prop: &str, v: &V) -> String {
    let names = obj_names(world);
    let setter = cxx::setter_of(world.objs[obj].class, prop).unwrap_or_else(|| format!("set{}", crate::langdoc::cap(prop)));
    format!("{}->{}({});", names[obj], setter, cxx::cxx_value(v, &names))
}

/// initial-state statements for every source object
pub fn cxx_init(world: &World, state: &[ObjState]) -> Vec<String> {
    let mut out = vec![];
    for (i, o) in world.objs.iter().enumerate() {
        if !is_src_class(o.class) {
            continue;
        }
        for (n, _) in props_of(o.class) {
            out.push(cxx_set(world, i, n, &state[i].props[n]));
        }
    }
    out
}
