#![allow(dead_code)]
use qv::*;

use common::{Env, Known};

fn usage() -> ! {
    eprintln!("usage: qv check <id> [quick|thorough] | qv replay <file>");
    std::process::exit(2)
}

fn main() {
    let args: Vec<String> = std::env::args().collect();
    common::install_quiet_panic_hook();
    let known = Known::load();
    match args.get(1).map(|s| s.as_str()) {
        Some("check") => {
            let id = args.get(2).cloned().unwrap_or_else(|| usage());
            let env = Env::from_env(args.get(3).map(|s| s.as_str()));
            // wall-clock watchdog of the whole run: exceeding it is infrastructure trouble
            // (exit 2, inconclusive), never a verdict
            let limit: u64 = std::env::var("QV_WALL_LIMIT_S").ok().and_then(|v| v.parse().ok()).unwrap_or(env.tier.pick(2700, 8 * 3600));
            let wid = id.clone();
            std::thread::spawn(move || {
                std::thread::sleep(std::time::Duration::from_secs(limit));
                eprintln!("[qv] {wid}: the run exceeded its wall-clock limit of {limit} s: inconclusive");
                // do not leave children (compilers, the tool under test, workers) behind
                let _ = std::process::Command::new("pkill").args(["-9", "-P", &std::process::id().to_string()]).status();
                std::process::exit(2);
            });
            // a panic of the harness itself is infrastructure trouble, never a verdict
            let code = std::panic::catch_unwind(std::panic::AssertUnwindSafe(|| checks::run(&id, &env, &known))).unwrap_or_else(|_| {
                eprintln!("[qv] the harness itself panicked: inconclusive");
                2
            });
            std::process::exit(code)
        }
        Some("replay") => {
            let file = args.get(2).cloned().unwrap_or_else(|| usage());
            let code = checks::replay_file(std::path::Path::new(&file), &known, true);
            std::process::exit(code)
        }
        Some("worker") => std::process::exit(isolate::worker_main(&args[2..], &checks::case_fn)),
        Some("worker-one") => std::process::exit(isolate::worker_one_main(&args[2..], &checks::case_fn)),
        Some("c17-probe") => std::process::exit(checks::c17::probe_main()),
        Some("sexp") => {
            let file = args.get(2).cloned().unwrap_or_else(|| usage());
            let src = std::fs::read_to_string(&file).expect("read file");
            let doc = qmluic::qmldoc::UiDocument::parse(src, "T", None);
            println!("{}", doc.root_node().to_sexp());
        }
        Some("translate") => {
            let file = args.get(2).cloned().unwrap_or_else(|| usage());
            let mode = match args.get(3).map(|s| s.as_str()) {
                Some("reject") => translate::Mode::Reject,
                Some("omit") => translate::Mode::Omit,
                _ => translate::Mode::Generate,
            };
            let src = std::fs::read_to_string(&file).expect("read file");
            let mut o = translate::Opts::new(mode);
            o.render = true;
            o.build_despite_syntax_errors = mode == translate::Mode::Omit;
            let t = translate::translate_opts(&src, "T", o);
            println!("--- syntax errors: {:?}\n--- panic: {:?}\n--- diagnostics:\n{}", t.syntax_errors, t.panic, t.rendered.clone().unwrap_or_default());
            println!("--- ui:\n{}", t.ui_str().unwrap_or("<none>"));
            println!("--- header:\n{}", t.header_str().unwrap_or("<none>"));
        }
        Some("c07-fuzz") => {
            // debugging aid: only the libFuzzer campaign of C07's thorough tier (QV_FUZZ_RUNS per job)
            let env = Env::from_env(Some("thorough"));
            let mut rr = common::RunResult::default();
            checks::c07::run_fuzz_campaign(&env, &known, &mut rr);
            println!("counters: {:?}\nknown hits: {:?}\nviolations: {:?}", rr.stats.counters, rr.stats.known_hits, rr.violations.iter().map(|v| (&v.failure.key, &v.failure.what)).collect::<Vec<_>>());
        }
        Some("c07-input") => {
            // debugging aid: print the input a C07 choice sequence decodes to
            let file = args.get(2).cloned().unwrap_or_else(|| usage());
            let c: Vec<u32> = serde_json::from_slice(&std::fs::read(&file).expect("read")).expect("json");
            print!("{}", checks::c07::gen_input(&mut common::Chooser::new(&c)));
        }
        Some("cxx-try") => {
            // debugging aid: translate one file, emit API model + mini-uic, compile (syntax only)
            let file = args.get(2).cloned().unwrap_or_else(|| usage());
            let src = std::fs::read_to_string(&file).expect("read file");
            let t = translate::translate(&src, "T", translate::Mode::Generate);
            let form = form::decode(t.ui.as_deref().expect("ui")).expect("form");
            let mut classes = cxx::classes_of(&form);
            classes.insert("QWidget".into());
            let b = cxx::new_batch("try");
            let dir = b.dir.path();
            std::fs::write(dir.join("qvapi.h"), cxx::emit_api(&classes)).unwrap();
            std::fs::write(dir.join("ui_t.h"), cxx::mini_uic(&form, "T", "qvapi.h")).unwrap();
            std::fs::write(dir.join("uisupport_t.h"), t.header.as_deref().expect("header")).unwrap();
            std::fs::write(dir.join("main.cpp"), "#include \"uisupport_t.h\"\nint main() { return 0; }\n").unwrap();
            let r = cxx::compile(dir, "main.cpp", None, "g++");
            println!("ok={}\n{}", r.ok, r.stderr);
            if args.get(3).is_some() {
                let keep = b.dir.into_path();
                println!("kept {}", keep.display());
            }
        }
        _ => usage(),
    }
}
