//! Document model owned by the harness, its QML printer (with byte spans) and the class
//! catalogue (what each class *is*, known from Qt, cross-checked against the metatypes).

use crate::translate::universe;
use std::collections::{BTreeMap, BTreeSet};
use std::ops::Range;
use std::sync::OnceLock;

#[derive(Clone, Debug, PartialEq, Eq, Hash)]
pub struct Bind {
    /// dotted path, e.g. "text", "font.bold", "QLayout.row", "palette.active.window"
    pub path: String,
    /// QML source text of the value
    pub value: String,
    /// free tag for the check that generated it (index into its own side table)
    pub tag: usize,
}

impl Bind {
    pub fn new(path: impl Into<String>, value: impl Into<String>) -> Bind {
        Bind {
            path: path.into(),
            value: value.into(),
            tag: 0,
        }
    }
    pub fn tagged(path: impl Into<String>, value: impl Into<String>, tag: usize) -> Bind {
        Bind {
            path: path.into(),
            value: value.into(),
            tag,
        }
    }
}

#[derive(Clone, Debug, PartialEq, Eq, Hash, Default)]
pub struct Obj {
    pub class: String,
    pub id: Option<String>,
    pub binds: Vec<Bind>,
    pub children: Vec<Obj>,
}

impl Obj {
    pub fn new(class: impl Into<String>) -> Obj {
        Obj {
            class: class.into(),
            ..Default::default()
        }
    }
    pub fn with_id(mut self, id: impl Into<String>) -> Obj {
        self.id = Some(id.into());
        self
    }
    pub fn bind(mut self, path: impl Into<String>, value: impl Into<String>) -> Obj {
        self.binds.push(Bind::new(path, value));
        self
    }
    pub fn child(mut self, c: Obj) -> Obj {
        self.children.push(c);
        self
    }
    pub fn count(&self) -> usize {
        1 + self.children.iter().map(|c| c.count()).sum::<usize>()
    }
    pub fn depth(&self) -> usize {
        1 + self.children.iter().map(|c| c.depth()).max().unwrap_or(0)
    }
    /// pre-order list of (path, object)
    pub fn flat(&self) -> Vec<(Vec<usize>, &Obj)> {
        fn rec<'a>(o: &'a Obj, p: &mut Vec<usize>, out: &mut Vec<(Vec<usize>, &'a Obj)>) {
            out.push((p.clone(), o));
            for (i, c) in o.children.iter().enumerate() {
                p.push(i);
                rec(c, p, out);
                p.pop();
            }
        }
        let mut out = vec![];
        rec(self, &mut vec![], &mut out);
        out
    }
    pub fn at(&self, path: &[usize]) -> &Obj {
        let mut o = self;
        for i in path {
            o = &o.children[*i];
        }
        o
    }
    pub fn at_mut(&mut self, path: &[usize]) -> &mut Obj {
        let mut o = self;
        for i in path {
            o = &mut o.children[*i];
        }
        o
    }
}

/// Surface variations that must not matter.
#[derive(Clone, Copy, Debug, Default)]
pub struct Style {
    /// print `a { b: v; c: w }` instead of `a.b: v` for runs of bindings with a common first
    /// path segment (never for attached types when false)
    pub group: bool,
    /// separate bindings by `;` on one line instead of newlines
    pub semicolons: bool,
    /// emit comments here and there
    pub comments: bool,
    /// put children before bindings
    pub children_first: bool,
}

#[derive(Clone, Debug, Default)]
pub struct Printed {
    pub text: String,
    /// object path -> span of the whole object definition
    pub obj_spans: BTreeMap<Vec<usize>, Range<usize>>,
    /// span of the type name of each object
    pub type_spans: BTreeMap<Vec<usize>, Range<usize>>,
    /// (object path, binding index) -> span of `name: value` (for grouped printing: the inner
    /// `b: v`), and the span of the enclosing group statement if grouped
    pub bind_spans: BTreeMap<(Vec<usize>, usize), Range<usize>>,
    pub group_spans: BTreeMap<(Vec<usize>, usize), Range<usize>>,
    /// span of the `id: x` line
    pub id_spans: BTreeMap<Vec<usize>, Range<usize>>,
}

pub fn print_doc(imports: &[&str], root: &Obj, style: Style) -> Printed {
    let mut p = Printed::default();
    for i in imports {
        p.text.push_str(i);
        p.text.push('\n');
    }
    if style.comments {
        p.text.push_str("// generated document\n");
    }
    print_obj(&mut p, root, &mut vec![], 0, style);
    p
}

pub const DEFAULT_IMPORTS: &[&str] = &["import qmluic.QtWidgets"];

fn first_segment(path: &str) -> &str {
    path.split('.').next().unwrap()
}

fn print_obj(p: &mut Printed, o: &Obj, path: &mut Vec<usize>, ind: usize, style: Style) {
    let pad = "    ".repeat(ind);
    let start = p.text.len() + pad.len();
    p.text.push_str(&pad);
    let ts = p.text.len();
    p.text.push_str(&o.class);
    p.type_spans.insert(path.clone(), ts..p.text.len());
    p.text.push_str(" {\n");
    let ipad = "    ".repeat(ind + 1);
    if let Some(id) = &o.id {
        p.text.push_str(&ipad);
        let s = p.text.len();
        p.text.push_str("id: ");
        p.text.push_str(id);
        p.id_spans.insert(path.clone(), s..p.text.len());
        p.text.push('\n');
    }
    let print_children = |p: &mut Printed, path: &mut Vec<usize>| {
        for (i, c) in o.children.iter().enumerate() {
            path.push(i);
            print_obj(p, c, path, ind + 1, style);
            path.pop();
        }
    };
    if style.children_first {
        print_children(p, path);
    }
    let sep = if style.semicolons { "; " } else { "\n" };
    let mut i = 0;
    let mut at_line_start = true;
    while i < o.binds.len() {
        let b = &o.binds[i];
        // find a run with the same first segment that can be grouped
        let seg = first_segment(&b.path);
        let mut j = i + 1;
        let groupable = style.group
            && b.path.contains('.')
            && !seg.starts_with(|c: char| c.is_ascii_uppercase());
        if groupable {
            while j < o.binds.len()
                && o.binds[j].path.contains('.')
                && first_segment(&o.binds[j].path) == seg
            {
                j += 1;
            }
        }
        if at_line_start {
            p.text.push_str(&ipad);
        }
        if groupable {
            let gs = p.text.len();
            p.text.push_str(seg);
            p.text.push_str(" { ");
            for k in i..j {
                let bk = &o.binds[k];
                let s = p.text.len();
                p.text.push_str(&bk.path[seg.len() + 1..]);
                p.text.push_str(": ");
                p.text.push_str(&bk.value);
                p.bind_spans.insert((path.clone(), k), s..p.text.len());
                if k + 1 < j {
                    p.text.push_str("; ");
                }
            }
            p.text.push_str(" }");
            let ge = p.text.len();
            for k in i..j {
                p.group_spans.insert((path.clone(), k), gs..ge);
            }
        } else {
            let s = p.text.len();
            p.text.push_str(&b.path);
            p.text.push_str(": ");
            p.text.push_str(&b.value);
            p.bind_spans.insert((path.clone(), i), s..p.text.len());
        }
        i = j;
        // a value ending in '}' followed by ';' is fine; a multi-line value forces a newline
        if style.semicolons && !groupable && i < o.binds.len() && !o.binds[i - 1].value.contains('\n') {
            p.text.push_str(sep);
            // the terminating ';' belongs to the binding statement
            if !groupable {
                if let Some(r) = p.bind_spans.get_mut(&(path.clone(), i - 1)) {
                    r.end += 1;
                }
            }
            at_line_start = false;
        } else {
            if style.comments && i % 3 == 1 {
                p.text.push_str("  // c");
                // the parser attaches a trailing comment on the same line to the statement
                // (automatic semicolon insertion happens after it), so it counts as binding text
                if !groupable {
                    if let Some(r) = p.bind_spans.get_mut(&(path.clone(), i - 1)) {
                        r.end = p.text.len();
                    }
                }
            }
            p.text.push('\n');
            at_line_start = true;
        }
    }
    if !at_line_start {
        p.text.push('\n');
    }
    if !style.children_first {
        print_children(p, path);
    }
    p.text.push_str(&pad);
    p.text.push_str("}\n");
    p.obj_spans.insert(path.clone(), start..p.text.len() - 1);
}

// ---------------------------------------------------------------------------------------------
// Class knowledge (independent of qmluic's KnownClasses: computed from the metatypes' own
// superClasses lists by a closure written here)

pub struct ClassGraph {
    /// class name -> public super class names
    supers: BTreeMap<String, Vec<String>>,
}

impl ClassGraph {
    pub fn derives(&self, cls: &str, base: &str) -> bool {
        let mut seen = BTreeSet::new();
        let mut stack = vec![cls.to_owned()];
        while let Some(c) = stack.pop() {
            if c == base {
                return true;
            }
            if !seen.insert(c.clone()) {
                continue;
            }
            if let Some(s) = self.supers.get(&c) {
                stack.extend(s.iter().cloned());
            }
        }
        false
    }
    pub fn has(&self, cls: &str) -> bool {
        self.supers.contains_key(cls)
    }
}

pub fn class_graph() -> &'static ClassGraph {
    static G: OnceLock<ClassGraph> = OnceLock::new();
    G.get_or_init(|| {
        let mut supers = BTreeMap::new();
        for c in &universe().classes {
            let e: &mut Vec<String> = supers.entry(c.qualified_class_name.clone()).or_default();
            for s in &c.super_classes {
                if s.access == qmluic::metatype::AccessSpecifier::Public {
                    e.push(s.name.clone());
                }
            }
        }
        ClassGraph { supers }
    })
}

#[derive(Clone, Copy, Debug, PartialEq, Eq, Hash, PartialOrd, Ord)]
pub enum Kind {
    Widget,
    Layout,
    Spacer,
    Action,
    Other,
}

/// Element kind a class must be written as, from the metatypes' inheritance.
pub fn kind_of(cls: &str) -> Kind {
    let g = class_graph();
    if g.derives(cls, "QAction") {
        Kind::Action
    } else if g.derives(cls, "QLayout") {
        Kind::Layout
    } else if g.derives(cls, "QSpacerItem") {
        Kind::Spacer
    } else if g.derives(cls, "QWidget") {
        Kind::Widget
    } else {
        Kind::Other
    }
}

pub fn is_menu(cls: &str) -> bool {
    class_graph().derives(cls, "QMenu")
}

/// `variable_name_for_type` as uic does it (documented in qtname.rs tests): strip a leading
/// 'Q'/'K' followed by upper case, lower-case the first letter.  Written from uic's
/// Driver::qtify description, used only to *predict prefixes*, never exact names.
pub fn name_stem(cls: &str) -> String {
    let mut s: &str = cls;
    let b = cls.as_bytes();
    if b.len() >= 2 && (b[0] == b'Q' || b[0] == b'K') && b[1].is_ascii_uppercase() {
        s = &cls[1..];
    }
    let mut out = String::new();
    let mut lowering = true;
    for c in s.chars() {
        if lowering && c.is_ascii_uppercase() {
            out.push(c.to_ascii_lowercase());
        } else {
            lowering = false;
            out.push(c);
        }
    }
    out
}

pub const CONTAINER_WIDGETS: &[&str] = &[
    "QWidget", "QGroupBox", "QFrame", "QDialog", "QStackedWidget", "QScrollArea", "QSplitter",
];
pub const ROOT_WIDGETS: &[&str] = &[
    "QWidget", "QDialog", "QMainWindow", "QGroupBox", "QFrame", "QStackedWidget", "QScrollArea",
];
pub const LEAF_WIDGETS: &[&str] = &[
    "QLabel", "QPushButton", "QCheckBox", "QRadioButton", "QToolButton", "QLineEdit", "QSpinBox",
    "QDoubleSpinBox", "QComboBox", "QSlider", "QProgressBar", "QListWidget", "QTableView",
    "QTreeView", "QPlainTextEdit", "QDialogButtonBox", "QTextEdit", "QListView", "QDial",
    "QLCDNumber", "QDateEdit",
];
pub const LAYOUTS: &[&str] = &["QVBoxLayout", "QHBoxLayout", "QFormLayout", "QGridLayout"];

/// Sanity check of the catalogue against the metatypes (run once by the checks that use it).
pub fn verify_catalogue() {
    for c in CONTAINER_WIDGETS.iter().chain(ROOT_WIDGETS).chain(LEAF_WIDGETS) {
        assert_eq!(kind_of(c), Kind::Widget, "{c} should be a widget per metatypes");
    }
    for c in LAYOUTS {
        assert_eq!(kind_of(c), Kind::Layout, "{c}");
    }
    assert_eq!(kind_of("QSpacerItem"), Kind::Spacer);
    assert_eq!(kind_of("QAction"), Kind::Action);
    assert!(is_menu("QMenu"));
    assert_eq!(kind_of("QMenuBar"), Kind::Widget);
    assert_eq!(kind_of("QToolBar"), Kind::Widget);
}
