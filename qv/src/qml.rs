//! QML text helpers shared by the generators.

/// Canonical, always-accepted spelling of a string literal that denotes exactly `s`:
/// double quotes, `\\`, `\"`, and `\u{…}` for controls and line/paragraph separators.
pub fn js_string(s: &str) -> String {
    let mut out = String::with_capacity(s.len() + 2);
    out.push('"');
    for c in s.chars() {
        match c {
            '"' => out.push_str("\\\""),
            '\\' => out.push_str("\\\\"),
            c if (c as u32) < 0x20 || c == '\u{7f}' || c == '\u{2028}' || c == '\u{2029}' => {
                out.push_str(&format!("\\u{{{:x}}}", c as u32))
            }
            c => out.push(c),
        }
    }
    out.push('"');
    out
}
