//! Small strict XML 1.0 reader, independent of quick-xml (which wrote the files under test).
//!
//! Supports: XML declaration, comments, CDATA, elements, attributes (with attribute-value
//! normalisation), character data (with line-end normalisation), the five predefined entities
//! and numeric character references. Anything else (DTD, PIs, unknown entities, mismatched
//! tags, duplicate attributes, '<' in attribute values, characters outside the Char production,
//! "]]>" in character data, content after the root element) is a well-formedness error.

#[derive(Clone, Debug, PartialEq, Eq)]
pub enum Node {
    Elem(Elem),
    Text(String),
}

#[derive(Clone, Debug, PartialEq, Eq, Default)]
pub struct Elem {
    pub name: String,
    pub attrs: Vec<(String, String)>,
    pub children: Vec<Node>,
}

impl Elem {
    pub fn attr(&self, name: &str) -> Option<&str> {
        self.attrs
            .iter()
            .find(|(k, _)| k == name)
            .map(|(_, v)| v.as_str())
    }
    pub fn elems(&self) -> impl Iterator<Item = &Elem> {
        self.children.iter().filter_map(|n| match n {
            Node::Elem(e) => Some(e),
            Node::Text(_) => None,
        })
    }
    pub fn elems_named<'a>(&'a self, name: &'a str) -> impl Iterator<Item = &'a Elem> {
        self.elems().filter(move |e| e.name == name)
    }
    pub fn first(&self, name: &str) -> Option<&Elem> {
        self.elems().find(|e| e.name == name)
    }
    /// concatenation of the direct text children
    pub fn text(&self) -> String {
        let mut s = String::new();
        for n in &self.children {
            if let Node::Text(t) = n {
                s.push_str(t);
            }
        }
        s
    }
    pub fn has_nonblank_text(&self) -> bool {
        self.children.iter().any(|n| match n {
            Node::Text(t) => t.chars().any(|c| !matches!(c, ' ' | '\t' | '\n' | '\r')),
            _ => false,
        })
    }
}

pub fn is_xml_char(c: char) -> bool {
    matches!(c as u32, 0x9 | 0xA | 0xD | 0x20..=0xD7FF | 0xE000..=0xFFFD | 0x10000..=0x10FFFF)
}

fn is_name_start(c: char) -> bool {
    c == ':' || c == '_' || c.is_ascii_alphabetic() || (c as u32) >= 0xC0 && c.is_alphabetic()
}
fn is_name_char(c: char) -> bool {
    is_name_start(c) || c.is_ascii_digit() || c == '-' || c == '.' || c == '\u{B7}'
}

struct P<'a> {
    s: &'a str,
    pos: usize,
}

type R<T> = Result<T, String>;

impl<'a> P<'a> {
    fn rest(&self) -> &'a str {
        &self.s[self.pos..]
    }
    fn peek(&self) -> Option<char> {
        self.rest().chars().next()
    }
    fn bump(&mut self) -> Option<char> {
        let c = self.peek()?;
        self.pos += c.len_utf8();
        Some(c)
    }
    fn starts(&self, t: &str) -> bool {
        self.rest().starts_with(t)
    }
    fn eat(&mut self, t: &str) -> bool {
        if self.starts(t) {
            self.pos += t.len();
            true
        } else {
            false
        }
    }
    fn expect(&mut self, t: &str) -> R<()> {
        if self.eat(t) {
            Ok(())
        } else {
            Err(format!("expected {:?} at byte {}", t, self.pos))
        }
    }
    fn ws(&mut self) -> bool {
        let mut any = false;
        while let Some(c) = self.peek() {
            if matches!(c, ' ' | '\t' | '\n' | '\r') {
                self.bump();
                any = true;
            } else {
                break;
            }
        }
        any
    }
    fn name(&mut self) -> R<String> {
        let start = self.pos;
        match self.peek() {
            Some(c) if is_name_start(c) => {
                self.bump();
            }
            _ => return Err(format!("expected name at byte {}", self.pos)),
        }
        while let Some(c) = self.peek() {
            if is_name_char(c) {
                self.bump();
            } else {
                break;
            }
        }
        Ok(self.s[start..self.pos].to_owned())
    }
    fn reference(&mut self) -> R<char> {
        // after '&'
        let end = self
            .rest()
            .find(';')
            .ok_or_else(|| format!("unterminated reference at byte {}", self.pos))?;
        let body = &self.rest()[..end];
        let c = if let Some(hex) = body.strip_prefix("#x") {
            if hex.is_empty() || !hex.chars().all(|c| c.is_ascii_hexdigit()) {
                return Err(format!("bad character reference &{body};"));
            }
            let n = u32::from_str_radix(hex, 16).map_err(|_| format!("bad char ref &{body};"))?;
            char::from_u32(n).ok_or_else(|| format!("bad char ref &{body};"))?
        } else if let Some(dec) = body.strip_prefix('#') {
            if dec.is_empty() || !dec.chars().all(|c| c.is_ascii_digit()) {
                return Err(format!("bad character reference &{body};"));
            }
            let n = dec.parse::<u32>().map_err(|_| format!("bad char ref &{body};"))?;
            char::from_u32(n).ok_or_else(|| format!("bad char ref &{body};"))?
        } else {
            match body {
                "lt" => '<',
                "gt" => '>',
                "amp" => '&',
                "apos" => '\'',
                "quot" => '"',
                _ => return Err(format!("unknown entity &{body};")),
            }
        };
        if !is_xml_char(c) {
            return Err(format!("character reference to non-Char U+{:04X}", c as u32));
        }
        self.pos += end + 1;
        Ok(c)
    }
    fn comment(&mut self) -> R<()> {
        // after "<!--"
        let end = self
            .rest()
            .find("--")
            .ok_or_else(|| "unterminated comment".to_owned())?;
        self.pos += end;
        self.expect("-->")
    }
    fn attr_value(&mut self) -> R<String> {
        let q = match self.bump() {
            Some(c @ ('"' | '\'')) => c,
            _ => return Err(format!("expected quote at byte {}", self.pos)),
        };
        let mut out = String::new();
        loop {
            let c = self
                .bump()
                .ok_or_else(|| "unterminated attribute value".to_owned())?;
            if c == q {
                break;
            }
            match c {
                '<' => return Err("'<' in attribute value".into()),
                '&' => out.push(self.reference()?),
                '\r' => {
                    // line-end normalisation first (CRLF -> LF), then LF -> space
                    if self.peek() == Some('\n') {
                        self.bump();
                    }
                    out.push(' ');
                }
                '\n' | '\t' => out.push(' '),
                c => out.push(c),
            }
        }
        Ok(out)
    }
    fn element(&mut self) -> R<Elem> {
        // after '<', at name
        let name = self.name()?;
        let mut e = Elem {
            name,
            ..Default::default()
        };
        loop {
            let had_ws = self.ws();
            if self.eat("/>") {
                return Ok(e);
            }
            if self.eat(">") {
                break;
            }
            if !had_ws {
                return Err(format!("expected whitespace before attribute at byte {}", self.pos));
            }
            let an = self.name()?;
            self.ws();
            self.expect("=")?;
            self.ws();
            let av = self.attr_value()?;
            if e.attrs.iter().any(|(k, _)| *k == an) {
                return Err(format!("duplicate attribute {an}"));
            }
            e.attrs.push((an, av));
        }
        // content
        let mut text = String::new();
        loop {
            if self.starts("</") {
                self.pos += 2;
                let n = self.name()?;
                if n != e.name {
                    return Err(format!("mismatched end tag </{}> for <{}>", n, e.name));
                }
                self.ws();
                self.expect(">")?;
                if !text.is_empty() {
                    e.children.push(Node::Text(std::mem::take(&mut text)));
                }
                return Ok(e);
            } else if self.eat("<!--") {
                self.comment()?;
            } else if self.eat("<![CDATA[") {
                let end = self
                    .rest()
                    .find("]]>")
                    .ok_or_else(|| "unterminated CDATA".to_owned())?;
                // line ends are normalised inside CDATA too
                let raw = &self.rest()[..end];
                text.push_str(&raw.replace("\r\n", "\n").replace('\r', "\n"));
                self.pos += end + 3;
            } else if self.starts("<?") || self.starts("<!") {
                return Err(format!("unsupported markup at byte {}", self.pos));
            } else if self.eat("<") {
                if !text.is_empty() {
                    e.children.push(Node::Text(std::mem::take(&mut text)));
                }
                let c = self.element()?;
                e.children.push(Node::Elem(c));
            } else {
                match self.bump() {
                    None => return Err(format!("unexpected end of input inside <{}>", e.name)),
                    Some('&') => text.push(self.reference()?),
                    Some('\r') => {
                        if self.peek() == Some('\n') {
                            self.bump();
                        }
                        text.push('\n');
                    }
                    Some(']') if self.starts("]>") => {
                        return Err("']]>' in character data".into());
                    }
                    Some(c) => text.push(c),
                }
            }
        }
    }
}

/// Parses a whole document, returns the root element.
pub fn parse(bytes: &[u8]) -> Result<Elem, String> {
    let s = std::str::from_utf8(bytes).map_err(|e| format!("not UTF-8: {e}"))?;
    let s = s.strip_prefix('\u{FEFF}').unwrap_or(s);
    if let Some(c) = s.chars().find(|c| !is_xml_char(*c)) {
        return Err(format!("character U+{:04X} is not an XML Char", c as u32));
    }
    let mut p = P { s, pos: 0 };
    if p.starts("<?xml") {
        let end = p
            .rest()
            .find("?>")
            .ok_or_else(|| "unterminated XML declaration".to_owned())?;
        p.pos += end + 2;
    }
    loop {
        p.ws();
        if p.eat("<!--") {
            p.comment()?;
        } else {
            break;
        }
    }
    if p.starts("<?") || p.starts("<!") {
        return Err("unsupported prolog markup (PI or DOCTYPE)".into());
    }
    p.expect("<")?;
    let root = p.element()?;
    loop {
        p.ws();
        if p.eat("<!--") {
            p.comment()?;
        } else {
            break;
        }
    }
    if p.pos != s.len() {
        return Err(format!("content after the root element at byte {}", p.pos));
    }
    Ok(root)
}

#[cfg(test)]
mod tests {
    use super::*;
    #[test]
    fn basics() {
        let e = parse(b"<?xml version=\"1.0\"?><a x='1&#9;2\t3'>t&lt;<b/>u\r\nv\rw</a>\n").unwrap();
        assert_eq!(e.attr("x"), Some("1\t2 3"));
        assert_eq!(e.text(), "t<u\nv\nw");
        assert!(parse(b"<a><b></a></b>").is_err());
        assert!(parse(b"<a x='1' x='2'/>").is_err());
        assert!(parse(b"<a>&foo;</a>").is_err());
        assert!(parse(b"<a>\x01</a>").is_err());
        assert!(parse(b"<a/><b/>").is_err());
        assert!(parse(b"<a>]]></a>").is_err());
    }
}
