// qvmock.h -- hand-written core of the executable Qt API model used by the qv harness
// (DESIGN.md section 2.7). It models exactly what generated support headers use:
// QObject::connect/disconnect with pointer-to-member signals and functors that take a prefix of
// the signal arguments, QMetaObject::Connection, QOverload, QString over UTF-16, QStringLiteral,
// QList/QStringList, QVariant, QFlags with Qt 5's operator set, QCoreApplication::translate,
// Q_ASSERT_X / Q_UNREACHABLE / Q_UNLIKELY, quint32. Deliberately NOT declared here: qDebug & co
// (they live in <QtDebug>), so a support header that forgets the include does not compile.
#pragma once
#include <cstdint>
#include <cstdio>
#include <cstdlib>
#include <cstring>
#include <functional>
#include <initializer_list>
#include <map>
#include <memory>
#include <string>
#include <tuple>
#include <type_traits>
#include <utility>
#include <vector>

typedef unsigned int uint;
typedef double qreal;
typedef std::uint32_t quint32;

namespace qv {
inline FILE *&out() { static FILE *f = stdout; return f; }
[[noreturn]] inline void die(const char *kind, const char *detail) {
    std::fprintf(out(), "! %s %s\n", kind, detail);
    std::fflush(out());
    std::_Exit(70);
}
}

#define Q_UNLIKELY(x) (x)
#define Q_LIKELY(x) (x)
#define Q_UNREACHABLE() qv::die("UNREACHABLE", __func__)
#define Q_ASSERT_X(cond, where, what) ((cond) ? static_cast<void>(0) : qv::die("ASSERT", what))
#define Q_ASSERT(cond) ((cond) ? static_cast<void>(0) : qv::die("ASSERT", #cond))

// ---------------------------------------------------------------------------------------------
// QFlags as in Qt 5: construction from the enum, the bitwise operators, operator!, conversion
// to int. There is no conversion back to the enum.
template <typename Enum> class QFlags {
    int i = 0;
public:
    typedef int Int;
    typedef Enum enum_type;
    constexpr QFlags() noexcept {}
    constexpr QFlags(Enum f) noexcept : i(int(f)) {}
    constexpr static QFlags fromInt(int v) { QFlags f; f.i = v; return f; }
    constexpr QFlags &operator&=(int mask) noexcept { i &= mask; return *this; }
    constexpr QFlags &operator&=(Enum mask) noexcept { i &= int(mask); return *this; }
    constexpr QFlags &operator|=(QFlags f) noexcept { i |= f.i; return *this; }
    constexpr QFlags &operator|=(Enum f) noexcept { i |= int(f); return *this; }
    constexpr QFlags &operator^=(QFlags f) noexcept { i ^= f.i; return *this; }
    constexpr QFlags &operator^=(Enum f) noexcept { i ^= int(f); return *this; }
    constexpr operator Int() const noexcept { return i; }
    constexpr QFlags operator|(QFlags f) const noexcept { return fromInt(i | f.i); }
    constexpr QFlags operator|(Enum f) const noexcept { return fromInt(i | int(f)); }
    constexpr QFlags operator^(QFlags f) const noexcept { return fromInt(i ^ f.i); }
    constexpr QFlags operator^(Enum f) const noexcept { return fromInt(i ^ int(f)); }
    constexpr QFlags operator&(int mask) const noexcept { return fromInt(i & mask); }
    constexpr QFlags operator&(uint mask) const noexcept { return fromInt(i & int(mask)); }
    constexpr QFlags operator&(Enum f) const noexcept { return fromInt(i & int(f)); }
    constexpr QFlags operator~() const noexcept { return fromInt(~i); }
    constexpr bool operator!() const noexcept { return !i; }
};
// Qt 6.2's operator set (a superset of Qt 5.15's, which only has operator|): the README supports
// "Qt 5.15 or 6.2+", so code that compiles with either is accepted.
#define Q_DECLARE_OPERATORS_FOR_FLAGS(Flags) \
    constexpr inline QFlags<Flags::enum_type> operator|(Flags::enum_type f1, Flags::enum_type f2) noexcept { return QFlags<Flags::enum_type>(f1) | f2; } \
    constexpr inline QFlags<Flags::enum_type> operator|(Flags::enum_type f1, QFlags<Flags::enum_type> f2) noexcept { return f2 | f1; } \
    constexpr inline QFlags<Flags::enum_type> operator&(Flags::enum_type f1, Flags::enum_type f2) noexcept { return QFlags<Flags::enum_type>(f1) & f2; } \
    constexpr inline QFlags<Flags::enum_type> operator&(Flags::enum_type f1, QFlags<Flags::enum_type> f2) noexcept { return f2 & f1; } \
    constexpr inline QFlags<Flags::enum_type> operator^(Flags::enum_type f1, Flags::enum_type f2) noexcept { return QFlags<Flags::enum_type>(f1) ^ f2; } \
    constexpr inline QFlags<Flags::enum_type> operator^(Flags::enum_type f1, QFlags<Flags::enum_type> f2) noexcept { return f2 ^ f1; } \
    constexpr inline QFlags<Flags::enum_type> operator~(Flags::enum_type f) noexcept { return ~QFlags<Flags::enum_type>(f); }

// ---------------------------------------------------------------------------------------------
// QString over UTF-16 code units
class QString {
    std::u16string s;
public:
    QString() {}
    QString(const char16_t *p) : s(p) {}
    explicit QString(std::u16string v) : s(std::move(v)) {}
    static QString fromUtf8(const char *p) {
        // the model only needs ASCII here (contexts, literal place holders)
        std::u16string r;
        for (const unsigned char *q = reinterpret_cast<const unsigned char *>(p); *q;) {
            char32_t c;
            if (*q < 0x80) { c = *q++; }
            else if ((*q >> 5) == 6) { c = (*q & 0x1f) << 6 | (q[1] & 0x3f); q += 2; }
            else if ((*q >> 4) == 14) { c = (*q & 0x0f) << 12 | (q[1] & 0x3f) << 6 | (q[2] & 0x3f); q += 3; }
            else { c = (*q & 0x07) << 18 | (q[1] & 0x3f) << 12 | (q[2] & 0x3f) << 6 | (q[3] & 0x3f); q += 4; }
            if (c >= 0x10000) { c -= 0x10000; r.push_back(char16_t(0xd800 + (c >> 10))); r.push_back(char16_t(0xdc00 + (c & 0x3ff))); }
            else r.push_back(char16_t(c));
        }
        return QString(r);
    }
    const std::u16string &units() const { return s; }
    bool isEmpty() const { return s.empty(); }
    int size() const { return int(s.size()); }
    friend QString operator+(const QString &a, const QString &b) { return QString(a.s + b.s); }
    friend bool operator==(const QString &a, const QString &b) { return a.s == b.s; }
    friend bool operator!=(const QString &a, const QString &b) { return a.s != b.s; }
    friend bool operator<(const QString &a, const QString &b) { return a.s < b.s; }
    friend bool operator<=(const QString &a, const QString &b) { return a.s <= b.s; }
    friend bool operator>(const QString &a, const QString &b) { return a.s > b.s; }
    friend bool operator>=(const QString &a, const QString &b) { return a.s >= b.s; }
    static QString number(long long v) {
        std::string t = std::to_string(v);
        return QString(std::u16string(t.begin(), t.end()));
    }
    // replaces every occurrence of the lowest-numbered place marker %1..%99
    QString arg(const QString &a) const {
        int lowest = 0;
        struct M { size_t st, en; int v; };
        std::vector<M> marks;
        for (size_t i = 0; i < s.size();) {
            if (s[i] == u'%' && i + 1 < s.size() && s[i + 1] >= u'0' && s[i + 1] <= u'9') {
                size_t j = i + 1;
                int v = s[j] - u'0';
                ++j;
                if (j < s.size() && s[j] >= u'0' && s[j] <= u'9') { v = v * 10 + (s[j] - u'0'); ++j; }
                if (v >= 1) {
                    marks.push_back({i, j, v});
                    if (!lowest || v < lowest) lowest = v;
                    i = j;
                    continue;
                }
            }
            ++i;
        }
        if (!lowest) return *this;
        std::u16string r;
        size_t pos = 0;
        for (const M &m : marks) {
            if (m.v == lowest) { r.append(s, pos, m.st - pos); r.append(a.s); pos = m.en; }
        }
        r.append(s, pos, std::u16string::npos);
        return QString(r);
    }
    QString arg(int a) const { return arg(number(a)); }
    QString arg(uint a) const { return arg(number(a)); }
    QString arg(long long a) const { return arg(number(a)); }
};
// keeps embedded NULs, as the real macro does (size taken from the literal)
#define QStringLiteral(str) QString(std::u16string(u"" str, sizeof(u"" str) / sizeof(char16_t) - 1))
#define QLatin1String(str) QString(u"" str)

struct QCoreApplication {
    // the same injective tagging function as the harness' reference interpreter
    static QString translate(const char *, const char *text, const char * = nullptr, int = -1) {
        return QString(u"«") + QString::fromUtf8(text) + QString(u"»");
    }
};

// ---------------------------------------------------------------------------------------------
template <typename T> class QList {
    std::vector<T> v;
public:
    QList() {}
    QList(std::initializer_list<T> l) : v(l) {}
    bool isEmpty() const { return v.empty(); }
    int size() const { return int(v.size()); }
    int count() const { return int(v.size()); }
    const T &at(int i) const {
        if (i < 0 || size_t(i) >= v.size()) qv::die("RANGE", "QList::at");
        return v[size_t(i)];
    }
    T &operator[](int i) {
        if (i < 0 || size_t(i) >= v.size()) qv::die("RANGE", "QList::operator[]");
        return v[size_t(i)];
    }
    const T &operator[](int i) const { return at(i); }
    void append(const T &t) { v.push_back(t); }
    friend bool operator==(const QList &a, const QList &b) { return a.v == b.v; }
    friend bool operator!=(const QList &a, const QList &b) { return !(a.v == b.v); }
    typename std::vector<T>::const_iterator begin() const { return v.begin(); }
    typename std::vector<T>::const_iterator end() const { return v.end(); }
};
typedef QList<QString> QStringList;

class QVariant {
public:
    enum Kind { Invalid, Int, UInt, Double, Bool, String };
private:
    Kind k = Invalid;
    long long i = 0;
    double d = 0;
    QString s;
public:
    QVariant() {}
    QVariant(int v) : k(Int), i(v) {}
    QVariant(uint v) : k(UInt), i(v) {}
    QVariant(double v) : k(Double), d(v) {}
    QVariant(bool v) : k(Bool), i(v) {}
    QVariant(const QString &v) : k(String), s(v) {}
    Kind kind() const { return k; }
    template <typename T> T value() const;
    friend bool operator==(const QVariant &a, const QVariant &b) { return a.k == b.k && a.i == b.i && a.d == b.d && a.s == b.s; }
    friend bool operator!=(const QVariant &a, const QVariant &b) { return !(a == b); }
    long long rawInt() const { return i; }
    double rawDouble() const { return d; }
    const QString &rawString() const { return s; }
};
template <> inline int QVariant::value<int>() const { if (k != Int) qv::die("VARIANT", "value<int> of another kind"); return int(i); }
template <> inline uint QVariant::value<uint>() const { if (k != UInt) qv::die("VARIANT", "value<uint> of another kind"); return uint(i); }
template <> inline double QVariant::value<double>() const { if (k != Double) qv::die("VARIANT", "value<double> of another kind"); return d; }
template <> inline bool QVariant::value<bool>() const { if (k != Bool) qv::die("VARIANT", "value<bool> of another kind"); return i != 0; }
template <> inline QString QVariant::value<QString>() const { if (k != String) qv::die("VARIANT", "value<QString> of another kind"); return s; }

// ---------------------------------------------------------------------------------------------
// QObject, connections
class QObject;
namespace QMetaObject {
class Connection {
    std::shared_ptr<bool> alive;
    friend class ::QObject;
public:
    Connection() {}
    explicit Connection(std::shared_ptr<bool> a) : alive(std::move(a)) {}
    // true while connected (as QMetaObject::Connection::operator bool)
    explicit operator bool() const { return alive && *alive; }
};
}

template <typename... Args> struct QOverload {
    template <typename C, typename R> static constexpr auto of(R (C::*p)(Args...)) noexcept -> decltype(p) { return p; }
    template <typename C, typename R> static constexpr auto of(R (C::*p)(Args...) const) noexcept -> decltype(p) { return p; }
};

namespace qv {
typedef std::string SignalKey;
template <typename PMF> SignalKey signal_key(PMF p) {
    SignalKey k(sizeof(PMF), '\0');
    std::memcpy(&k[0], &p, sizeof(PMF));
    return k;
}
struct Slot {
    std::shared_ptr<bool> alive;
    std::function<void(void **)> call;
};
template <typename... A, size_t... I> std::tuple<typename std::decay<A>::type &...> argv_tuple(void **argv, std::index_sequence<I...>) {
    return std::tuple<typename std::decay<A>::type &...>(*static_cast<typename std::decay<A>::type *>(argv[I])...);
}
// calls f with the longest prefix of the arguments it accepts
template <typename F, typename Tuple, size_t... I> auto call_prefix_impl(F &f, Tuple &t, std::index_sequence<I...>, int) -> decltype(f(std::get<I>(t)...), void()) { f(std::get<I>(t)...); }
template <typename F, typename Tuple, size_t... I> void call_prefix_impl(F &f, Tuple &t, std::index_sequence<I...>, long) {
    static_assert(sizeof...(I) > 0, "the functor accepts no prefix of the signal arguments");
    call_prefix_impl(f, t, std::make_index_sequence<sizeof...(I) - 1>(), 0);
}
}

class QObject {
    std::map<qv::SignalKey, std::vector<qv::Slot>> slots_;
    std::string qvName_;
public:
    QObject() {}
    virtual ~QObject() {}
    QObject(const QObject &) = delete;
    void qvSetName(const char *n) { qvName_ = n; }
    const std::string &qvName() const { return qvName_; }

    template <typename S, typename C, typename... A, typename F>
    static QMetaObject::Connection connect(S *sender, void (C::*sig)(A...), const QObject *context, F f) {
        static_assert(std::is_base_of<C, S>::value, "the signal does not belong to the class of the sender");
        if (!sender) qv::die("CONNECT", "null sender");
        (void)context;
        auto alive = std::make_shared<bool>(true);
        qv::Slot sl;
        sl.alive = alive;
        sl.call = [f](void **argv) mutable {
            auto t = qv::argv_tuple<A...>(argv, std::make_index_sequence<sizeof...(A)>());
            qv::call_prefix_impl(f, t, std::make_index_sequence<sizeof...(A)>(), 0);
        };
        static_cast<QObject *>(sender)->slots_[qv::signal_key(sig)].push_back(sl);
        return QMetaObject::Connection(alive);
    }
    static bool disconnect(const QMetaObject::Connection &c) {
        if (c.alive && *c.alive) { *c.alive = false; return true; }
        return false;
    }

protected:
    // emits the signal `sig` of this object with the given arguments
    template <typename C, typename... A> void qvEmit(void (C::*sig)(A...), typename std::decay<A>::type... args) {
        auto it = slots_.find(qv::signal_key(sig));
        if (it == slots_.end()) return;
        void *argv[sizeof...(A) + 1] = {static_cast<void *>(&args)..., nullptr};
        // slots connected during emission are not called for this emission (copy first)
        std::vector<qv::Slot> snapshot = it->second;
        for (qv::Slot &s : snapshot) {
            if (*s.alive) s.call(argv);
        }
    }
};
