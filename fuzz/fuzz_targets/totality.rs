//! libFuzzer target for C07 (totality): any UTF-8 input, all three dynamic-binding modes, with the
//! semantic oracle of the C07 check inside the target. Known findings (deep nesting, parser
//! livelock) are excluded in-target so that a campaign does not rediscover them forever.
#![no_main]
use libfuzzer_sys::fuzz_target;

fuzz_target!(|data: &[u8]| {
    if let Ok(src) = std::str::from_utf8(data) {
        qv::checks::c07::fuzz_one(src);
    }
});
