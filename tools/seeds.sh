#!/bin/bash
# runs every claimed check's quick tier under several seeds with a prebuilt binary; prints non-zero exits
BIN=${BIN:-/verif/target/qv-seedrun}
SEEDS=${SEEDS:-"1 2 3 4 5 6 7 8"}
IDS=${IDS:-$(python3 -c "import json;print(' '.join(c['property_id'] for c in json.load(open('/verif/MANIFEST.json'))['checks']))")}
for s in $SEEDS; do for id in $IDS; do
  out=$(VERIF_SEED=$s $BIN check $id quick 2>&1); rc=$?
  echo "seed=$s id=$id rc=$rc $(echo "$out" | grep -c '^VIOLATION')"
  if [ $rc -ne 0 ]; then echo "$out" | tail -5; fi
done; done
