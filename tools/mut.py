#!/usr/bin/env python3
"""Sensitivity helper: apply one textual mutation (or a patch) to /repo, run checks, always revert.

usage: mut.py --file lib/src/color.rs --old 'X' --new 'Y' C19 [C03 ...]
       mut.py --patch /path/to.diff C19
Prints one line per check: <id> exit=<code> [VIOLATION lines].  Never leaves /repo modified.
"""
import argparse, subprocess, sys, os, time
ap = argparse.ArgumentParser()
ap.add_argument('--file'); ap.add_argument('--old'); ap.add_argument('--new')
ap.add_argument('--patch'); ap.add_argument('--tier', default='quick')
ap.add_argument('--tests', action='store_true', help='also run the repository test suite under the mutation')
ap.add_argument('--count', type=int, default=1)
ap.add_argument('checks', nargs='*')
a = ap.parse_args()
def sh(cmd, **kw): return subprocess.run(cmd, shell=True, text=True, capture_output=True, **kw)
st = sh('git -C /repo status --porcelain').stdout.strip()
if st:
    print('refusing: /repo is dirty:\n' + st); sys.exit(2)
try:
    if a.patch:
        r = sh(f'git -C /repo apply {a.patch}')
        if r.returncode: print('patch does not apply:', r.stderr); sys.exit(2)
    else:
        p = os.path.join('/repo', a.file); s = open(p).read()
        if s.count(a.old) < 1: print('old string not found'); sys.exit(2)
        if s.count(a.old) != a.count: print(f'old string occurs {s.count(a.old)} times (expected {a.count})'); sys.exit(2)
        open(p, 'w').write(s.replace(a.old, a.new))
    if a.tests:
        t0 = time.time()
        r = sh('cd /repo && cargo test --workspace --no-fail-fast --offline 2>&1 | grep -E "^test result|FAILED|failed" | head -20')
        print(f'[tests {time.time()-t0:.0f}s]\n' + r.stdout)
    for c in a.checks:
        t0 = time.time()
        r = sh(f'/verif/run.sh {c} {a.tier}')
        v = [l for l in r.stdout.splitlines() if l.startswith('VIOLATION') or l.startswith('KNOWN-FINDING')]
        print(f'{c} exit={r.returncode} {time.time()-t0:.0f}s ' + ' | '.join(v))
        if r.returncode not in (0, 1):
            print(r.stderr[-2000:])
finally:
    sh('git -C /repo checkout -- .')
    st = sh('git -C /repo status --porcelain').stdout.strip()
    if st: print('WARNING: /repo still dirty:\n' + st)
    # the harness binary links /repo: rebuild it against the reverted tree so that nobody runs a stale one
    sh('cd /verif/qv && cargo build --offline -q; cargo build --offline -q --manifest-path /repo/Cargo.toml --bin qmluic --target-dir /verif/target/cli')
