#!/usr/bin/env python3
"""Regenerates /verif/MANIFEST.json from the table below (single source of truth)."""
import json
props = [json.loads(l) for l in open('/verif/properties.jsonl')]
ids = [p['id'] for p in props]

# id -> (category, technique, text, note, design_ref)
CHECKS = {
 'C18': ('exploration',
         'model-based property testing over generated projects through the real binary, with permutation metamorphism over the source arguments',
         'Generated directory layouts of QML files with arbitrary import-by-string and root-type relations (chains, mutually importing directories, mutually inheriting and self-inheriting components present, missing bases, invalid uses) are translated by the real qmluic binary once per order of the source arguments, each in a fresh copy; every run must terminate with status 0/1, status and written bytes must not depend on the order, valid projects must list exactly the instantiated components under <customwidgets> (class, type of the component\'s own root object, file-name-rule header) and keep base-class properties on instances, invalid uses must be rejected.',
         'Acceptance is predicted by a visibility model written in the harness (own directory + directories imported by the file); name clashes across directories are not generated. Termination is judged by watchdog with confirmation.',
         'DESIGN.md section 3 C18'),
 'C15': ('fault_enumeration',
         'model-based file-system property testing over generated projects and histories, plus enumerated injected kills at every output-touching system call',
         'Generated scratch projects (path shapes, output-directory forms, file-name rule, binding mode, cwd) are run through the real qmluic binary and the tree difference is compared with the path model of the statement and with the in-process translation; generated edit/regenerate histories check that current outputs keep inode and mtime; for the kill clause a tracing run enumerates every system call that touches an output and the run is repeated once per call with SIGKILL delivered on entry to exactly that call (strace inject), after which each output must hold its complete old or complete new bytes.',
         'Crash points are system-call boundaries of this process (not power loss); strace must be able to trace in the sandbox (the evidence says when it cannot and the kill part is skipped). Content expectations come from the library translation of the same text.',
         'DESIGN.md section 3 C15'),
 'C07': ('exploration',
         'grammar-based generation + token-level mutation + token soup, outcome classifier as oracle, in isolated child processes; coverage-guided libFuzzer target for the thorough tier',
         'Well-formed documents from every generator of the framework, the same with 1-4 token-level mutations, and token soup are translated in all three modes through the preview path (semantic passes run on trees with ERROR/MISSING nodes) and every diagnostic is rendered with codespan; the classifier demands: no panic, output or a syntax error or an error diagnostic, all ranges inside the text on character boundaries, well-formed serialised output. Children with a per-case watchdog and a memory limit turn stack exhaustion, runaway allocation and hangs into violations with replay files; a sample and deep-nesting probes go through the real binary (exit status 0/1, no panic text).',
         'Inputs with syntax trees deeper than 64 are excluded in-process and probed through the binary (known finding: recursive walkers exhaust the stack). Termination is judged by watchdog with margin and confirmation.',
         'DESIGN.md section 3 C07'),
 'C17': ('exploration',
         'model-based property testing: generated class graphs against an independent reachability oracle, in isolated child processes',
         'Class graphs of 1-14 classes with multiple inheritance, diamonds, cycles, self references, dangling names, enums named as super classes and non-public edges, and small name pools for properties, methods, enums and variants (so shadowing is common) are loaded as type information; every pairwise derives-from/common-base query and every (class, name) lookup is compared with a reachability oracle over public resolvable edges written in the harness. The search runs in child processes with a per-case watchdog and a memory limit, so unbounded recursion, allocation or looping becomes a violation with a replay file.',
         'When an unresolvable/invalid public super reference is reachable from the queried class, the API\'s error arm is accepted (TypeMapError is the documented report of an inconsistent map). Termination is judged by watchdog with margin and confirmation. One known finding (scoped super-class name recursing through its own bases) is excluded by construction and confirmed by a child-process probe.',
         'DESIGN.md section 3 C17'),
 'C04': ('exploration',
         'property-based testing: validity predicate over both artifacts, planted faults, and file-system observation of the real binary',
         'Accepted documents mixing constant bindings of every catalogue kind, dynamic bindings, handlers and mixed gadget maps on arbitrary object trees: every binding must surface in exactly one place (decoded .ui value, or exactly one update/connect on exactly its object in the scanned header). Faulted documents (one of 17 fault kinds planted anywhere): not accepted, an error diagnostic within the text of the faulty binding, and - through the real qmluic binary in a scratch project with pre-existing outputs - exit status 1 with every file byte-, inode- and mtime-identical and nothing created.',
         'Trusts the harness XML reader and header scanner; setter/getter names come from the metatypes. The CLI part is sampled (200 runs quick, 3000 thorough).',
         'DESIGN.md section 3 C04 and appendix A'),
 'C05': ('exploration',
         'differential property testing in both directions: type-directed program generator (accept) and single type-breaking edits that are ill-typed by construction (reject)',
         'Direction 1: documents with up to 12 binding bodies and 3 handler bodies grown type-first from the documented subset must be accepted with an empty diagnostic list. Direction 2: the same programs (dynamic and constant-only, bindings and handlers) with exactly one edit from a 30-kind catalogue mirroring the rule list of the statement must be rejected with an error inside the edited binding. The evidence reports the edit-kind x context x site matrix.',
         'Edits are ill-typed by construction (the position demands a type the replacement certainly lacks); the `<` operator is excluded (known finding in the parser dependency, confirmed by a probe). "No code" is decided here by non-acceptance; the absence of output files is C04.',
         'DESIGN.md section 3 C05 and appendix B'),
 'C06': ('exploration',
         'property-based testing with a validity predicate (CFG verifier) over every generated function body',
         'The control-flow-heavy end of the language generator (arbitrary nestings of ternary, &&, ||, if/else, switch/case/default/break, early return, shadowing, declarations assigned in both branches, statements after switches) produces binding and handler bodies; every eval.../on... body of the emitted header is parsed into a control-flow graph and verified: existing jump targets, entry b0, every reachable label ends in goto/branch/return (never Q_UNREACHABLE() or the closing brace), value on every reachable return of a value-returning body, and a forward must-be-assigned dataflow for every local before each read.',
         'The emitted C++ is a one-to-one print of the IR; the scanner refuses any line it does not recognise. The same bodies are compiled (C16) and executed (C01/C13) as independent detectors.',
         'DESIGN.md section 3 C06'),
 'C03': ('exploration',
         'property-based testing: value-first literal speller and constant-expression generator against an independent evaluator, decoded from the .ui',
         'Values are generated first and spelled by the ECMAScript lexical grammar (radix prefixes, legacy octal, separators, exponent forms, every string escape form); constant expressions over them use every foldable operator; each sits on a property of matching type (int, uint, double, bool, QString, enum, flags, QStringList, pointer). The harness\' own evaluator (checked i64, IEEE doubles, Unicode strings) gives the expected value, which must equal what an independent XML reader decodes from the .ui; undefined constants and int/double mix-ups must be rejected with an error inside the binding.',
         'Rejected documents are counted, not judged (acceptance is C05); non-finite doubles and string orders that differ between UTF-16 and code points are skipped. One known finding in the parser dependency (relational chains before `<` nest to the right) is excluded by construction and confirmed by a probe.',
         'DESIGN.md section 3 C03'),
 'C08': ('exploration',
         'metamorphic property testing: repeated translation under fresh hash seeds, in one process and in fresh processes',
         'Documents built to expose a missing sort (many bindings per object, palettes, fonts, icons, several handlers per object, several includes, several independent errors) are translated 8 times in one process, interleaved with other documents and modes (every HashMap instance gets a new seed), and a sample 3 times by fresh qmluic processes; .ui bytes, header bytes, exit status and the diagnostic multiset must be equal; the command\'s bytes must equal the library\'s.',
         'Hash seeds are sampled by repetition, not enumerated (no hook to set them); a missing sort over >=4 entries escapes 8 repetitions with probability <= (1/24)^7.',
         'DESIGN.md section 3 C08'),
 'C14': ('exploration',
         'differential property testing across the three dynamic-binding modes',
         'Generated documents (static, with dynamic bindings/handlers, with one or two planted faults of 16 kinds) are translated in generate, reject and omit mode and the four clauses of the statement are compared across the three results: identical .ui whenever produced, accepted(reject) <=> accepted(generate) with a header free of bindings and callbacks, errors(omit) a sub-multiset of errors(generate), header only in generate.',
         '"Produced" = accepted for generate/reject (what the command writes) and built for omit (what the previewer shows). Header emptiness is read by the harness header scanner.',
         'DESIGN.md section 3 C14'),
 'C20': ('exploration',
         'metamorphic property testing: faulted document vs. the same document with the fault removed, in omit mode',
         'One fault from the statement\'s list is planted at a random object of a generated accepted document (layouts with explicit cells included); in omit mode a form must exist, an error must lie inside the faulty text, and the form must equal - outside the faulty object, whose own values are masked - the form of the document with the faulty binding (or a larger subset of that object\'s own bindings) removed, resp. with exactly the faulty object\'s subtree removed up to renumbering of generated names.',
         'The subset family makes "loses at most its own property values" exact while letting grid successors move exactly when deleting those bindings moves them. Result-type mismatches of dynamic bindings are not planted: omit mode does not run the pass that finds them (consistent with C14\'s subset clause).',
         'DESIGN.md section 3 C20'),
 'C09': ('exploration',
         'property-based round-trip through an independent XML parser plus a grammar validity predicate',
         'Accepted documents decorated from the whole constant-binding catalogue, with every string slot (text, tool tips, titles, string lists, model items, tab attributes, icon theme attribute, font family, pixmap paths, key sequences) filled from the XML 1.0 Char production and with unusual type names, are translated; the .ui must parse with a strict XML reader written in the harness, stay inside a content-model table of the ui4 subset uic reads, and every decoded string/value must equal the model value exactly. A round-trip over generated strings is exactly what decides "for all string contents".',
         'Trusts the harness XML reader and the content-model table (DESIGN appendix C). Characters XML cannot carry are outside the preservation clause; a probe shows they are written raw (known finding).',
         'DESIGN.md section 3 C09'),
 'C10': ('exploration',
         'property-based testing with an adversarial name generator; validity predicate over both artifacts',
         'Object trees whose ids are drawn from the space of names a generator could hand out for the classes present (and classes named like generated names), with buddy/actions references and dynamic bindings that reach objects by id or as `this`; the decoded .ui and the scanned header are checked for pairwise distinct names, id=name, generated names avoiding ids, every addaction/cstring/ui_-> reference denoting exactly the intended declared object, unique function names, and rejection of duplicated ids. Generated adversarial inputs are what reaches the collision cases a snapshot suite never samples.',
         'Trusts the harness XML reader and header scanner; "derived from the class" is read loosely (prefix of the lower-cased class name with or without Q/K). Class compatibility of header references is additionally decided by compilation in C16.',
         'DESIGN.md section 3 C10'),
 'C11': ('exploration',
         'model-based property testing: expected element tree computed from the generated document model',
         'Random legal object trees (widgets, four layouts, spacers, actions, separators, menus, bars, tab widgets, main windows; 1-60 objects, uniformly shuffled sibling order, explicit actions lists) are translated and the decoded .ui is compared node by node with the tree the statement prescribes (element kind from the metatypes\' inheritance, class attribute, <item> wrapping, sibling order, addaction sequence).',
         'Element kinds come from the harness\' own closure over the metatypes\' superClasses; illegal nestings are only judged when accepted. Custom components are covered by C18.',
         'DESIGN.md section 3 C11'),
 'C12': ('exploration',
         'property-based testing against a reference model of the flow rule and attribute arrays',
         'Grid, form and box layouts with 0-24 children and arbitrary optional row/column/span/alignment/stretch/minimum-size attachments are generated from choice sequences (both flows, valid and invalid column/row counts, indices at/over the bound and negative, conflicting values); a reference model written from the statement predicts every cell, span, alignment and array entry, or rejection; the .ui is decoded with an independent XML reader and compared; rejected cases need an error diagnostic inside an offending binding. Generated search with shrinking is the right level: the rule is a small state machine over child sequences that tests sample only at a handful of points.',
         'Reference model and XML reader are part of the trusted base; fill values for indices nobody set and indices beyond 65535 are not compared; one known finding (rowMinimumHeight keyed by column) is recognised by an exact alternative model and listed in known_findings.json.',
         'DESIGN.md section 3 C12'),
 'C19': ('exploration',
         'property-based testing: exhaustive + sampled comparison with an independent decoder and table',
         'All 3- and 4-digit hex strings are enumerated in three letter cases; 6/8-digit strings, all keywords in sampled (thorough: all) letter cases and 16 families of near misses are generated; each is compared with a decoder written from the statement and a keyword table committed as data; a sample goes end to end through QColor/QBrush/palette bindings and is read back from the .ui with an independent XML reader. Exhaustive where the space is small, sampled elsewhere; this is the right level for a pure string->value function.',
         'Trusts the committed 147-keyword table (two unrelated copies agree) and the harness XML reader; "transparent" is read case-insensitively as Qt does.',
         'DESIGN.md section 3 C19'),
}

NOT_YET = 'check not built yet (work in progress; see DESIGN.md section 8)'

m = {
 'version': 1,
 'setup_cmd': 'cd /verif/qv && CARGO_NET_OFFLINE=true cargo build --offline -q && CARGO_NET_OFFLINE=true cargo build --offline -q --manifest-path /repo/Cargo.toml --bin qmluic --target-dir /verif/target/cli',
 'hooks': {
   'guard': 'yuja_qmluic_verif',
   'enable': 'no hooks exist: every check observes public library entry points, the emitted .ui/.h text, or the qmluic binary, all built from /repo unmodified',
   'baseline_off_cmd': 'cd /repo && cargo test --workspace --no-fail-fast --offline',
   'source_commits': [],
   'add_only': True,
 },
 'engines': [
   {'name': 'qv', 'path': '/verif/qv', 'serves_properties': sorted(CHECKS),
    'kind_free_text': 'Rust harness: proptest-driven choice-sequence generators (sharded, seeded by VERIF_SEED), reference models/oracles, independent XML reader, replay files; path-depends on /repo so every run rebuilds from the working tree'},
 ],
 'checks': [],
 'notes': 'Every check: ./run.sh <id> <tier> rebuilds the harness against /repo\'s working tree, replays /verif/replays/<id>/*.json, then runs the generated search. Exit 2 = infrastructure trouble/inconclusive (never a verdict). Known findings: /verif/known_findings.json.',
 'not_applicable': [],
}
for i in ids:
    if i in CHECKS:
        cat, tech, text, note, ref = CHECKS[i]
        m['checks'].append({
          'property_id': i,
          'quick_cmd': f'./run.sh {i} quick',
          'thorough_cmd': f'./run.sh {i} thorough',
          'evidence_file': f'/verif/evidence/{i}.json',
          'replay_cmd_template': '/verif/target/debug/qv replay {path}',
          'engine': 'qv',
          'level_claimed': {'category': cat, 'text': text, 'design_ref': ref},
          'level_note': note,
          'technique': tech,
        })
    else:
        m['not_applicable'].append({'property_id': i, 'reason': NOT_YET})
json.dump(m, open('/verif/MANIFEST.json', 'w'), indent=1)
print('checks:', [c['property_id'] for c in m['checks']])
