#!/bin/bash
# runs the thorough tier of the given checks one after the other; log per check under /verif/target
for id in "$@"; do
  s=$(date +%s)
  /verif/run.sh $id thorough > /verif/target/thorough.$id.log 2>&1; rc=$?
  echo "$id rc=$rc $(( $(date +%s) - s ))s $(grep -c '^VIOLATION' /verif/target/thorough.$id.log)"
done
